#![allow(dead_code)]
//! `jjverif <ID> --tier quick|thorough [--seed N] [--replay FILE]`

mod engine;
mod gens;
mod model;
mod props;

use std::path::PathBuf;

use engine::runner::Report;
use engine::runner::Tier;

fn usage() -> ! {
    eprintln!("usage: jjverif <ID> [--tier quick|thorough] [--seed N] [--replay FILE]");
    std::process::exit(2);
}

fn main() {
    let mut args = std::env::args().skip(1);
    let Some(id) = args.next() else { usage() };
    let mut tier = match std::env::var("VERIF_TIER").as_deref() {
        Ok("thorough") => Tier::Thorough,
        _ => Tier::Quick,
    };
    let mut tier_explicit = false;
    let mut seed: u64 = std::env::var("VERIF_SEED")
        .ok()
        .and_then(|s| s.parse::<i128>().ok())
        .map(|v| v as u64)
        .unwrap_or(0);
    let mut replay: Option<PathBuf> = None;
    while let Some(arg) = args.next() {
        match arg.as_str() {
            "--tier" => {
                tier = match args.next().as_deref() {
                    Some("quick") => Tier::Quick,
                    Some("thorough") => Tier::Thorough,
                    _ => usage(),
                };
                tier_explicit = true;
            }
            "--seed" => seed = args.next().and_then(|s| s.parse().ok()).unwrap_or_else(|| usage()),
            "--replay" => replay = Some(PathBuf::from(args.next().unwrap_or_else(|| usage()))),
            _ => usage(),
        }
    }
    let _ = tier_explicit;
    if id == "debug-c14" {
        props::c14::debug_sizes();
        return;
    }
    let Some((static_id, run)) = props::lookup(&id) else {
        eprintln!("unknown property id {id}");
        std::process::exit(2);
    };
    engine::runner::install_panic_hook();
    // Whole-run watchdog: a hang is inconclusive (exit 2), never a violation.
    let limit_s: u64 = std::env::var("VERIF_WATCHDOG_S")
        .ok()
        .and_then(|v| v.parse().ok())
        .unwrap_or(match tier {
            Tier::Quick => 1500,
            Tier::Thorough => 6 * 3600,
        });
    std::thread::spawn(move || {
        std::thread::sleep(std::time::Duration::from_secs(limit_s));
        println!("INCONCLUSIVE property={id} watchdog after {limit_s}s");
        std::process::exit(2);
    });

    let mut code = 0;
    if replay.is_none() {
        // Replay stored regression cases and known-finding witnesses first.
        for dir in ["replays", "known"] {
            let dir = engine::runner::verif_root().join(dir).join(static_id);
            let Ok(entries) = std::fs::read_dir(&dir) else { continue };
            let mut files: Vec<_> = entries.filter_map(|e| e.ok()).map(|e| e.path()).collect();
            files.sort();
            for file in files {
                if file.extension().and_then(|e| e.to_str()) != Some("json") {
                    continue;
                }
                let mut report = Report::new(static_id, tier, seed, Some(file.clone()));
                run(&mut report);
                let c = report.finish();
                if c == 1 {
                    code = 1;
                } else if c == 2 && code == 0 {
                    eprintln!("stored case {} could not be replayed", file.display());
                }
            }
        }
    }
    let mut report = Report::new(static_id, tier, seed, replay);
    if code == 1 {
        // Keep the evidence honest: a stored case failed.
        report.set_extra("stored_case_failed", serde_json::json!(true));
    }
    run(&mut report);
    let c = report.finish();
    std::process::exit(if code == 1 { 1 } else { c });
}
