//! Tree model (DESIGN §4): `BTreeMap<path, Entry>` over a deliberately tiny path
//! alphabet so that file<->directory replacement and subtree cancellation are
//! common. Invariant: no entry's path is a proper directory prefix of another.

use std::collections::BTreeMap;
use std::sync::Arc;

use jj_lib::backend::TreeValue;
use jj_lib::merged_tree::MergedTree;
use jj_lib::repo_path::RepoPath;
use jj_lib::repo_path::RepoPathBuf;
use jj_lib::store::Store;
use pollster::FutureExt as _;
use proptest::prelude::*;
use serde::Deserialize;
use serde::Serialize;
use testutils::TestTreeBuilder;

use crate::engine::runner::pick;
use crate::gens::content::Bytes;

#[derive(Debug, Clone, PartialEq, Eq, PartialOrd, Ord, Hash, Serialize, Deserialize)]
pub enum Entry {
    File { content: Bytes, exec: bool },
    Symlink(String),
}

pub type ModelTree = BTreeMap<String, Entry>;

pub const PATHS: &[&str] = &[
    "a", "b", "c", "d", "a/b", "a/c", "a/b/c", "a/b/d", "d/e", "d/e/f", "b/x", "ü", "a/ü", "c/y z",
];

pub fn repo_path(path: &str) -> RepoPathBuf {
    RepoPathBuf::from_internal_string(path).expect("valid repo path")
}

fn is_proper_prefix(dir: &str, path: &str) -> bool {
    path.len() > dir.len() && path.starts_with(dir) && path.as_bytes()[dir.len()] == b'/'
}

/// Puts `entry` at `path`, replacing whatever file stood at an ancestor
/// directory position and whatever directory stood at `path`.
pub fn put(tree: &mut ModelTree, path: &str, entry: Entry) {
    tree.retain(|p, _| !is_proper_prefix(p, path) && !is_proper_prefix(path, p));
    tree.insert(path.to_string(), entry);
}

/// Deletes the file at `path` or everything below the directory `path`.
pub fn delete(tree: &mut ModelTree, path: &str) {
    tree.retain(|p, _| p != path && !is_proper_prefix(path, p));
}

/// True if `path` is a directory in the tree (some entry lies below it).
pub fn is_dir(tree: &ModelTree, path: &str) -> bool {
    tree.keys().any(|p| is_proper_prefix(path, p))
}

pub fn small_content() -> impl Strategy<Value = Bytes> {
    prop_oneof![
        4 => prop::sample::select(vec!["", "x\n", "y\n", "1\n2\n3\n", "1\nX\n3\n", "1\n2\nY\n", "1\n2\n3\n4\n", "no eol"])
            .prop_map(Bytes::from),
        2 => crate::gens::content::related_texts(Just(1usize), 6, false).prop_map(|mut v| v.remove(0)),
        1 => prop::collection::vec(any::<u8>(), 0..12).prop_map(Bytes),
    ]
}

pub fn entry() -> impl Strategy<Value = Entry> {
    prop_oneof![
        8 => (small_content(), prop::bool::weighted(0.2))
            .prop_map(|(content, exec)| Entry::File { content, exec }),
        1 => prop::sample::select(vec!["a", "b", "../x", "nowhere", "d/e"])
            .prop_map(|t| Entry::Symlink(t.to_string())),
    ]
}

#[derive(Debug, Clone, Serialize, Deserialize)]
pub enum TreeEdit {
    Put(u16, Entry),
    Delete(u16),
    Chmod(u16),
}

pub fn tree_edit() -> impl Strategy<Value = TreeEdit> {
    prop_oneof![
        6 => (any::<u16>(), entry()).prop_map(|(p, e)| TreeEdit::Put(p, e)),
        2 => any::<u16>().prop_map(TreeEdit::Delete),
        1 => any::<u16>().prop_map(TreeEdit::Chmod),
    ]
}

pub fn apply_edit(tree: &mut ModelTree, edit: &TreeEdit) {
    match edit {
        TreeEdit::Put(p, e) => put(tree, PATHS[pick(*p, PATHS.len())], e.clone()),
        TreeEdit::Delete(p) => {
            // Prefer deleting something that exists: map onto existing keys and
            // their directories when the tree is non-empty.
            let mut targets: Vec<String> = tree.keys().cloned().collect();
            for k in tree.keys() {
                let mut cur = k.as_str();
                while let Some((dir, _)) = cur.rsplit_once('/') {
                    if !targets.iter().any(|t| t == dir) {
                        targets.push(dir.to_string());
                    }
                    cur = dir;
                }
            }
            if !targets.is_empty() {
                let t = targets[pick(*p, targets.len())].clone();
                delete(tree, &t);
            }
        }
        TreeEdit::Chmod(p) => {
            let files: Vec<String> = tree
                .iter()
                .filter(|(_, e)| matches!(e, Entry::File { .. }))
                .map(|(k, _)| k.clone())
                .collect();
            if !files.is_empty() {
                let k = &files[pick(*p, files.len())];
                if let Some(Entry::File { exec, .. }) = tree.get_mut(k) {
                    *exec = !*exec;
                }
            }
        }
    }
}

pub fn apply_edits(base: &ModelTree, edits: &[TreeEdit]) -> ModelTree {
    let mut t = base.clone();
    for e in edits {
        apply_edit(&mut t, e);
    }
    t
}

/// A random tree: a handful of puts on the empty tree.
pub fn model_tree(max_entries: usize) -> impl Strategy<Value = ModelTree> {
    prop::collection::vec((any::<u16>(), entry()), 0..=max_entries).prop_map(|puts| {
        let mut t = ModelTree::new();
        for (p, e) in puts {
            put(&mut t, PATHS[pick(p, PATHS.len())], e);
        }
        t
    })
}

/// Writes the model tree through the store.
pub fn write_tree(store: &Arc<Store>, tree: &ModelTree) -> MergedTree {
    let mut builder = TestTreeBuilder::new(store.clone());
    for (path, entry) in tree {
        let rp = repo_path(path);
        match entry {
            Entry::File { content, exec } => {
                builder.file(&rp, &content.0).executable(*exec);
            }
            Entry::Symlink(target) => builder.symlink(&rp, target),
        }
    }
    builder.write_merged_tree()
}

/// Reads back one resolved tree value into a model entry. `None` for absent,
/// `Err` for trees/submodules (not representable as a leaf).
pub fn read_value(
    store: &Arc<Store>,
    path: &RepoPath,
    value: &Option<TreeValue>,
) -> Result<Option<Entry>, String> {
    match value {
        None => Ok(None),
        Some(TreeValue::File { id, executable, .. }) => {
            let content = testutils::read_file(store, path, id);
            Ok(Some(Entry::File {
                content: Bytes(content),
                exec: *executable,
            }))
        }
        Some(TreeValue::Symlink(id)) => {
            let target = store
                .read_symlink(path, id)
                .block_on()
                .map_err(|e| e.to_string())?;
            Ok(Some(Entry::Symlink(target)))
        }
        Some(other) => Err(format!("not a leaf: {other:?}")),
    }
}

/// Reads a conflict-free merged tree back into a model tree.
pub fn read_resolved_tree(tree: &MergedTree) -> Result<ModelTree, String> {
    let store = tree.store().clone();
    let mut out = ModelTree::new();
    for (path, value) in tree.entries() {
        let value = value.map_err(|e| e.to_string())?;
        let Some(resolved) = value.as_resolved() else {
            return Err(format!("conflict at {path:?}"));
        };
        if let Some(entry) = read_value(&store, &path, resolved)? {
            out.insert(path.as_internal_file_string().to_string(), entry);
        }
    }
    Ok(out)
}
