//! Working-copy helpers shared by the `wc` engine checks (C24, C25): working-copy
//! settings, a per-case content pool, pool-indexed tree edits, tree *recipes*
//! (resolved / merged / re-labelled trees that can be rebuilt in any store), the
//! expected-disk model (including the documented EOL conversion for small files),
//! and a disk walker that also records directories.

use std::collections::BTreeMap;
use std::path::Path;
use std::sync::Arc;

use jj_lib::backend::MergedTreeValue;
use jj_lib::backend::TreeValue;
use jj_lib::config::ConfigLayer;
use jj_lib::config::ConfigSource;
use jj_lib::conflict_labels::ConflictLabels;
use jj_lib::merge::Merge;
use jj_lib::merged_tree::MergedTree;
use jj_lib::settings::UserSettings;
use jj_lib::store::Store;
use pollster::FutureExt as _;
use proptest::prelude::*;
use serde::Deserialize;
use serde::Serialize;

use crate::engine::runner::pick;
use crate::gens::content::Bytes;
use crate::model::tree;
use crate::model::tree::Entry;
use crate::model::tree::ModelTree;
use crate::model::tree::PATHS;

// ---------------------------------------------------------------------------
// Settings
// ---------------------------------------------------------------------------

#[derive(Debug, Clone, Copy, PartialEq, Eq, Serialize, Deserialize)]
pub enum EolMode {
    None,
    Input,
    InputOutput,
}

#[derive(Debug, Clone, Copy, PartialEq, Eq, Serialize, Deserialize)]
pub enum MarkerStyle {
    Diff,
    DiffExperimental,
    Snapshot,
    Git,
}

#[derive(Debug, Clone, Copy, PartialEq, Eq, Serialize, Deserialize)]
pub struct WcSettings {
    pub eol: EolMode,
    pub exec_respect: bool,
    pub style: MarkerStyle,
}

impl WcSettings {
    pub fn config_text(&self) -> String {
        let eol = match self.eol {
            EolMode::None => "none",
            EolMode::Input => "input",
            EolMode::InputOutput => "input-output",
        };
        let exec = if self.exec_respect { "respect" } else { "ignore" };
        let style = match self.style {
            MarkerStyle::Diff => "diff",
            MarkerStyle::DiffExperimental => "diff-experimental",
            MarkerStyle::Snapshot => "snapshot",
            MarkerStyle::Git => "git",
        };
        format!(
            "ui.conflict-marker-style = \"{style}\"\nworking-copy.eol-conversion = \"{eol}\"\nworking-copy.exec-bit-change = \"{exec}\"\n"
        )
    }

    pub fn user_settings(&self) -> Result<UserSettings, String> {
        let mut config = testutils::base_user_config();
        config.add_layer(
            ConfigLayer::parse(ConfigSource::User, &self.config_text()).map_err(|e| e.to_string())?,
        );
        UserSettings::from_config(config).map_err(|e| e.to_string())
    }
}

pub fn wc_settings() -> impl Strategy<Value = WcSettings> {
    (
        prop_oneof![
            2 => Just(EolMode::None),
            1 => Just(EolMode::Input),
            2 => Just(EolMode::InputOutput),
        ],
        prop::bool::weighted(0.7),
        prop_oneof![
            3 => Just(MarkerStyle::Diff),
            1 => Just(MarkerStyle::DiffExperimental),
            2 => Just(MarkerStyle::Snapshot),
            2 => Just(MarkerStyle::Git),
        ],
    )
        .prop_map(|(eol, exec_respect, style)| WcSettings {
            eol,
            exec_respect,
            style,
        })
}

// ---------------------------------------------------------------------------
// Content pool and EOL model
// ---------------------------------------------------------------------------

/// Eight file contents per case: five related versions of one text (so that
/// merges resolve partially and conflicts have several hunks; with conflict-marker
/// look-alike lines in a fraction of the cases), plus three small / odd ones.
pub fn content_pool() -> impl Strategy<Value = Vec<Bytes>> {
    let related = prop_oneof![
        3 => crate::gens::content::related_texts(Just(5usize), 8, false),
        2 => crate::gens::content::related_texts(Just(5usize), 8, true),
    ];
    let extra = prop_oneof![
        3 => tree::small_content(),
        1 => crate::gens::content::odd_content(),
    ];
    (related, prop::collection::vec(extra, 3)).prop_map(|(mut v, extra)| {
        v.extend(extra);
        v
    })
}

/// jj's documented text/binary classifier for contents smaller than the 8 KiB
/// probe: binary iff it has a NUL or a CR that is not followed by LF.
pub fn is_binary_small(bytes: &[u8]) -> bool {
    for (i, b) in bytes.iter().enumerate() {
        match b {
            0 => return true,
            b'\r' if bytes.get(i + 1) != Some(&b'\n') => return true,
            _ => {}
        }
    }
    false
}

/// C24's soundness constraint: under `input` / `input-output` conversion stored
/// text must be LF-only (or binary). Contents with a NUL are binary in every role
/// (plain file or conflict side) and are kept; everything else loses its CRs.
/// Returns the content to store and whether it was changed.
pub fn sanitize_for_eol(content: &[u8], eol: EolMode) -> (Vec<u8>, bool) {
    if eol == EolMode::None || content.contains(&0) || !content.contains(&b'\r') {
        return (content.to_vec(), false);
    }
    (content.iter().copied().filter(|b| *b != b'\r').collect(), true)
}

/// Bytes expected on disk for stored (resolved) content smaller than 8 KiB.
pub fn disk_bytes(stored: &[u8], eol: EolMode) -> Vec<u8> {
    if eol == EolMode::InputOutput && !is_binary_small(stored) {
        let mut out = Vec::with_capacity(stored.len() + 8);
        let mut prev = 0u8;
        for &b in stored {
            if b == b'\n' && prev != b'\r' {
                out.push(b'\r');
            }
            out.push(b);
            prev = b;
        }
        out
    } else {
        stored.to_vec()
    }
}

// ---------------------------------------------------------------------------
// Pool-indexed edits over the tiny path alphabet
// ---------------------------------------------------------------------------

pub const LINK_TARGETS: &[&str] = &["a", "b", "../x", "nowhere", "d/e", "a/b"];

#[derive(Debug, Clone, Serialize, Deserialize)]
pub enum Edit {
    PutFile { path: u16, content: u16, exec: bool },
    PutLink { path: u16, target: u16 },
    Delete(u16),
    Chmod(u16),
    /// Moves an existing leaf to another slot of the path alphabet (renames
    /// inside one directory make "remove x/y, add x/z" diffs common).
    Move { from: u16, to: u16 },
}

pub fn edit() -> impl Strategy<Value = Edit> {
    prop_oneof![
        6 => (any::<u16>(), any::<u16>(), prop::bool::weighted(0.25))
            .prop_map(|(path, content, exec)| Edit::PutFile { path, content, exec }),
        1 => (any::<u16>(), any::<u16>()).prop_map(|(path, target)| Edit::PutLink { path, target }),
        2 => any::<u16>().prop_map(Edit::Delete),
        1 => any::<u16>().prop_map(Edit::Chmod),
        2 => (any::<u16>(), any::<u16>()).prop_map(|(from, to)| Edit::Move { from, to }),
    ]
}

/// Edit applied at the focus path of a merge so that the terms really collide.
#[derive(Debug, Clone, Serialize, Deserialize)]
pub enum FocusEdit {
    Nothing,
    Content(u16),
    ContentExec(u16),
    Link(u16),
    Delete,
    /// Turns the focus path into a directory (file at a path below it).
    DirBelow { child: u16, content: u16 },
}

pub fn focus_edit() -> impl Strategy<Value = FocusEdit> {
    prop_oneof![
        8 => Just(FocusEdit::Nothing),
        12 => any::<u16>().prop_map(FocusEdit::Content),
        3 => any::<u16>().prop_map(FocusEdit::ContentExec),
        1 => any::<u16>().prop_map(FocusEdit::Link),
        3 => Just(FocusEdit::Delete),
        2 => (any::<u16>(), any::<u16>()).prop_map(|(child, content)| FocusEdit::DirBelow { child, content }),
    ]
}

pub struct Pool<'a> {
    pub contents: &'a [Bytes],
    pub eol: EolMode,
    /// Number of content uses that had to be sanitized (stored CRLF excluded).
    pub sanitized: std::cell::Cell<u32>,
}

impl<'a> Pool<'a> {
    pub fn new(contents: &'a [Bytes], eol: EolMode) -> Self {
        Self {
            contents,
            eol,
            sanitized: std::cell::Cell::new(0),
        }
    }

    pub fn get(&self, raw: u16) -> Bytes {
        if self.contents.is_empty() {
            return Bytes(vec![]);
        }
        let c = &self.contents[pick(raw, self.contents.len())];
        let (bytes, changed) = sanitize_for_eol(&c.0, self.eol);
        if changed {
            self.sanitized.set(self.sanitized.get() + 1);
        }
        Bytes(bytes)
    }
}

pub fn apply_edit(t: &mut ModelTree, e: &Edit, pool: &Pool) {
    match e {
        Edit::PutFile { path, content, exec } => tree::put(
            t,
            PATHS[pick(*path, PATHS.len())],
            Entry::File {
                content: pool.get(*content),
                exec: *exec,
            },
        ),
        Edit::PutLink { path, target } => tree::put(
            t,
            PATHS[pick(*path, PATHS.len())],
            Entry::Symlink(LINK_TARGETS[pick(*target, LINK_TARGETS.len())].to_string()),
        ),
        Edit::Delete(p) => tree::apply_edit(t, &tree::TreeEdit::Delete(*p)),
        Edit::Chmod(p) => tree::apply_edit(t, &tree::TreeEdit::Chmod(*p)),
        Edit::Move { from, to } => {
            if t.is_empty() {
                return;
            }
            let keys: Vec<String> = t.keys().cloned().collect();
            let k = &keys[pick(*from, keys.len())];
            let entry = t.remove(k).unwrap();
            tree::put(t, PATHS[pick(*to, PATHS.len())], entry);
        }
    }
}

pub fn apply_edits(base: &ModelTree, edits: &[Edit], pool: &Pool) -> ModelTree {
    let mut t = base.clone();
    for e in edits {
        apply_edit(&mut t, e, pool);
    }
    t
}

/// Paths of the alphabet that have other alphabet paths below them.
pub fn focus_paths() -> Vec<&'static str> {
    PATHS
        .iter()
        .copied()
        .filter(|p| PATHS.iter().any(|q| is_below(q, p)))
        .collect()
}

/// `path` lies strictly below directory `dir`.
pub fn is_below(path: &str, dir: &str) -> bool {
    path.len() > dir.len() && path.starts_with(dir) && path.as_bytes()[dir.len()] == b'/'
}

fn apply_focus(t: &mut ModelTree, focus: &str, fe: &FocusEdit, pool: &Pool) {
    match fe {
        FocusEdit::Nothing => {}
        FocusEdit::Content(c) => {
            // Keep the exec bit of an existing file so that only content differs.
            let exec = matches!(t.get(focus), Some(Entry::File { exec: true, .. }));
            tree::put(
                t,
                focus,
                Entry::File {
                    content: pool.get(*c),
                    exec,
                },
            );
        }
        FocusEdit::ContentExec(c) => tree::put(
            t,
            focus,
            Entry::File {
                content: pool.get(*c),
                exec: true,
            },
        ),
        FocusEdit::Link(target) => tree::put(
            t,
            focus,
            Entry::Symlink(LINK_TARGETS[pick(*target, LINK_TARGETS.len())].to_string()),
        ),
        FocusEdit::Delete => tree::delete(t, focus),
        FocusEdit::DirBelow { child, content } => {
            let below: Vec<&str> = PATHS.iter().copied().filter(|q| is_below(q, focus)).collect();
            if below.is_empty() {
                return;
            }
            tree::put(
                t,
                below[pick(*child, below.len())],
                Entry::File {
                    content: pool.get(*content),
                    exec: false,
                },
            );
        }
    }
}

// ---------------------------------------------------------------------------
// Tree specs (generated) and recipes (rebuildable in any store)
// ---------------------------------------------------------------------------

pub const LABELS: &[&str] = &[
    "left",
    "base",
    "right",
    "side #1",
    "rebased: abc123 (desc)",
    "x",
    "ü label",
];

#[derive(Debug, Clone, Serialize, Deserialize)]
pub enum TreeSpec {
    /// Resolved tree: edits of the anchor model tree.
    Edit(Vec<Edit>),
    /// Resolved tree built from the empty tree.
    Reset(Vec<Edit>),
    /// `MergedTree::merge` of 3/5/7 variants of the anchor. Variant 0 is the
    /// anchor itself; `terms` index into the variants (duplicates give redundant,
    /// cancelling terms); every variant edits the shared focus path first.
    Merge {
        focus: u16,
        variants: Vec<(FocusEdit, Vec<Edit>)>,
        terms: Vec<u16>,
        labels: Vec<u16>,
    },
    /// Same tree ids as the previous tree with other conflict labels.
    Relabel(Vec<u16>),
}

pub fn tree_spec() -> impl Strategy<Value = TreeSpec> {
    let merge = (
        any::<u16>(),
        prop::collection::vec((focus_edit(), prop::collection::vec(edit(), 0..=2)), 3..=4),
        (1usize..=3).prop_flat_map(|k| prop::collection::vec(any::<u16>(), 2 * k + 1)),
        prop::collection::vec(any::<u16>(), 7),
    )
        .prop_map(|(focus, variants, terms, labels)| TreeSpec::Merge {
            focus,
            variants,
            terms,
            labels,
        });
    prop_oneof![
        5 => prop::collection::vec(edit(), 1..=4).prop_map(TreeSpec::Edit),
        1 => prop::collection::vec(edit(), 0..=5).prop_map(TreeSpec::Reset),
        6 => merge,
        2 => prop::collection::vec(any::<u16>(), 7).prop_map(TreeSpec::Relabel),
    ]
}

#[derive(Debug, Clone, PartialEq, Eq)]
pub enum Recipe {
    Resolved(ModelTree),
    Merged {
        terms: Vec<ModelTree>,
        labels: Vec<String>,
    },
    Relabeled {
        inner: Box<Recipe>,
        labels: Vec<String>,
    },
}

impl Recipe {
    pub fn build(&self, store: &Arc<Store>) -> Result<MergedTree, String> {
        match self {
            Self::Resolved(t) => Ok(tree::write_tree(store, t)),
            Self::Merged { terms, labels } => {
                let pairs: Vec<(MergedTree, String)> = terms
                    .iter()
                    .zip(labels)
                    .map(|(t, l)| (tree::write_tree(store, t), l.clone()))
                    .collect();
                MergedTree::merge(Merge::from_vec(pairs))
                    .block_on()
                    .map_err(|e| format!("MergedTree::merge failed: {e}"))
            }
            Self::Relabeled { inner, labels } => {
                let t = inner.build(store)?;
                if t.tree_ids().is_resolved() {
                    return Ok(t);
                }
                let n = t.tree_ids().iter().count();
                let labels: Vec<String> = labels.iter().cycle().take(n).cloned().collect();
                Ok(MergedTree::new(
                    store.clone(),
                    t.tree_ids().clone(),
                    ConflictLabels::from_vec(labels),
                ))
            }
        }
    }

    /// Like `build`, but `Ok(None)` if one of jj's own debug assertions inside
    /// `MergedTree::merge` fired (e.g. the "re-merge is idempotent" assertion in
    /// `MergedTree::resolve`): tree merging is C07's subject; checks that only
    /// need *a* tree skip such recipes and count them.
    pub fn build_checked(&self, store: &Arc<Store>) -> Result<Option<MergedTree>, String> {
        match crate::engine::runner::catch(|| {
            self.build(store).map_err(crate::engine::runner::Violation::new)
        }) {
            Ok(t) => Ok(Some(t)),
            Err(v) if v.msg.starts_with("panic:") && v.msg.contains("merged_tree.rs") => Ok(None),
            Err(v) => Err(v.msg),
        }
    }

    pub fn is_resolved_recipe(&self) -> Option<&ModelTree> {
        match self {
            Self::Resolved(t) => Some(t),
            _ => None,
        }
    }
}

/// Interprets tree specs against an anchor model tree.
pub struct Sim<'a> {
    pub pool: Pool<'a>,
    pub anchor: ModelTree,
    pub last: Recipe,
}

impl<'a> Sim<'a> {
    pub fn new(contents: &'a [Bytes], eol: EolMode) -> Self {
        Self {
            pool: Pool::new(contents, eol),
            anchor: ModelTree::new(),
            last: Recipe::Resolved(ModelTree::new()),
        }
    }

    pub fn next(&mut self, spec: &TreeSpec) -> Recipe {
        let recipe = match spec {
            TreeSpec::Edit(edits) => {
                self.anchor = apply_edits(&self.anchor, edits, &self.pool);
                Recipe::Resolved(self.anchor.clone())
            }
            TreeSpec::Reset(edits) => {
                self.anchor = apply_edits(&ModelTree::new(), edits, &self.pool);
                Recipe::Resolved(self.anchor.clone())
            }
            TreeSpec::Merge {
                focus,
                variants,
                terms,
                labels,
            } => {
                // Any path of the alphabet: leaf-only paths give file conflicts,
                // paths with children also file/directory conflicts.
                let focus = PATHS[pick(*focus, PATHS.len())];
                let mut models = vec![self.anchor.clone()];
                for (fe, edits) in variants {
                    let mut t = self.anchor.clone();
                    apply_focus(&mut t, focus, fe, &self.pool);
                    for e in edits {
                        apply_edit(&mut t, e, &self.pool);
                    }
                    models.push(t);
                }
                // Odd number of terms by construction of the generator; enforce it
                // anyway for hand-written replay files.
                let n = models.len();
                // The k-th add is normally the k-th edited variant (rotated, so the
                // adds are distinct when there are enough variants); a quarter of the
                // terms is drawn freely so that every combination can occur.
                let remove_choices: Vec<usize> = [0, 0, 0].into_iter().chain(0..n).collect();
                let m = (n - 1).max(1);
                let rot = terms.first().map_or(0, |t| pick(*t, m));
                let mut idx: Vec<usize> = terms
                    .iter()
                    .enumerate()
                    .map(|(i, t)| {
                        if i % 2 == 1 {
                            remove_choices[pick(*t, remove_choices.len())]
                        } else if *t >= 0xC000 {
                            pick(t.wrapping_mul(4), n)
                        } else {
                            (1 + (rot + i / 2) % m).min(n - 1)
                        }
                    })
                    .collect();
                if idx.len() % 2 == 0 {
                    idx.pop();
                }
                if idx.is_empty() {
                    idx.push(0);
                }
                let term_models: Vec<ModelTree> = idx.iter().map(|i| models[*i].clone()).collect();
                let label_strs: Vec<String> = (0..term_models.len())
                    .map(|i| {
                        let raw = labels.get(i).copied().unwrap_or(0);
                        LABELS[pick(raw, LABELS.len())].to_string()
                    })
                    .collect();
                self.anchor = term_models[0].clone();
                if term_models.len() == 1 {
                    Recipe::Resolved(term_models[0].clone())
                } else {
                    Recipe::Merged {
                        terms: term_models,
                        labels: label_strs,
                    }
                }
            }
            TreeSpec::Relabel(labels) => Recipe::Relabeled {
                inner: Box::new(self.last.clone()),
                labels: labels
                    .iter()
                    .map(|l| LABELS[pick(*l, LABELS.len())].to_string())
                    .collect(),
            },
        };
        self.last = recipe.clone();
        recipe
    }
}

// ---------------------------------------------------------------------------
// Tree entries and the expected disk
// ---------------------------------------------------------------------------

/// Leaf entries of a merged tree (a file/directory conflict is one leaf).
pub fn entries_map(t: &MergedTree) -> Result<BTreeMap<String, MergedTreeValue>, String> {
    let mut out = BTreeMap::new();
    for (path, value) in t.entries() {
        let value = value.map_err(|e| format!("reading tree entry {path:?}: {e}"))?;
        out.insert(path.as_internal_file_string().to_string(), value);
    }
    Ok(out)
}

#[derive(Debug, Clone, PartialEq, Eq)]
pub enum Expect {
    File { content: Vec<u8>, exec: bool },
    Symlink(String),
    /// A conflicted path: a regular file is expected. `file_conflict`: all terms
    /// are files or absent (materialized with markers); `text`: no term has a NUL.
    Conflict {
        file_conflict: bool,
        sides: usize,
        text: bool,
    },
}

/// What the working copy must contain for `t`, path by path, from the tree's own
/// entries (store reads; the checkout code is not involved).
pub fn expected_disk(t: &MergedTree, eol: EolMode) -> Result<BTreeMap<String, Expect>, String> {
    let store = t.store().clone();
    let mut out = BTreeMap::new();
    for (path, value) in t.entries() {
        let value = value.map_err(|e| format!("reading tree entry {path:?}: {e}"))?;
        let key = path.as_internal_file_string().to_string();
        if let Some(resolved) = value.as_resolved() {
            match tree::read_value(&store, &path, resolved)? {
                Some(Entry::File { content, exec }) => {
                    out.insert(
                        key,
                        Expect::File {
                            content: disk_bytes(&content.0, eol),
                            exec,
                        },
                    );
                }
                Some(Entry::Symlink(target)) => {
                    out.insert(key, Expect::Symlink(target));
                }
                None => {}
            }
        } else {
            let file_conflict = value.to_file_merge().is_some();
            let mut text = true;
            if file_conflict {
                for term in value.iter().flatten() {
                    if let TreeValue::File { id, .. } = term {
                        let content = testutils::read_file(&store, &path, id);
                        if content.contains(&0) {
                            text = false;
                        }
                    }
                }
            }
            out.insert(
                key,
                Expect::Conflict {
                    file_conflict,
                    sides: value.num_sides(),
                    text,
                },
            );
        }
    }
    Ok(out)
}

// ---------------------------------------------------------------------------
// Disk walker (records directories; never follows symlinks)
// ---------------------------------------------------------------------------

#[derive(Debug, Clone, PartialEq, Eq, PartialOrd, Ord)]
pub enum Node {
    File { content: Vec<u8>, exec: bool },
    Symlink(String),
    Dir,
    /// Fifo, socket, ... (never created by the checks; reported if seen).
    Other,
}

impl Node {
    pub fn is_dir(&self) -> bool {
        matches!(self, Self::Dir)
    }
    pub fn brief(&self) -> String {
        match self {
            Self::File { content, exec } => {
                format!("file{}({:?})", if *exec { "+x" } else { "" }, bstr::BStr::new(content))
            }
            Self::Symlink(t) => format!("symlink({t})"),
            Self::Dir => "dir".to_string(),
            Self::Other => "special".to_string(),
        }
    }
}

pub type Disk = BTreeMap<String, Node>;

/// Walks `root` (skipping `.jj` / `.git` at any level) into path -> node, with
/// an entry for every directory as well.
pub fn walk(root: &Path) -> Disk {
    fn rec(root: &Path, dir: &Path, out: &mut Disk) {
        let Ok(rd) = std::fs::read_dir(dir) else { return };
        let mut entries: Vec<_> = rd.filter_map(|e| e.ok()).collect();
        entries.sort_by_key(|e| e.file_name());
        for e in entries {
            let name = e.file_name();
            if name == ".jj" || name == ".git" {
                continue;
            }
            let path = e.path();
            let Ok(meta) = std::fs::symlink_metadata(&path) else { continue };
            let rel = path.strip_prefix(root).unwrap().to_string_lossy().into_owned();
            let ft = meta.file_type();
            if ft.is_symlink() {
                let target = std::fs::read_link(&path)
                    .map(|t| t.to_string_lossy().into_owned())
                    .unwrap_or_default();
                out.insert(rel, Node::Symlink(target));
            } else if ft.is_dir() {
                out.insert(rel, Node::Dir);
                rec(root, &path, out);
            } else if ft.is_file() {
                use std::os::unix::fs::PermissionsExt as _;
                let exec = meta.permissions().mode() & 0o111 != 0;
                let content = std::fs::read(&path).unwrap_or_default();
                out.insert(rel, Node::File { content, exec });
            } else {
                out.insert(rel, Node::Other);
            }
        }
    }
    let mut out = Disk::new();
    rec(root, root, &mut out);
    out
}

/// Files and symlinks only.
pub fn leaves(disk: &Disk) -> Disk {
    disk.iter()
        .filter(|(_, n)| !n.is_dir())
        .map(|(k, v)| (k.clone(), v.clone()))
        .collect()
}

/// True if the directory node at `dir` has anything below it.
pub fn has_children(disk: &Disk, dir: &str) -> bool {
    disk.keys().any(|k| is_below(k, dir))
}

/// Proper ancestors of a path, outermost first.
pub fn ancestors(path: &str) -> Vec<&str> {
    let mut out = vec![];
    for (i, b) in path.bytes().enumerate() {
        if b == b'/' {
            out.push(&path[..i]);
        }
    }
    out
}
