//! Small working-copy helpers shared by the `wc` checks C26 / C28 / C29:
//! forced modification times, snapshots through an arbitrary `Workspace`,
//! reading a file back out of a snapshot tree, settings with extra config.

use std::path::Path;
use std::time::Duration;
use std::time::SystemTime;

use jj_lib::backend::TreeValue;
use jj_lib::config::ConfigLayer;
use jj_lib::config::ConfigSource;
use jj_lib::merged_tree::MergedTree;
use jj_lib::op_store::OperationId;
use jj_lib::repo_path::RepoPath;
use jj_lib::settings::UserSettings;
use jj_lib::working_copy::SnapshotOptions;
use jj_lib::working_copy::SnapshotStats;
use jj_lib::workspace::Workspace;
use pollster::FutureExt as _;

/// Nanoseconds since the epoch (may be negative) -> `SystemTime`.
pub fn system_time_from_ns(ns: i128) -> SystemTime {
    if ns >= 0 {
        let ns = ns as u128;
        SystemTime::UNIX_EPOCH + Duration::new((ns / 1_000_000_000) as u64, (ns % 1_000_000_000) as u32)
    } else {
        let ns = (-ns) as u128;
        SystemTime::UNIX_EPOCH - Duration::new((ns / 1_000_000_000) as u64, (ns % 1_000_000_000) as u32)
    }
}

/// `SystemTime` -> nanoseconds since the epoch.
pub fn ns_from_system_time(t: SystemTime) -> i128 {
    match t.duration_since(SystemTime::UNIX_EPOCH) {
        Ok(d) => d.as_nanos() as i128,
        Err(e) => -(e.duration().as_nanos() as i128),
    }
}

/// Forces the modification time of an existing file (futimens on an open
/// handle; the access time is left alone).
pub fn set_mtime_ns(path: &Path, ns: i128) -> Result<(), String> {
    let file = std::fs::OpenOptions::new()
        .write(true)
        .open(path)
        .map_err(|e| format!("harness: open {} for utimens: {e}", path.display()))?;
    file.set_modified(system_time_from_ns(ns))
        .map_err(|e| format!("harness: set mtime of {}: {e}", path.display()))?;
    drop(file);
    let back = mtime_ns(path)?;
    if back != ns {
        return Err(format!(
            "harness: file system did not keep the forced mtime of {} (wanted {ns} ns, got {back} ns)",
            path.display()
        ));
    }
    Ok(())
}

pub fn mtime_ns(path: &Path) -> Result<i128, String> {
    let md = path
        .symlink_metadata()
        .map_err(|e| format!("harness: stat {}: {e}", path.display()))?;
    let t = md.modified().map_err(|e| format!("harness: mtime {}: {e}", path.display()))?;
    Ok(ns_from_system_time(t))
}

/// Overwrites (or creates) a file and then forces its modification time.
pub fn write_file_with_mtime(path: &Path, content: &[u8], ns: i128) -> Result<(), String> {
    if let Some(parent) = path.parent() {
        std::fs::create_dir_all(parent).map_err(|e| format!("harness: mkdir {}: {e}", parent.display()))?;
    }
    std::fs::write(path, content).map_err(|e| format!("harness: write {}: {e}", path.display()))?;
    set_mtime_ns(path, ns)
}

/// The millisecond value jj derives from a file time (`system_time_to_millis`
/// truncates toward zero; for the non-triviality classification only).
pub fn jj_millis(ns: i128) -> i128 {
    ns / 1_000_000
}

/// Snapshot through `start_working_copy_mutation` + `finish`, as a command would.
pub fn snapshot_workspace(
    ws: &mut Workspace,
    op_id: OperationId,
    options: &SnapshotOptions<'_>,
) -> Result<(MergedTree, SnapshotStats), String> {
    let mut locked = ws
        .start_working_copy_mutation()
        .block_on()
        .map_err(|e| format!("start_working_copy_mutation: {e}"))?;
    let (tree, stats) = locked
        .locked_wc()
        .snapshot(options)
        .block_on()
        .map_err(|e| format!("snapshot failed: {e:?}"))?;
    locked.finish(op_id).block_on().map_err(|e| format!("finish: {e}"))?;
    Ok((tree, stats))
}

/// Content of the resolved regular file at `path` in `tree`; `Ok(None)` if the
/// path is absent; `Err` for anything else (conflict, symlink, ...).
pub fn read_tree_file(tree: &MergedTree, path: &RepoPath) -> Result<Option<Vec<u8>>, String> {
    let value = tree
        .path_value(path)
        .block_on()
        .map_err(|e| format!("path_value({path:?}): {e}"))?;
    match value.as_resolved() {
        Some(None) => Ok(None),
        Some(Some(TreeValue::File { id, .. })) => {
            let mut reader = tree
                .store()
                .read_file(path, id)
                .block_on()
                .map_err(|e| format!("read_file({path:?}): {e}"))?;
            let mut content = vec![];
            use futures::AsyncReadExt as _;
            reader
                .read_to_end(&mut content)
                .block_on()
                .map_err(|e| format!("read_file({path:?}): {e}"))?;
            Ok(Some(content))
        }
        other => Err(format!("{path:?} is not a resolved regular file: {other:?}")),
    }
}

/// Test user settings plus extra TOML.
pub fn settings_with(extra_toml: &str) -> UserSettings {
    let mut config = testutils::base_user_config();
    config.add_layer(ConfigLayer::parse(ConfigSource::User, extra_toml).expect("extra settings parse"));
    UserSettings::from_config(config).expect("settings")
}
