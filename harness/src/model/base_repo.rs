//! One pristine, empty test repo per worker thread.
//!
//! `TestRepo::init()` and committing a transaction both write (and fsync)
//! operation, view and index files; a check that builds a model DAG per case
//! does not need either. `with_base_repo` hands out the thread's empty repo;
//! the caller starts a transaction on it, writes its commits with
//! `model::dag::write_nodes` and uses `tx.repo()` as the `&dyn Repo` — the
//! transaction is dropped uncommitted, so every case starts from the same
//! empty repo and stays a pure function of the case.

use std::cell::RefCell;
use std::sync::Arc;

use jj_lib::repo::ReadonlyRepo;
use testutils::TestRepo;

thread_local! {
    static BASE: RefCell<Option<TestRepo>> = const { RefCell::new(None) };
}

pub fn with_base_repo<T>(f: impl FnOnce(&Arc<ReadonlyRepo>) -> T) -> T {
    let repo = BASE.with(|b| {
        let mut b = b.borrow_mut();
        b.get_or_insert_with(TestRepo::init).repo.clone()
    });
    f(&repo)
}
