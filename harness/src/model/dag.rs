//! DAG model (DESIGN §4): commits `0..=n` (0 = root), every node has earlier
//! parents. Ancestry, heads, common ancestors and generations are computed by
//! BFS over parent pointers — never by jj's index.

use std::collections::BTreeSet;
use std::sync::Arc;

use jj_lib::backend::ChangeId;
use jj_lib::backend::MillisSinceEpoch;
use jj_lib::backend::Signature;
use jj_lib::backend::Timestamp;
use jj_lib::commit::Commit;
use jj_lib::merged_tree::MergedTree;
use jj_lib::repo::MutableRepo;
use jj_lib::repo::Repo as _;
use pollster::FutureExt as _;
use proptest::prelude::*;
use serde::Deserialize;
use serde::Serialize;

use crate::engine::runner::pick;

/// Generated description of a DAG: node `i` (1-based) draws its parents from
/// nodes `0..i` through monotone index mapping of the raw numbers.
#[derive(Debug, Clone, Serialize, Deserialize)]
pub struct DagSpec {
    pub nodes: Vec<NodeSpec>,
}

#[derive(Debug, Clone, Serialize, Deserialize)]
pub struct NodeSpec {
    /// Raw parent selectors (1..=max_parents of them).
    pub parents: Vec<u16>,
    /// Raw selector used by properties that want shared change ids etc.
    pub aux: u16,
}

/// `max_parents` ≥ 1. `linear_bias`: probability (percent) that a node takes the
/// immediately preceding node as its first parent (gives long chains).
pub fn dag_spec(
    size: impl Strategy<Value = usize>,
    max_parents: usize,
    linear_bias: u32,
) -> impl Strategy<Value = DagSpec> {
    let node = (
        prop::bool::weighted(f64::from(linear_bias) / 100.0),
        prop_oneof![
            70 => prop::collection::vec(any::<u16>(), 1),
            25 => prop::collection::vec(any::<u16>(), 2.min(max_parents)),
            5 => prop::collection::vec(any::<u16>(), 1..=max_parents),
        ],
        any::<u16>(),
    )
        .prop_map(|(linear, mut parents, aux)| {
            if linear {
                parents[0] = u16::MAX;
            }
            NodeSpec { parents, aux }
        });
    size.prop_flat_map(move |n| prop::collection::vec(node.clone(), n))
        .prop_map(|nodes| DagSpec { nodes })
}

/// Concrete DAG. Index 0 is the root commit.
#[derive(Debug, Clone)]
pub struct Dag {
    pub parents: Vec<Vec<usize>>,
}

impl Dag {
    pub fn from_spec(spec: &DagSpec) -> Self {
        let mut parents: Vec<Vec<usize>> = vec![vec![]];
        for (k, node) in spec.nodes.iter().enumerate() {
            let i = k + 1;
            let mut ps: Vec<usize> = vec![];
            for raw in &node.parents {
                let p = pick(*raw, i);
                if !ps.contains(&p) {
                    ps.push(p);
                }
            }
            // The root may only be a sole parent (the git backend requires it,
            // and jj's own commands never create such merges).
            if ps.len() > 1 {
                ps.retain(|p| *p != 0);
            }
            // A parent that is an ancestor of another parent is legal in jj, keep it.
            parents.push(ps);
        }
        Self { parents }
    }

    pub fn len(&self) -> usize {
        self.parents.len()
    }

    pub fn children(&self) -> Vec<Vec<usize>> {
        let mut ch = vec![vec![]; self.len()];
        for (i, ps) in self.parents.iter().enumerate() {
            for p in ps {
                ch[*p].push(i);
            }
        }
        ch
    }

    /// Ancestors of `set`, inclusive.
    pub fn ancestors(&self, set: impl IntoIterator<Item = usize>) -> BTreeSet<usize> {
        let mut seen = BTreeSet::new();
        let mut stack: Vec<usize> = set.into_iter().collect();
        while let Some(i) = stack.pop() {
            if seen.insert(i) {
                stack.extend(self.parents[i].iter().copied());
            }
        }
        seen
    }

    /// Descendants of `set`, inclusive.
    pub fn descendants(&self, set: impl IntoIterator<Item = usize>) -> BTreeSet<usize> {
        let ch = self.children();
        let mut seen = BTreeSet::new();
        let mut stack: Vec<usize> = set.into_iter().collect();
        while let Some(i) = stack.pop() {
            if seen.insert(i) {
                stack.extend(ch[i].iter().copied());
            }
        }
        seen
    }

    /// `a` is an ancestor of (or equal to) `b`.
    pub fn is_ancestor(&self, a: usize, b: usize) -> bool {
        self.ancestors([b]).contains(&a)
    }

    /// Members of `set` that are not proper ancestors of another member.
    pub fn heads(&self, set: &BTreeSet<usize>) -> BTreeSet<usize> {
        set.iter()
            .copied()
            .filter(|&i| {
                !set.iter()
                    .any(|&j| j != i && self.ancestors([j]).contains(&i))
            })
            .collect()
    }

    /// Members of `set` that have no proper ancestor in `set`.
    pub fn roots(&self, set: &BTreeSet<usize>) -> BTreeSet<usize> {
        set.iter()
            .copied()
            .filter(|&i| {
                let anc = self.ancestors([i]);
                !set.iter().any(|&j| j != i && anc.contains(&j))
            })
            .collect()
    }

    /// Maximal common ancestors of the two sets (ancestors of some member of `a`
    /// that are also ancestors of some member of `b`, heads thereof).
    pub fn common_ancestors(&self, a: &BTreeSet<usize>, b: &BTreeSet<usize>) -> BTreeSet<usize> {
        let aa = self.ancestors(a.iter().copied());
        let bb = self.ancestors(b.iter().copied());
        let common: BTreeSet<usize> = aa.intersection(&bb).copied().collect();
        self.heads(&common)
    }

    /// Longest-path depth from the root (root = 0).
    pub fn generation(&self, i: usize) -> u32 {
        let mut generation = vec![0u32; self.len()];
        for j in 1..=i {
            generation[j] = self.parents[j]
                .iter()
                .map(|p| generation[*p] + 1)
                .max()
                .unwrap_or(0);
        }
        generation[i]
    }
}

pub fn signature(ts_millis: i64) -> Signature {
    Signature {
        name: "Test User".to_string(),
        email: "test.user@example.com".to_string(),
        timestamp: Timestamp {
            timestamp: MillisSinceEpoch(ts_millis),
            tz_offset: 0,
        },
    }
}

/// A change id derived from a number (16 bytes, like jj's own).
pub fn change_id(n: u64) -> ChangeId {
    let mut bytes = [0u8; 16];
    bytes[..8].copy_from_slice(&n.wrapping_mul(0x9E3779B97F4A7C15).to_be_bytes());
    bytes[8..].copy_from_slice(&n.to_be_bytes());
    ChangeId::new(bytes.to_vec())
}

pub const BASE_TS: i64 = 1_600_000_000_000;

/// Options for writing a model DAG into a repo.
pub struct BuildOpts<'a> {
    /// Tree for node `i` (1-based index into the DAG); default: parent-merged
    /// tree (i.e. an empty commit).
    pub tree_of: Option<&'a dyn Fn(usize) -> MergedTree>,
    /// Change-id number for node `i`; default `i` (unique).
    pub change_of: Option<&'a dyn Fn(usize) -> u64>,
    /// Description for node `i`; default `c<i>`.
    pub desc_of: Option<&'a dyn Fn(usize) -> String>,
    /// Millisecond committer timestamp for node `i`; default strictly increasing.
    pub ts_of: Option<&'a dyn Fn(usize) -> i64>,
}

impl Default for BuildOpts<'_> {
    fn default() -> Self {
        Self {
            tree_of: None,
            change_of: None,
            desc_of: None,
            ts_of: None,
        }
    }
}

/// Writes nodes `from..dag.len()` into `mut_repo`; `commits` must already hold
/// the commits for nodes `0..from` (index 0 = root commit). Appends to `commits`.
pub fn write_nodes(
    mut_repo: &mut MutableRepo,
    dag: &Dag,
    range: std::ops::Range<usize>,
    commits: &mut Vec<Commit>,
    opts: &BuildOpts<'_>,
) {
    if commits.is_empty() {
        commits.push(mut_repo.store().root_commit());
    }
    for i in range {
        assert_eq!(commits.len(), i);
        let parent_ids: Vec<_> = dag.parents[i]
            .iter()
            .map(|p| commits[*p].id().clone())
            .collect();
        let tree: MergedTree = match opts.tree_of {
            Some(f) => f(i),
            None => {
                let parents: Vec<Commit> =
                    dag.parents[i].iter().map(|p| commits[*p].clone()).collect();
                jj_lib::rewrite::merge_commit_trees(mut_repo, &parents)
                    .block_on()
                    .expect("merge parent trees")
            }
        };
        let ts = opts.ts_of.map_or(BASE_TS + 1000 * i as i64, |f| f(i));
        let sig = signature(ts);
        let change = change_id(opts.change_of.map_or(i as u64, |f| f(i)));
        let desc = opts.desc_of.map_or(format!("c{i}"), |f| f(i));
        let commit = mut_repo
            .new_commit(parent_ids, tree)
            .set_change_id(change)
            .set_description(desc)
            .set_author(sig.clone())
            .set_committer(sig)
            .write()
            .block_on()
            .expect("write commit");
        commits.push(commit);
    }
}

/// Convenience: write the whole DAG in one transaction and commit it.
pub fn build_repo(
    repo: &Arc<jj_lib::repo::ReadonlyRepo>,
    dag: &Dag,
    opts: &BuildOpts<'_>,
) -> (Arc<jj_lib::repo::ReadonlyRepo>, Vec<Commit>) {
    let mut tx = repo.start_transaction();
    let mut commits = vec![];
    write_nodes(tx.repo_mut(), dag, 1..dag.len(), &mut commits, opts);
    let repo = tx.commit("build dag").block_on().expect("commit tx");
    (repo, commits)
}

/// Index of a commit id in `commits`, if any.
pub fn index_of(commits: &[Commit], id: &jj_lib::backend::CommitId) -> Option<usize> {
    commits.iter().position(|c| c.id() == id)
}
