//! A commit backend whose commit ids are chosen by the caller (C20; also used by
//! C18 because it needs no thread hand-off per object).
//!
//! Stand-alone in-memory copy of `testutils::TestBackend` without the tokio
//! runtime: objects live in maps behind one mutex. The commit id is taken from the
//! commit description: a description of the form `id:<40 hex digits>` gets exactly
//! that 20-byte id, anything else gets the blake2 hash of the content (first 20
//! bytes, like the test backend). This lets a generator build sets of commit ids
//! sharing prefixes of any (odd or even) hex length, which never happens with
//! hashed ids.

use std::collections::HashMap;
use std::fmt::Debug;
use std::fmt::Formatter;
use std::path::Path;
use std::path::PathBuf;
use std::pin::Pin;
use std::sync::Arc;
use std::sync::Mutex;
use std::time::SystemTime;

use async_trait::async_trait;
use futures::AsyncRead;
use futures::AsyncReadExt as _;
use futures::StreamExt as _;
use futures::io::Cursor;
use futures::stream;
use futures::stream::BoxStream;
use jj_lib::backend::Backend;
use jj_lib::backend::BackendError;
use jj_lib::backend::BackendResult;
use jj_lib::backend::ChangeId;
use jj_lib::backend::Commit;
use jj_lib::backend::CommitId;
use jj_lib::backend::CopyHistory;
use jj_lib::backend::CopyId;
use jj_lib::backend::CopyRecord;
use jj_lib::backend::FileId;
use jj_lib::backend::RelatedCopy;
use jj_lib::backend::SigningFn;
use jj_lib::backend::SymlinkId;
use jj_lib::backend::Tree;
use jj_lib::backend::TreeId;
use jj_lib::backend::make_root_commit;
use jj_lib::index::Index;
use jj_lib::object_id::ObjectId as _;
use jj_lib::repo::ReadonlyRepo;
use jj_lib::repo::RepoLoader;
use jj_lib::repo::StoreFactories;
use jj_lib::repo_path::RepoPath;
use jj_lib::repo_path::RepoPathBuf;
use jj_lib::settings::UserSettings;
use jj_lib::signing::Signer;
use pollster::FutureExt as _;

pub const COMMIT_ID_LENGTH: usize = 20;
pub const CHANGE_ID_LENGTH: usize = 16;
const HASH_LENGTH: usize = 10;
pub const BACKEND_NAME: &str = "verif-prefix";

/// Description that makes `PrefixBackend::write_commit` use `id` as the commit id.
pub fn description_for_id(id: &[u8; COMMIT_ID_LENGTH]) -> String {
    format!("id:{}", CommitId::from_bytes(id).hex())
}

fn get_hash(content: &(impl jj_lib::content_hash::ContentHash + ?Sized), len: usize) -> Vec<u8> {
    jj_lib::content_hash::blake2b_hash(content).as_slice()[..len].to_vec()
}

#[derive(Default)]
struct Objects {
    commits: HashMap<CommitId, Commit>,
    trees: HashMap<(RepoPathBuf, TreeId), Tree>,
    files: HashMap<(RepoPathBuf, FileId), Vec<u8>>,
    symlinks: HashMap<(RepoPathBuf, SymlinkId), String>,
    copies: HashMap<CopyId, CopyHistory>,
}

/// Shared state of one store (the backend object is re-created by every loader).
#[derive(Default)]
pub struct PrefixBackendData {
    objects: Mutex<Objects>,
}

pub struct PrefixBackend {
    data: Arc<PrefixBackendData>,
    root_commit_id: CommitId,
    root_change_id: ChangeId,
    empty_tree_id: TreeId,
}

impl PrefixBackend {
    pub fn new(data: Arc<PrefixBackendData>) -> Self {
        Self {
            data,
            root_commit_id: CommitId::from_bytes(&[0; COMMIT_ID_LENGTH]),
            root_change_id: ChangeId::from_bytes(&[0; CHANGE_ID_LENGTH]),
            empty_tree_id: TreeId::new(get_hash(&Tree::default(), HASH_LENGTH)),
        }
    }
}

impl Debug for PrefixBackend {
    fn fmt(&self, f: &mut Formatter<'_>) -> Result<(), std::fmt::Error> {
        f.debug_struct("PrefixBackend").finish_non_exhaustive()
    }
}

fn id_from_description(description: &str) -> Option<CommitId> {
    let hex = description.strip_prefix("id:")?;
    let id = CommitId::try_from_hex(hex)?;
    (id.as_bytes().len() == COMMIT_ID_LENGTH).then_some(id)
}

fn not_found(object_type: &str, hash: String, path: Option<&RepoPath>) -> BackendError {
    BackendError::ObjectNotFound {
        object_type: object_type.to_string(),
        hash,
        source: path.map(|p| format!("at path {p:?}")).unwrap_or_default().into(),
    }
}

#[async_trait]
impl Backend for PrefixBackend {
    fn name(&self) -> &str {
        BACKEND_NAME
    }

    fn commit_id_length(&self) -> usize {
        COMMIT_ID_LENGTH
    }

    fn change_id_length(&self) -> usize {
        CHANGE_ID_LENGTH
    }

    fn root_commit_id(&self) -> &CommitId {
        &self.root_commit_id
    }

    fn root_change_id(&self) -> &ChangeId {
        &self.root_change_id
    }

    fn empty_tree_id(&self) -> &TreeId {
        &self.empty_tree_id
    }

    fn concurrency(&self) -> usize {
        1
    }

    async fn read_file(
        &self,
        path: &RepoPath,
        id: &FileId,
    ) -> BackendResult<Pin<Box<dyn AsyncRead + Send>>> {
        let objects = self.data.objects.lock().unwrap();
        match objects.files.get(&(path.to_owned(), id.clone())) {
            Some(contents) => Ok(Box::pin(Cursor::new(contents.clone()))),
            None => Err(not_found("file", id.hex(), Some(path))),
        }
    }

    async fn write_file(
        &self,
        path: &RepoPath,
        contents: &mut (dyn AsyncRead + Send + Unpin),
    ) -> BackendResult<FileId> {
        let mut bytes = Vec::new();
        contents
            .read_to_end(&mut bytes)
            .await
            .map_err(|e| BackendError::Other(e.into()))?;
        let id = FileId::new(get_hash(&bytes, HASH_LENGTH));
        let mut objects = self.data.objects.lock().unwrap();
        objects.files.insert((path.to_owned(), id.clone()), bytes);
        Ok(id)
    }

    async fn read_symlink(&self, path: &RepoPath, id: &SymlinkId) -> BackendResult<String> {
        let objects = self.data.objects.lock().unwrap();
        objects
            .symlinks
            .get(&(path.to_owned(), id.clone()))
            .cloned()
            .ok_or_else(|| not_found("symlink", id.hex(), Some(path)))
    }

    async fn write_symlink(&self, path: &RepoPath, target: &str) -> BackendResult<SymlinkId> {
        let id = SymlinkId::new(get_hash(target.as_bytes(), HASH_LENGTH));
        let mut objects = self.data.objects.lock().unwrap();
        objects
            .symlinks
            .insert((path.to_owned(), id.clone()), target.to_owned());
        Ok(id)
    }

    async fn read_copy(&self, id: &CopyId) -> BackendResult<CopyHistory> {
        let objects = self.data.objects.lock().unwrap();
        objects
            .copies
            .get(id)
            .cloned()
            .ok_or_else(|| not_found("copy", id.hex(), None))
    }

    async fn write_copy(&self, copy: &CopyHistory) -> BackendResult<CopyId> {
        let id = CopyId::new(get_hash(copy, HASH_LENGTH));
        let mut objects = self.data.objects.lock().unwrap();
        objects.copies.insert(id.clone(), copy.clone());
        Ok(id)
    }

    async fn get_related_copies(&self, _copy_id: &CopyId) -> BackendResult<Vec<RelatedCopy>> {
        Err(BackendError::Unsupported(
            "PrefixBackend does not track related copies".to_string(),
        ))
    }

    async fn read_tree(&self, path: &RepoPath, id: &TreeId) -> BackendResult<Tree> {
        if id == &self.empty_tree_id {
            return Ok(Tree::default());
        }
        let objects = self.data.objects.lock().unwrap();
        objects
            .trees
            .get(&(path.to_owned(), id.clone()))
            .cloned()
            .ok_or_else(|| not_found("tree", id.hex(), Some(path)))
    }

    async fn write_tree(&self, path: &RepoPath, contents: &Tree) -> BackendResult<TreeId> {
        let id = TreeId::new(get_hash(contents, HASH_LENGTH));
        let mut objects = self.data.objects.lock().unwrap();
        objects
            .trees
            .insert((path.to_owned(), id.clone()), contents.clone());
        Ok(id)
    }

    async fn read_commit(&self, id: &CommitId) -> BackendResult<Commit> {
        if id == &self.root_commit_id {
            return Ok(make_root_commit(
                self.root_change_id.clone(),
                self.empty_tree_id.clone(),
            ));
        }
        let objects = self.data.objects.lock().unwrap();
        objects
            .commits
            .get(id)
            .cloned()
            .ok_or_else(|| not_found("commit", id.hex(), None))
    }

    async fn write_commit(
        &self,
        contents: Commit,
        sign_with: Option<&mut SigningFn>,
    ) -> BackendResult<(CommitId, Commit)> {
        assert!(sign_with.is_none(), "signing is not supported by PrefixBackend");
        assert!(contents.secure_sig.is_none(), "commit.secure_sig was set");
        let id = id_from_description(&contents.description)
            .unwrap_or_else(|| CommitId::new(get_hash(&contents, COMMIT_ID_LENGTH)));
        assert_ne!(id, self.root_commit_id, "the root commit id is reserved");
        let mut objects = self.data.objects.lock().unwrap();
        if let Some(existing) = objects.commits.get(&id) {
            assert_eq!(
                existing, &contents,
                "two different commits were given the same chosen id {id:?}"
            );
        }
        objects.commits.insert(id.clone(), contents.clone());
        Ok((id, contents))
    }

    fn get_copy_records(
        &self,
        _paths: Option<&[RepoPathBuf]>,
        _root: &CommitId,
        _head: &CommitId,
    ) -> BackendResult<BoxStream<'_, BackendResult<CopyRecord>>> {
        Ok(stream::empty().boxed())
    }

    fn gc(&self, _index: &dyn Index, _keep_newer: SystemTime) -> BackendResult<()> {
        Ok(())
    }
}

/// A repo on disk (op store, op heads, default index store) over a
/// `PrefixBackend`, created the way `testutils::TestRepo` creates its repos.
pub struct PrefixRepo {
    _dir: tempfile::TempDir,
    repo_path: PathBuf,
    data: Arc<PrefixBackendData>,
    pub repo: Arc<ReadonlyRepo>,
}

impl PrefixRepo {
    pub fn init(settings: &UserSettings) -> Self {
        let dir = crate::engine::runner::new_scratch_dir("prefix-repo-");
        let repo_path = dir.path().join("repo");
        std::fs::create_dir(&repo_path).unwrap();
        let data = Arc::new(PrefixBackendData::default());
        let repo = ReadonlyRepo::init(
            settings,
            &repo_path,
            &|_settings, _store_path| Ok(Box::new(PrefixBackend::new(data.clone()))),
            Signer::from_settings(settings).unwrap(),
            ReadonlyRepo::default_op_store_initializer(),
            ReadonlyRepo::default_op_heads_store_initializer(),
            ReadonlyRepo::default_index_store_initializer(),
            ReadonlyRepo::default_submodule_store_initializer(),
        )
        .block_on()
        .unwrap();
        Self {
            _dir: dir,
            repo_path,
            data,
            repo,
        }
    }

    pub fn repo_path(&self) -> &Path {
        &self.repo_path
    }

    pub fn store_factories(&self) -> StoreFactories {
        let mut factories = jj_lib::default_backend_factories::default_backend_factories();
        let data = self.data.clone();
        factories.add_backend(
            BACKEND_NAME,
            Box::new(move |_settings, _store_path| Ok(Box::new(PrefixBackend::new(data.clone())))),
        );
        factories
    }

    /// Loads the repo at head with a fresh loader (everything re-read from disk,
    /// commits from the shared in-memory table).
    pub fn load_at_head(&self, settings: &UserSettings) -> Arc<ReadonlyRepo> {
        RepoLoader::init_from_file_system(settings, &self.repo_path, &self.store_factories())
            .unwrap()
            .load_at_head()
            .block_on()
            .unwrap()
    }
}
