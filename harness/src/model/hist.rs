//! Helpers for history-shaped (stateful) checks over a `TestRepo`: pinned
//! clocks, ancestry by BFS over the commit objects in the store (never the
//! index), small trees, fresh loads from disk.

use std::collections::BTreeSet;
use std::sync::Arc;

use jj_lib::backend::CommitId;
use jj_lib::backend::CopyId;
use jj_lib::backend::TreeValue;
use jj_lib::commit::Commit;
use jj_lib::config::ConfigLayer;
use jj_lib::config::ConfigSource;
use jj_lib::merge::Merge;
use jj_lib::merged_tree::MergedTree;
use jj_lib::merged_tree_builder::MergedTreeBuilder;
use jj_lib::repo::ReadonlyRepo;
use jj_lib::repo::RepoLoader;
use jj_lib::settings::UserSettings;
use jj_lib::store::Store;
use pollster::FutureExt as _;
use testutils::TestRepo;

use crate::engine::runner::Violation;

fn rfc3339(ts_millis: i64) -> String {
    chrono::DateTime::<chrono::Utc>::from_timestamp_millis(ts_millis)
        .expect("timestamp in range")
        .to_rfc3339_opts(chrono::SecondsFormat::Millis, true)
}

/// Test user settings with the commit clock, the operation clock and the
/// change-id RNG pinned (nothing in a check may depend on the wall clock).
pub fn pinned_settings(ts_millis: i64, seed: u64) -> UserSettings {
    let mut config = testutils::base_user_config();
    let text = format!(
        "debug.commit-timestamp = \"{ts}\"\ndebug.operation-timestamp = \"{ts}\"\ndebug.randomness-seed = {seed}\n",
        ts = rfc3339(ts_millis),
    );
    config.add_layer(ConfigLayer::parse(ConfigSource::CommandArg, &text).expect("config"));
    UserSettings::from_config(config).expect("settings")
}

/// Same settings object family (RNG state retained, so no change id is ever
/// generated twice) with the clocks moved to `ts_millis`.
pub fn reclocked(base: &UserSettings, ts_millis: i64) -> UserSettings {
    let mut config = testutils::base_user_config();
    let text = format!(
        "debug.commit-timestamp = \"{ts}\"\ndebug.operation-timestamp = \"{ts}\"\n",
        ts = rfc3339(ts_millis),
    );
    config.add_layer(ConfigLayer::parse(ConfigSource::CommandArg, &text).expect("config"));
    base.with_new_config(config).expect("settings")
}

/// A loader over the same stores as `repo` but with other settings (this is
/// what a new `jj` process at a later wall-clock time is).
pub fn loader_with(repo: &ReadonlyRepo, settings: UserSettings) -> RepoLoader {
    let l = repo.loader();
    RepoLoader::new(
        settings,
        l.store().clone(),
        l.op_store().clone(),
        l.op_heads_store().clone(),
        l.index_store().clone(),
        l.submodule_store().clone(),
    )
}

/// `repo` at the same operation, seen through a loader with `settings`.
pub fn repo_with(
    repo: &Arc<ReadonlyRepo>,
    settings: UserSettings,
) -> Result<Arc<ReadonlyRepo>, Violation> {
    loader_with(repo, settings)
        .load_at(repo.operation())
        .block_on()
        .map_err(|e| Violation::new(format!("load_at failed: {e}")))
}

/// Loads the repo from disk through a brand-new loader (new store objects,
/// operation heads resolved again).
pub fn fresh_load_at_head(
    test_repo: &TestRepo,
    settings: &UserSettings,
) -> Result<Arc<ReadonlyRepo>, Violation> {
    RepoLoader::init_from_file_system(
        settings,
        test_repo.repo_path(),
        &test_repo.env.default_backend_factories(),
    )
    .map_err(|e| Violation::new(format!("fresh loader failed: {e}")))?
    .load_at_head()
    .block_on()
    .map_err(|e| Violation::new(format!("fresh load_at_head failed: {e}")))
}

pub fn get_commit(store: &Arc<Store>, id: &CommitId) -> Result<Commit, Violation> {
    store
        .get_commit_async(id)
        .block_on()
        .map_err(|e| Violation::new(format!("commit {id} not readable from the store: {e}")))
}

/// Ancestors (inclusive) of `ids` by BFS over the parent pointers of the commit
/// objects in the store.
pub fn store_ancestors<'a>(
    store: &Arc<Store>,
    ids: impl IntoIterator<Item = &'a CommitId>,
) -> Result<BTreeSet<CommitId>, Violation> {
    store_ancestors_until(store, ids, |_| false)
}

/// Like `store_ancestors`, but the parents of a commit for which `stop` holds
/// are not followed (the commit itself is included).
pub fn store_ancestors_until<'a>(
    store: &Arc<Store>,
    ids: impl IntoIterator<Item = &'a CommitId>,
    stop: impl Fn(&CommitId) -> bool,
) -> Result<BTreeSet<CommitId>, Violation> {
    let mut seen = BTreeSet::new();
    let mut stack: Vec<CommitId> = ids.into_iter().cloned().collect();
    while let Some(id) = stack.pop() {
        if !seen.insert(id.clone()) {
            continue;
        }
        if stop(&id) {
            continue;
        }
        let commit = get_commit(store, &id)?;
        stack.extend(commit.parent_ids().iter().cloned());
    }
    Ok(seen)
}

/// Proper ancestors of one commit.
pub fn store_proper_ancestors(
    store: &Arc<Store>,
    id: &CommitId,
) -> Result<BTreeSet<CommitId>, Violation> {
    let commit = get_commit(store, id)?;
    store_ancestors(store, commit.parent_ids())
}

/// `base` plus one regular file.
pub fn tree_with_file(
    store: &Arc<Store>,
    base: MergedTree,
    name: &str,
    content: &str,
) -> MergedTree {
    let path = crate::model::tree::repo_path(name);
    let id = store
        .write_file(&path, &mut content.as_bytes())
        .block_on()
        .expect("write file");
    let mut builder = MergedTreeBuilder::new(base);
    builder.set_or_remove(
        path,
        Merge::normal(TreeValue::File {
            id,
            executable: false,
            copy_id: CopyId::placeholder(),
        }),
    );
    builder.write_tree().block_on().expect("write tree")
}

/// Parent pointers of the commit objects read so far (each commit is read
/// from the store once). Ancestry questions are answered by BFS over this map,
/// never by jj's index.
#[derive(Default)]
pub struct CommitGraph {
    parents: std::collections::BTreeMap<CommitId, Vec<CommitId>>,
}

impl CommitGraph {
    pub fn add(&mut self, commit: &Commit) {
        self.parents
            .entry(commit.id().clone())
            .or_insert_with(|| commit.parent_ids().to_vec());
    }

    pub fn contains(&self, id: &CommitId) -> bool {
        self.parents.contains_key(id)
    }

    pub fn parents(&self, id: &CommitId) -> &[CommitId] {
        self.parents.get(id).map_or(&[], |v| v.as_slice())
    }

    /// Reads `ids` and all their ancestors that are not in the map yet. Returns
    /// the commits that were new.
    pub fn ensure<'a>(
        &mut self,
        store: &Arc<Store>,
        ids: impl IntoIterator<Item = &'a CommitId>,
    ) -> Result<Vec<Commit>, Violation> {
        let mut new = vec![];
        let mut stack: Vec<CommitId> = ids.into_iter().cloned().collect();
        while let Some(id) = stack.pop() {
            if self.parents.contains_key(&id) {
                continue;
            }
            let commit = get_commit(store, &id)?;
            stack.extend(commit.parent_ids().iter().cloned());
            self.add(&commit);
            new.push(commit);
        }
        Ok(new)
    }

    /// Ancestors (inclusive) of `ids`; the parents of a commit for which `stop`
    /// holds are not followed. All commits involved must have been `ensure`d.
    pub fn ancestors_until<'a>(
        &self,
        ids: impl IntoIterator<Item = &'a CommitId>,
        stop: impl Fn(&CommitId) -> bool,
    ) -> BTreeSet<CommitId> {
        let mut seen = BTreeSet::new();
        let mut stack: Vec<&CommitId> = ids.into_iter().collect();
        while let Some(id) = stack.pop() {
            if !seen.insert(id.clone()) || stop(id) {
                continue;
            }
            stack.extend(self.parents.get(id).expect("commit ensured").iter());
        }
        seen
    }

    pub fn ancestors<'a>(&self, ids: impl IntoIterator<Item = &'a CommitId>) -> BTreeSet<CommitId> {
        self.ancestors_until(ids, |_| false)
    }

    pub fn proper_ancestors(&self, id: &CommitId) -> BTreeSet<CommitId> {
        self.ancestors(self.parents.get(id).expect("commit ensured").iter())
    }
}
