//! Reference revset evaluator over the DAG model (DESIGN §5 C19, reused by C39).
//!
//! * [`WorldSpec`] / [`World`]: a model DAG written into a `TestRepo`, followed by
//!   up to two "hide" transactions (abandon + `rebase_descendants`), so that the
//!   index holds hidden commits and (optionally) rewritten copies. The model is
//!   extended with the rewritten commits by reading parents from the *store*
//!   (never from the index); the visible heads of every state are read from the
//!   view (they are an *input* of revset evaluation).
//! * [`Expr`]: serialisable expression tree + proptest strategy.
//! * [`World::eval`]: set-theoretic semantics following `docs/revsets.md` and the
//!   doc comments of the `RevsetExpression` constructors.
//! * [`World::build`]: the same expression through the `RevsetExpression` API.
//!
//! Visibility rule (docs "Hidden revisions", `RevsetExpression::all()` doc
//! comment, `WithinVisibility` doc comment): within a scope (the whole expression
//! or the body of a `within_visibility`), `all()` = ancestors of the scope's
//! visible heads plus ancestors of every commit explicitly referenced in the
//! scope (commits of nested scopes and the visible heads of nested scopes count
//! as referenced by the enclosing scope); `x::`, `x+`, `~x`, `forks()`,
//! `merge_point()` and filters search inside that `all()`; `visible_heads()` is
//! the scope's heads only.

use std::collections::BTreeMap;
use std::collections::BTreeSet;
use std::collections::HashMap;
use std::cell::RefCell;
use std::ops::Range;
use std::rc::Rc;
use std::sync::Arc;

use jj_lib::backend::CommitId;
use jj_lib::commit::Commit;
use jj_lib::config::ConfigLayer;
use jj_lib::config::ConfigSource;
use jj_lib::object_id::ObjectId as _;
use jj_lib::repo::ReadonlyRepo;
use jj_lib::repo::Repo as _;
use jj_lib::revset::ResolvedRevsetExpression;
use jj_lib::revset::RevsetExpression;
use jj_lib::revset::RevsetFilterPredicate;
use jj_lib::settings::UserSettings;
use jj_lib::str_util::StringExpression;
use pollster::FutureExt as _;
use proptest::prelude::*;
use serde::Deserialize;
use serde::Serialize;
use testutils::TestRepo;

use crate::engine::runner::pick;
use crate::model::dag::BASE_TS;
use crate::model::dag::BuildOpts;
use crate::model::dag::Dag;
use crate::model::dag::DagSpec;
use crate::model::dag::NodeSpec;
use crate::model::dag::write_nodes;

// ---------------------------------------------------------------------------
// World
// ---------------------------------------------------------------------------

#[derive(Debug, Clone, Serialize, Deserialize)]
pub struct HideStep {
    /// Raw selectors into the currently visible non-root commits.
    pub picks: Vec<u16>,
    /// true: abandon the picks *and all their descendants* (nothing is
    /// rewritten, commits just become hidden). false: abandon only the picks and
    /// let `rebase_descendants` rewrite the descendants (new commits appear, the
    /// old descendants become hidden).
    pub closed: bool,
}

#[derive(Debug, Clone, Serialize, Deserialize)]
pub struct WorldSpec {
    pub dag: DagSpec,
    /// Number of extra children of the root written before the DAG (moves the
    /// interesting index positions across the 64-bit word boundary of jj's
    /// position bit sets).
    pub padding: u8,
    pub hides: Vec<HideStep>,
    /// Committer timestamps collide in groups of three (otherwise unique).
    pub ts_ties: bool,
}

/// DAG description without `prop_flat_map` (every shrink step is structural, so
/// a failing case keeps failing while it gets smaller; world building is the
/// expensive part of a case).
fn flat_dag_spec(max_nodes: usize) -> impl Strategy<Value = DagSpec> {
    let node = (
        prop::bool::weighted(0.45),
        prop_oneof![
            70 => prop::collection::vec(any::<u16>(), 1),
            25 => prop::collection::vec(any::<u16>(), 2),
            5 => prop::collection::vec(any::<u16>(), 1..=4),
        ],
        any::<u16>(),
    )
        .prop_map(|(linear, mut parents, aux)| {
            if linear {
                parents[0] = u16::MAX;
            }
            NodeSpec { parents, aux }
        });
    prop_oneof![
        2 => prop::collection::vec(node.clone(), 1..=6),
        5 => prop::collection::vec(node.clone(), 5..=20),
        3 => prop::collection::vec(node, 15..=max_nodes.max(15)),
    ]
    .prop_map(|nodes| DagSpec { nodes })
}

pub fn world_spec(max_nodes: usize, max_padding: u8) -> impl Strategy<Value = WorldSpec> {
    let dag = flat_dag_spec(max_nodes);
    let padding = prop_oneof![
        6 => Just(0u8),
        2 => 0u8..=max_padding.min(8),
        2 => max_padding.saturating_sub(16)..=max_padding,
    ];
    let hide = (
        prop::collection::vec(any::<u16>(), 1..=3),
        prop::bool::weighted(0.5),
    )
        .prop_map(|(picks, closed)| HideStep { picks, closed });
    let hides = prop_oneof![
        2 => Just(vec![]),
        5 => prop::collection::vec(hide.clone(), 1),
        3 => prop::collection::vec(hide, 2),
    ];
    (dag, padding, hides, prop::bool::weighted(0.12)).prop_map(|(dag, padding, hides, ts_ties)| {
        WorldSpec {
            dag,
            padding,
            hides,
            ts_ties,
        }
    })
}

pub struct ViewState {
    pub repo: Arc<ReadonlyRepo>,
    /// Visible heads (model indices), as stored in the view.
    pub heads: BTreeSet<usize>,
}

pub struct World {
    _test_repo: Rc<TestRepo>,
    /// Model DAG: index 0 root, then padding, then the generated nodes, then
    /// commits created by `rebase_descendants` (in creation-compatible order).
    pub dag: Dag,
    pub commits: Vec<Commit>,
    pub ids: HashMap<CommitId, usize>,
    pub ts: Vec<i64>,
    pub desc: Vec<String>,
    /// Number of commits written by the harness itself (root + padding + DAG).
    pub n_written: usize,
    /// states[0]: everything visible; last: the state expressions are evaluated in.
    pub states: Vec<ViewState>,
    /// Inclusive ancestor sets, children lists (model).
    pub anc: Vec<BTreeSet<usize>>,
    pub children: Vec<Vec<usize>>,
}

pub const DESC_TAGS: usize = 4;

pub fn desc_tag(k: usize) -> String {
    format!("x{k}y")
}

fn stable_settings() -> UserSettings {
    let mut config = testutils::base_user_config();
    let mut layer = ConfigLayer::empty(ConfigSource::User);
    // Fixed committer timestamp for commits rewritten by jj itself (older than
    // every harness-written commit; all rewritten commits tie).
    layer
        .set_value("debug.commit-timestamp", "2001-02-03T04:05:06+07:00")
        .expect("set commit timestamp");
    config.add_layer(layer);
    UserSettings::from_config(config).expect("settings")
}

impl World {
    pub fn len(&self) -> usize {
        self.dag.len()
    }

    pub fn repo(&self) -> &Arc<ReadonlyRepo> {
        &self.states.last().expect("at least one state").repo
    }

    pub fn final_heads(&self) -> &BTreeSet<usize> {
        &self.states.last().expect("at least one state").heads
    }

    pub fn id(&self, i: usize) -> CommitId {
        self.commits[i].id().clone()
    }

    pub fn index_of(&self, id: &CommitId) -> Option<usize> {
        self.ids.get(id).copied()
    }

    pub fn ancestors_of(&self, set: &BTreeSet<usize>) -> BTreeSet<usize> {
        let mut out = BTreeSet::new();
        for i in set {
            out.extend(self.anc[*i].iter().copied());
        }
        out
    }

    pub fn is_hidden_in_final(&self, i: usize) -> bool {
        !self.final_heads().iter().any(|h| self.anc[*h].contains(&i))
    }

    /// `build` memoised per thread on the serialised spec (the world is immutable
    /// once built; building costs a repo on disk, which dominates a case). Keeps
    /// the last world only: shrinking usually varies the expressions first.
    pub fn build_cached(spec: &WorldSpec) -> Rc<Self> {
        thread_local! {
            static CACHE: RefCell<Option<(String, Rc<World>)>> = const { RefCell::new(None) };
        }
        let key = serde_json::to_string(spec).expect("serialise world spec");
        CACHE.with(|cache| {
            let mut cache = cache.borrow_mut();
            if let Some((k, w)) = cache.as_ref()
                && *k == key
            {
                return w.clone();
            }
            // drop the old repo directory before creating the next one
            *cache = None;
            let world = Rc::new(Self::build(spec));
            *cache = Some((key, world.clone()));
            world
        })
    }

    pub fn build(spec: &WorldSpec) -> Self {
        // One repo directory per worker thread: every world is a transaction on
        // top of the *initial* operation of that repo (a fork in the operation
        // log), so its index holds the root commit and this world's commits only.
        // Creating a fresh repo per world costs more than everything else here.
        thread_local! {
            static TEST_REPO: Rc<TestRepo> =
                Rc::new(TestRepo::init_with_settings(&stable_settings()));
        }
        let test_repo: Rc<TestRepo> = TEST_REPO.with(|r| r.clone());
        let repo0 = test_repo.repo.clone();

        // Model DAG with padding: node i>0 of the generated DAG moves to i+padding.
        let base = Dag::from_spec(&spec.dag);
        let padding = spec.padding as usize;
        let shift = |i: usize| if i == 0 { 0 } else { i + padding };
        let mut parents: Vec<Vec<usize>> = vec![vec![]];
        for _ in 0..padding {
            parents.push(vec![0]);
        }
        for i in 1..base.len() {
            parents.push(base.parents[i].iter().map(|p| shift(*p)).collect());
        }
        let mut dag = Dag { parents };
        let n_written = dag.len();

        let ts_ties = spec.ts_ties;
        let ts_of = move |i: usize| {
            if ts_ties {
                BASE_TS + 1000 * (i as i64 / 3)
            } else {
                BASE_TS + 1000 * i as i64
            }
        };
        let aux: Vec<u16> = (0..n_written)
            .map(|i| {
                if i > padding {
                    spec.dag.nodes[i - padding - 1].aux
                } else {
                    (i as u16).wrapping_mul(20011)
                }
            })
            .collect();
        let desc_of = |i: usize| format!("c{i} {}\n", desc_tag(pick(aux[i], DESC_TAGS)));
        let opts = BuildOpts {
            ts_of: Some(&ts_of),
            desc_of: Some(&desc_of),
            ..BuildOpts::default()
        };
        let mut tx = repo0.start_transaction();
        let mut commits: Vec<Commit> = vec![];
        write_nodes(tx.repo_mut(), &dag, 1..dag.len(), &mut commits, &opts);
        if commits.is_empty() {
            commits.push(repo0.store().root_commit());
        }
        let repo = tx.commit("write dag").block_on().expect("commit tx");

        let mut ids: HashMap<CommitId, usize> = HashMap::new();
        for (i, c) in commits.iter().enumerate() {
            ids.insert(c.id().clone(), i);
        }
        let read_heads = |repo: &Arc<ReadonlyRepo>, ids: &HashMap<CommitId, usize>| {
            repo.view()
                .heads()
                .iter()
                .map(|id| *ids.get(id).expect("view head is a known commit"))
                .collect::<BTreeSet<usize>>()
        };
        let mut states = vec![ViewState {
            heads: read_heads(&repo, &ids),
            repo: repo.clone(),
        }];

        for step in &spec.hides {
            let cur = states.last().unwrap();
            let visible: Vec<usize> = dag
                .ancestors(cur.heads.iter().copied())
                .into_iter()
                .filter(|i| *i != 0)
                .collect();
            if visible.is_empty() {
                continue;
            }
            let mut targets: BTreeSet<usize> = step
                .picks
                .iter()
                .map(|raw| visible[pick(*raw, visible.len())])
                .collect();
            if step.closed {
                let visible_set: BTreeSet<usize> = visible.iter().copied().collect();
                targets = dag
                    .descendants(targets.iter().copied())
                    .intersection(&visible_set)
                    .copied()
                    .collect();
            }
            let mut tx = cur.repo.start_transaction();
            for t in &targets {
                tx.repo_mut().record_abandoned_commit(&commits[*t]);
            }
            tx.repo_mut()
                .rebase_descendants()
                .block_on()
                .expect("rebase descendants");
            let repo = tx.commit("hide").block_on().expect("commit tx");
            // Discover commits created by the rebase: walk the store from the new
            // heads until known commits are reached.
            let mut new_commits: BTreeMap<String, Commit> = BTreeMap::new();
            let mut stack: Vec<CommitId> = repo.view().heads().iter().cloned().collect();
            while let Some(id) = stack.pop() {
                if ids.contains_key(&id) || new_commits.contains_key(&id.hex()) {
                    continue;
                }
                let commit = repo.store().get_commit(&id).expect("read commit from store");
                stack.extend(commit.parent_ids().iter().cloned());
                new_commits.insert(id.hex(), commit);
            }
            // Append in an order where parents come first (ties by id hex).
            while !new_commits.is_empty() {
                let ready: Vec<String> = new_commits
                    .iter()
                    .filter(|(_, c)| c.parent_ids().iter().all(|p| ids.contains_key(p)))
                    .map(|(k, _)| k.clone())
                    .collect();
                assert!(!ready.is_empty(), "cycle among rewritten commits");
                for key in ready {
                    let c = new_commits.remove(&key).unwrap();
                    let ps: Vec<usize> = c.parent_ids().iter().map(|p| ids[p]).collect();
                    dag.parents.push(ps);
                    ids.insert(c.id().clone(), commits.len());
                    commits.push(c);
                }
            }
            states.push(ViewState {
                heads: read_heads(&repo, &ids),
                repo,
            });
        }

        let ts: Vec<i64> = commits
            .iter()
            .map(|c| c.committer().timestamp.timestamp.0)
            .collect();
        let desc: Vec<String> = commits.iter().map(|c| c.description().to_string()).collect();
        let anc: Vec<BTreeSet<usize>> = {
            // parents always have smaller model indices
            let mut anc: Vec<BTreeSet<usize>> = Vec::with_capacity(dag.len());
            for i in 0..dag.len() {
                let mut s = BTreeSet::from([i]);
                for p in &dag.parents[i] {
                    assert!(*p < i);
                    s.extend(anc[*p].iter().copied());
                }
                anc.push(s);
            }
            anc
        };
        let children = dag.children();
        Self {
            _test_repo: test_repo,
            dag,
            commits,
            ids,
            ts,
            desc,
            n_written,
            states,
            anc,
            children,
        }
    }
}

// ---------------------------------------------------------------------------
// Expressions
// ---------------------------------------------------------------------------

/// Generation range `start .. start+len` (`len = None`: unbounded).
#[derive(Debug, Clone, Copy, PartialEq, Eq, Serialize, Deserialize)]
pub struct Gen {
    pub start: u8,
    pub len: Option<u8>,
}

impl Gen {
    pub const FULL: Gen = Gen {
        start: 0,
        len: None,
    };
    pub fn range(self) -> Range<u64> {
        let start = u64::from(self.start);
        match self.len {
            None => start..u64::MAX,
            Some(l) => start..start + u64::from(l),
        }
    }
    pub fn is_full(self) -> bool {
        self == Self::FULL
    }
}

/// Visibility of a `within_visibility` scope.
#[derive(Debug, Clone, Serialize, Deserialize)]
pub enum Vis {
    /// The view of state `k` of the world (through `within_visibility(&repo)`).
    State(u16),
    /// `heads(of the picked commits)` (root if none) given directly as the
    /// `visible_heads` of the public `WithinVisibility` variant.
    Heads(Vec<u16>),
}

#[derive(Debug, Clone, Serialize, Deserialize)]
pub enum Expr {
    None,
    All,
    Root,
    VisibleHeads,
    Forks,
    Commits(Vec<u16>),
    FilterDesc(u8),
    FilterMerges,
    Ancestors(Box<Expr>, Gen),
    FirstAncestors(Box<Expr>, Gen),
    Descendants(Box<Expr>, Gen),
    Range(Box<Expr>, Box<Expr>),
    DagRange(Box<Expr>, Box<Expr>),
    Connected(Box<Expr>),
    Reachable(Box<Expr>, Box<Expr>),
    Heads(Box<Expr>),
    Roots(Box<Expr>),
    ForkPoint(Box<Expr>),
    MergePoint(Box<Expr>),
    Latest(Box<Expr>, u8),
    /// `has_size(x, |x| + delta)` (count clamped at 0); delta 0 never errors.
    HasSize(Box<Expr>, i8),
    Coalesce(Vec<Expr>),
    WithinVisibility(Vis, Box<Expr>),
    Present(Box<Expr>),
    Negated(Box<Expr>),
    Union(Box<Expr>, Box<Expr>),
    Intersection(Box<Expr>, Box<Expr>),
    Minus(Box<Expr>, Box<Expr>),
}

impl Expr {
    pub fn children(&self) -> Vec<&Expr> {
        match self {
            Expr::None
            | Expr::All
            | Expr::Root
            | Expr::VisibleHeads
            | Expr::Forks
            | Expr::Commits(_)
            | Expr::FilterDesc(_)
            | Expr::FilterMerges => vec![],
            Expr::Ancestors(x, _)
            | Expr::FirstAncestors(x, _)
            | Expr::Descendants(x, _)
            | Expr::Connected(x)
            | Expr::Heads(x)
            | Expr::Roots(x)
            | Expr::ForkPoint(x)
            | Expr::MergePoint(x)
            | Expr::Latest(x, _)
            | Expr::HasSize(x, _)
            | Expr::WithinVisibility(_, x)
            | Expr::Present(x)
            | Expr::Negated(x) => vec![x],
            Expr::Range(a, b)
            | Expr::DagRange(a, b)
            | Expr::Reachable(a, b)
            | Expr::Union(a, b)
            | Expr::Intersection(a, b)
            | Expr::Minus(a, b) => vec![a, b],
            Expr::Coalesce(xs) => xs.iter().collect(),
        }
    }

    pub fn depth(&self) -> usize {
        1 + self.children().iter().map(|c| c.depth()).max().unwrap_or(0)
    }

    pub fn any(&self, f: &dyn Fn(&Expr) -> bool) -> bool {
        f(self) || self.children().iter().any(|c| c.any(f))
    }
}

pub fn gen_range() -> impl Strategy<Value = Gen> {
    prop_oneof![
        30 => Just(Gen::FULL),
        25 => Just(Gen { start: 1, len: Some(1) }),
        12 => (0u8..=4).prop_map(|start| Gen { start, len: Some(1) }),
        20 => (0u8..=3, 0u8..=4).prop_map(|(start, len)| Gen { start, len: Some(len) }),
        10 => (0u8..=3).prop_map(|start| Gen { start, len: None }),
        3 => (0u8..=40, 0u8..=40).prop_map(|(start, len)| Gen { start, len: Some(len) }),
    ]
}

pub fn leaf_expr() -> impl Strategy<Value = Expr> {
    prop_oneof![
        52 => prop::collection::vec(any::<u16>(), 1..=3).prop_map(Expr::Commits),
        5 => prop::collection::vec(any::<u16>(), 0..=7).prop_map(Expr::Commits),
        3 => Just(Expr::None),
        9 => Just(Expr::All),
        3 => Just(Expr::Root),
        9 => Just(Expr::VisibleHeads),
        4 => Just(Expr::Forks),
        7 => (0u8..DESC_TAGS as u8).prop_map(Expr::FilterDesc),
        5 => Just(Expr::FilterMerges),
    ]
}

/// Expression trees of depth ≤ `depth + 1`.
pub fn expr_strategy(depth: u32) -> impl Strategy<Value = Expr> {
    leaf_expr().prop_recursive(depth, 32, 3, |inner| {
        let b = |s: BoxedStrategy<Expr>| s.prop_map(Box::new);
        let x = inner.clone().boxed();
        let vis = prop_oneof![
            1 => any::<u16>().prop_map(Vis::State),
            2 => prop::collection::vec(any::<u16>(), 0..=3).prop_map(Vis::Heads),
        ];
        prop_oneof![
            8 => (b(x.clone()), gen_range()).prop_map(|(x, g)| Expr::Ancestors(x, g)),
            5 => (b(x.clone()), gen_range()).prop_map(|(x, g)| Expr::FirstAncestors(x, g)),
            8 => (b(x.clone()), gen_range()).prop_map(|(x, g)| Expr::Descendants(x, g)),
            5 => (b(x.clone()), b(x.clone())).prop_map(|(a, c)| Expr::Range(a, c)),
            4 => (b(x.clone()), b(x.clone())).prop_map(|(a, c)| Expr::DagRange(a, c)),
            3 => b(x.clone()).prop_map(Expr::Connected),
            4 => (b(x.clone()), b(x.clone())).prop_map(|(a, c)| Expr::Reachable(a, c)),
            5 => b(x.clone()).prop_map(Expr::Heads),
            4 => b(x.clone()).prop_map(Expr::Roots),
            4 => b(x.clone()).prop_map(Expr::ForkPoint),
            4 => b(x.clone()).prop_map(Expr::MergePoint),
            4 => (b(x.clone()), 0u8..=4).prop_map(|(x, n)| Expr::Latest(x, n)),
            3 => (b(x.clone()), prop_oneof![9 => Just(0i8), 1 => -2i8..=2])
                .prop_map(|(x, d)| Expr::HasSize(x, d)),
            3 => prop::collection::vec(x.clone(), 1..=3).prop_map(Expr::Coalesce),
            5 => (vis, b(x.clone())).prop_map(|(v, x)| Expr::WithinVisibility(v, x)),
            1 => b(x.clone()).prop_map(Expr::Present),
            6 => b(x.clone()).prop_map(Expr::Negated),
            7 => (b(x.clone()), b(x.clone())).prop_map(|(a, c)| Expr::Union(a, c)),
            7 => (b(x.clone()), b(x.clone())).prop_map(|(a, c)| Expr::Intersection(a, c)),
            7 => (b(x.clone()), b(x)).prop_map(|(a, c)| Expr::Minus(a, c)),
        ]
    })
}

// ---------------------------------------------------------------------------
// Reference semantics
// ---------------------------------------------------------------------------

#[derive(Debug, Clone)]
pub struct Scope {
    pub heads: BTreeSet<usize>,
    pub referenced: BTreeSet<usize>,
    /// `all()` of the scope.
    pub all: BTreeSet<usize>,
}

/// Why the reference does not yield one definite set.
#[derive(Debug, Clone, Copy, PartialEq, Eq)]
pub enum RefError {
    /// Some `has_size` node (strictly evaluated) does not match its count.
    SizeMismatch,
}

#[derive(Debug, Default, Clone)]
pub struct EvalFlags {
    /// A `latest(n)` cut fell inside a group of equal committer timestamps: the
    /// reference result is only one of several valid ones.
    pub ambiguous: bool,
}

type SetResult = Result<BTreeSet<usize>, RefError>;

pub fn has_size_count(actual: usize, delta: i8) -> usize {
    (actual as i64 + i64::from(delta)).max(0) as usize
}

impl World {
    pub fn pick_commits(&self, raws: &[u16]) -> BTreeSet<usize> {
        raws.iter().map(|r| pick(*r, self.len())).collect()
    }

    pub fn vis_heads(&self, vis: &Vis) -> BTreeSet<usize> {
        match vis {
            Vis::State(raw) => self.states[pick(*raw, self.states.len())].heads.clone(),
            Vis::Heads(raws) => {
                let set = self.pick_commits(raws);
                let set: BTreeSet<usize> = set.into_iter().filter(|i| *i != 0).collect();
                if set.is_empty() {
                    BTreeSet::from([0])
                } else {
                    self.model_heads(&set)
                }
            }
        }
    }

    pub fn model_heads(&self, set: &BTreeSet<usize>) -> BTreeSet<usize> {
        set.iter()
            .copied()
            .filter(|i| !set.iter().any(|j| j != i && self.anc[*j].contains(i)))
            .collect()
    }

    pub fn model_roots(&self, set: &BTreeSet<usize>) -> BTreeSet<usize> {
        set.iter()
            .copied()
            .filter(|i| !set.iter().any(|j| j != i && self.anc[*i].contains(j)))
            .collect()
    }

    fn collect_referenced(&self, e: &Expr, out: &mut BTreeSet<usize>) {
        match e {
            Expr::Commits(raws) => out.extend(self.pick_commits(raws)),
            Expr::WithinVisibility(vis, inner) => {
                out.extend(self.vis_heads(vis));
                self.collect_referenced(inner, out);
            }
            _ => {
                for c in e.children() {
                    self.collect_referenced(c, out);
                }
            }
        }
    }

    pub fn scope_for(&self, heads: BTreeSet<usize>, body: &Expr) -> Scope {
        let mut referenced = BTreeSet::new();
        self.collect_referenced(body, &mut referenced);
        let mut all = self.ancestors_of(&heads);
        all.extend(self.ancestors_of(&referenced));
        Scope {
            heads,
            referenced,
            all,
        }
    }

    pub fn top_scope(&self, e: &Expr) -> Scope {
        self.scope_for(self.final_heads().clone(), e)
    }

    /// Commits at distance `d ∈ range` from `start` along `step` edges (any path).
    fn levels(
        &self,
        start: &BTreeSet<usize>,
        range: Range<u64>,
        step: &dyn Fn(usize) -> Vec<usize>,
    ) -> BTreeSet<usize> {
        let mut out = BTreeSet::new();
        let mut level = start.clone();
        let mut d: u64 = 0;
        while d < range.end && !level.is_empty() {
            if d >= range.start {
                out.extend(level.iter().copied());
            }
            level = level.iter().flat_map(|i| step(*i)).collect();
            d += 1;
        }
        out
    }

    fn descendants_of(&self, set: &BTreeSet<usize>) -> BTreeSet<usize> {
        (0..self.len())
            .filter(|c| set.iter().any(|r| self.anc[*c].contains(r)))
            .collect()
    }

    pub fn eval_in(&self, e: &Expr, scope: &Scope, flags: &mut EvalFlags) -> SetResult {
        let inter = |a: &BTreeSet<usize>, b: &BTreeSet<usize>| -> BTreeSet<usize> {
            a.intersection(b).copied().collect()
        };
        let minus = |a: &BTreeSet<usize>, b: &BTreeSet<usize>| -> BTreeSet<usize> {
            a.difference(b).copied().collect()
        };
        Ok(match e {
            Expr::None => BTreeSet::new(),
            Expr::All => scope.all.clone(),
            Expr::Root => BTreeSet::from([0]),
            Expr::VisibleHeads => scope.heads.clone(),
            Expr::Forks => scope
                .all
                .iter()
                .copied()
                .filter(|c| {
                    self.children[*c]
                        .iter()
                        .filter(|ch| scope.all.contains(ch))
                        .count()
                        >= 2
                })
                .collect(),
            Expr::Commits(raws) => self.pick_commits(raws),
            Expr::FilterDesc(k) => {
                let tag = desc_tag(*k as usize);
                scope
                    .all
                    .iter()
                    .copied()
                    .filter(|c| self.desc[*c].contains(&tag))
                    .collect()
            }
            Expr::FilterMerges => scope
                .all
                .iter()
                .copied()
                .filter(|c| self.dag.parents[*c].len() >= 2)
                .collect(),
            Expr::Ancestors(x, g) => {
                let x = self.eval_in(x, scope, flags)?;
                self.levels(&x, g.range(), &|i| self.dag.parents[i].clone())
            }
            Expr::FirstAncestors(x, g) => {
                let x = self.eval_in(x, scope, flags)?;
                self.levels(&x, g.range(), &|i| {
                    self.dag.parents[i].first().copied().into_iter().collect()
                })
            }
            Expr::Descendants(x, g) => {
                let x = self.eval_in(x, scope, flags)?;
                let d = self.levels(&x, g.range(), &|i| self.children[i].clone());
                inter(&d, &scope.all)
            }
            Expr::Range(roots, heads) => {
                let r = self.eval_in(roots, scope, flags)?;
                let h = self.eval_in(heads, scope, flags)?;
                minus(&self.ancestors_of(&h), &self.ancestors_of(&r))
            }
            Expr::DagRange(roots, heads) => {
                let r = self.eval_in(roots, scope, flags)?;
                let h = self.eval_in(heads, scope, flags)?;
                inter(&self.descendants_of(&r), &self.ancestors_of(&h))
            }
            Expr::Connected(x) => {
                let x = self.eval_in(x, scope, flags)?;
                inter(&self.descendants_of(&x), &self.ancestors_of(&x))
            }
            Expr::Reachable(sources, domain) => {
                let s = self.eval_in(sources, scope, flags)?;
                let d = self.eval_in(domain, scope, flags)?;
                // flood fill inside the domain from the sources that are in it
                let mut seen: BTreeSet<usize> = inter(&s, &d);
                let mut stack: Vec<usize> = seen.iter().copied().collect();
                while let Some(i) = stack.pop() {
                    let next = self.dag.parents[i].iter().chain(self.children[i].iter());
                    for j in next {
                        if d.contains(j) && seen.insert(*j) {
                            stack.push(*j);
                        }
                    }
                }
                seen
            }
            Expr::Heads(x) => {
                let x = self.eval_in(x, scope, flags)?;
                self.model_heads(&x)
            }
            Expr::Roots(x) => {
                let x = self.eval_in(x, scope, flags)?;
                self.model_roots(&x)
            }
            Expr::ForkPoint(x) => {
                let x = self.eval_in(x, scope, flags)?;
                let mut it = x.iter();
                match it.next() {
                    None => BTreeSet::new(),
                    Some(first) => {
                        let mut common = self.anc[*first].clone();
                        for c in it {
                            common = inter(&common, &self.anc[*c]);
                        }
                        self.model_heads(&common)
                    }
                }
            }
            Expr::MergePoint(x) => {
                let x = self.eval_in(x, scope, flags)?;
                if x.is_empty() {
                    BTreeSet::new()
                } else {
                    let common: BTreeSet<usize> = scope
                        .all
                        .iter()
                        .copied()
                        .filter(|c| x.iter().all(|r| self.anc[*c].contains(r)))
                        .collect();
                    self.model_roots(&common)
                }
            }
            Expr::Latest(x, n) => {
                let x = self.eval_in(x, scope, flags)?;
                let n = *n as usize;
                let mut v: Vec<usize> = x.iter().copied().collect();
                v.sort_by_key(|i| (std::cmp::Reverse(self.ts[*i]), std::cmp::Reverse(*i)));
                if n < v.len() && n > 0 && self.ts[v[n - 1]] == self.ts[v[n]] {
                    flags.ambiguous = true;
                }
                v.truncate(n);
                v.into_iter().collect()
            }
            Expr::HasSize(x, delta) => {
                let x = self.eval_in(x, scope, flags)?;
                if has_size_count(x.len(), *delta) != x.len() {
                    return Err(RefError::SizeMismatch);
                }
                x
            }
            Expr::Coalesce(xs) => {
                // strict: every operand is evaluated (an error anywhere is an error)
                let mut result: Option<BTreeSet<usize>> = None;
                for x in xs {
                    let s = self.eval_in(x, scope, flags)?;
                    if result.is_none() && !s.is_empty() {
                        result = Some(s);
                    }
                }
                result.unwrap_or_default()
            }
            Expr::WithinVisibility(vis, inner) => {
                let inner_scope = self.scope_for(self.vis_heads(vis), inner);
                self.eval_in(inner, &inner_scope, flags)?
            }
            Expr::Present(x) => self.eval_in(x, scope, flags)?,
            Expr::Negated(x) => {
                let x = self.eval_in(x, scope, flags)?;
                minus(&scope.all, &x)
            }
            Expr::Union(a, b) => {
                let a = self.eval_in(a, scope, flags)?;
                let b = self.eval_in(b, scope, flags)?;
                a.union(&b).copied().collect()
            }
            Expr::Intersection(a, b) => {
                let a = self.eval_in(a, scope, flags)?;
                let b = self.eval_in(b, scope, flags)?;
                inter(&a, &b)
            }
            Expr::Minus(a, b) => {
                let a = self.eval_in(a, scope, flags)?;
                let b = self.eval_in(b, scope, flags)?;
                minus(&a, &b)
            }
        })
    }

    /// Reference evaluation of a whole expression in the final state.
    pub fn eval(&self, e: &Expr) -> (SetResult, EvalFlags) {
        let scope = self.top_scope(e);
        let mut flags = EvalFlags::default();
        let r = self.eval_in(e, &scope, &mut flags);
        (r, flags)
    }

    // -----------------------------------------------------------------------
    // The same expression through jj's API
    // -----------------------------------------------------------------------

    fn build_in(&self, e: &Expr, scope: &Scope) -> Arc<ResolvedRevsetExpression> {
        type R = ResolvedRevsetExpression;
        let ids = |set: &BTreeSet<usize>| -> Vec<CommitId> {
            // descending model index: callers must not rely on the order
            set.iter().rev().map(|i| self.id(*i)).collect()
        };
        match e {
            Expr::None => R::none(),
            Expr::All => R::all(),
            Expr::Root => R::root(),
            Expr::VisibleHeads => R::visible_heads(),
            Expr::Forks => R::forks(),
            Expr::Commits(raws) => {
                // keep duplicates and the generated order
                R::commits(raws.iter().map(|r| self.id(pick(*r, self.len()))).collect())
            }
            Expr::FilterDesc(k) => R::filter(RevsetFilterPredicate::Description(
                StringExpression::substring(desc_tag(*k as usize)),
            )),
            Expr::FilterMerges => R::filter(RevsetFilterPredicate::ParentCount(2..u32::MAX)),
            Expr::Ancestors(x, g) => {
                let x = self.build_in(x, scope);
                if g.is_full() {
                    x.ancestors()
                } else if *g == (Gen { start: 1, len: Some(1) }) {
                    x.parents()
                } else if g.len == Some(1) {
                    x.ancestors_at(u64::from(g.start))
                } else {
                    x.ancestors_range(g.range())
                }
            }
            Expr::FirstAncestors(x, g) => {
                let x = self.build_in(x, scope);
                if g.is_full() {
                    x.first_ancestors()
                } else if g.len == Some(1) {
                    x.first_ancestors_at(u64::from(g.start))
                } else {
                    x.first_ancestors_range(g.range())
                }
            }
            Expr::Descendants(x, g) => {
                let x = self.build_in(x, scope);
                if g.is_full() {
                    x.descendants()
                } else if *g == (Gen { start: 1, len: Some(1) }) {
                    x.children()
                } else if g.len == Some(1) {
                    x.descendants_at(u64::from(g.start))
                } else {
                    x.descendants_range(g.range())
                }
            }
            Expr::Range(a, b) => self.build_in(a, scope).range(&self.build_in(b, scope)),
            Expr::DagRange(a, b) => self
                .build_in(a, scope)
                .dag_range_to(&self.build_in(b, scope)),
            Expr::Connected(x) => self.build_in(x, scope).connected(),
            Expr::Reachable(s, d) => self.build_in(s, scope).reachable(&self.build_in(d, scope)),
            Expr::Heads(x) => self.build_in(x, scope).heads(),
            Expr::Roots(x) => self.build_in(x, scope).roots(),
            Expr::ForkPoint(x) => self.build_in(x, scope).fork_point(),
            Expr::MergePoint(x) => self.build_in(x, scope).merge_point(),
            Expr::Latest(x, n) => self.build_in(x, scope).latest(*n as usize),
            Expr::HasSize(x, delta) => {
                let mut flags = EvalFlags::default();
                let actual = self
                    .eval_in(x, scope, &mut flags)
                    .map(|s| s.len())
                    .unwrap_or(0);
                self.build_in(x, scope)
                    .has_size(has_size_count(actual, *delta))
            }
            Expr::Coalesce(xs) => {
                let xs: Vec<_> = xs.iter().map(|x| self.build_in(x, scope)).collect();
                R::coalesce(&xs)
            }
            Expr::WithinVisibility(vis, inner) => {
                let inner_scope = self.scope_for(self.vis_heads(vis), inner);
                let candidates = self.build_in(inner, &inner_scope);
                match vis {
                    Vis::State(raw) => {
                        let state = &self.states[pick(*raw, self.states.len())];
                        candidates.within_visibility(state.repo.as_ref())
                    }
                    Vis::Heads(_) => Arc::new(RevsetExpression::WithinVisibility {
                        candidates,
                        visible_heads: ids(&inner_scope.heads),
                    }),
                }
            }
            Expr::Present(x) => self.build_in(x, scope).present(),
            Expr::Negated(x) => self.build_in(x, scope).negated(),
            Expr::Union(a, b) => self.build_in(a, scope).union(&self.build_in(b, scope)),
            Expr::Intersection(a, b) => self
                .build_in(a, scope)
                .intersection(&self.build_in(b, scope)),
            Expr::Minus(a, b) => self.build_in(a, scope).minus(&self.build_in(b, scope)),
        }
    }

    pub fn build_expr(&self, e: &Expr) -> Arc<ResolvedRevsetExpression> {
        let scope = self.top_scope(e);
        self.build_in(e, &scope)
    }
}
