//! Reference model of three-way merging of ref targets (DESIGN §4 / C12),
//! written over *model indices* (`usize` = node of a model DAG, `None` =
//! absent). Reused by C13 (concurrent operations) and C34 (git import/export).
//!
//! The model is deliberately not a transcription of `merge_ref_targets`:
//! targets are compared as multisets of added / removed terms, cancellation is
//! done by counting, and the order-dependent elimination loop of the real code
//! is replaced by the *set of all normal forms reachable* with the documented
//! elimination step, so a check built on it stays sound whatever order the
//! implementation visits pairs in.

use std::collections::BTreeMap;
use std::collections::BTreeSet;

use jj_lib::backend::CommitId;
use jj_lib::merge::Merge;
use jj_lib::op_store::RefTarget;
use serde::Deserialize;
use serde::Serialize;

use crate::model::dag::Dag;

/// One term of a target: a model node, or `None` for "absent".
pub type Term = Option<usize>;

/// Ancestry oracle over model indices. `is_ancestor(a, b)` is reflexive:
/// `a` is `b` or an ancestor of `b`.
pub trait Ancestry {
    fn is_ancestor(&self, a: usize, b: usize) -> bool;
}

impl Ancestry for Dag {
    fn is_ancestor(&self, a: usize, b: usize) -> bool {
        Dag::is_ancestor(self, a, b)
    }
}

/// Precomputed reflexive-transitive ancestry (BFS over parent pointers).
#[derive(Debug, Clone)]
pub struct AncestryMatrix {
    anc: Vec<BTreeSet<usize>>,
}

impl AncestryMatrix {
    /// `parents[i]` lists the parents of node `i`; no ordering of nodes is assumed.
    pub fn from_parents(parents: &[Vec<usize>]) -> Self {
        let anc = (0..parents.len())
            .map(|i| {
                let mut seen = BTreeSet::new();
                let mut stack = vec![i];
                while let Some(j) = stack.pop() {
                    if seen.insert(j) {
                        stack.extend(parents[j].iter().copied());
                    }
                }
                seen
            })
            .collect();
        Self { anc }
    }

    pub fn from_dag(dag: &Dag) -> Self {
        Self::from_parents(&dag.parents)
    }

    pub fn ancestors(&self, i: usize) -> &BTreeSet<usize> {
        &self.anc[i]
    }
}

impl Ancestry for AncestryMatrix {
    fn is_ancestor(&self, a: usize, b: usize) -> bool {
        self.anc[b].contains(&a)
    }
}

/// A ref target as an ordered term list (odd length; even positions are adds,
/// odd positions removes), exactly like `Merge<Option<CommitId>>`.
#[derive(Debug, Clone, PartialEq, Eq, PartialOrd, Ord, Hash, Serialize, Deserialize)]
pub struct Target {
    pub terms: Vec<Term>,
}

impl Target {
    pub fn absent() -> Self {
        Self { terms: vec![None] }
    }
    pub fn normal(i: usize) -> Self {
        Self { terms: vec![Some(i)] }
    }
    pub fn resolved(t: Term) -> Self {
        Self { terms: vec![t] }
    }
    /// Panics on an even number of terms.
    pub fn from_terms(terms: Vec<Term>) -> Self {
        assert!(terms.len() % 2 == 1, "a target has an odd number of terms");
        Self { terms }
    }
    pub fn adds(&self) -> impl Iterator<Item = Term> + '_ {
        self.terms.iter().step_by(2).copied()
    }
    pub fn removes(&self) -> impl Iterator<Item = Term> + '_ {
        self.terms.iter().skip(1).step_by(2).copied()
    }
    pub fn is_conflicted(&self) -> bool {
        self.terms.len() > 1
    }
    pub fn is_absent(&self) -> bool {
        self.terms == [None]
    }
    pub fn as_resolved(&self) -> Option<Term> {
        match self.terms.as_slice() {
            [t] => Some(*t),
            _ => None,
        }
    }
    pub fn as_normal(&self) -> Option<usize> {
        self.as_resolved().flatten()
    }
    /// All nodes named anywhere in the target.
    pub fn ids(&self) -> BTreeSet<usize> {
        self.terms.iter().flatten().copied().collect()
    }
    pub fn added_ids(&self) -> BTreeSet<usize> {
        self.adds().flatten().collect()
    }
    /// Multiset view (no cancellation).
    pub fn canon(&self) -> Canon {
        Canon::new(self.adds().collect(), self.removes().collect())
    }
    /// True if no value occurs both as an add and as a remove.
    pub fn is_simplified(&self) -> bool {
        let c = self.canon();
        c == c.simplified()
    }

    pub fn to_ref_target(&self, ids: &[CommitId]) -> RefTarget {
        RefTarget::from_merge(Merge::from_vec(
            self.terms
                .iter()
                .map(|t| t.map(|i| ids[i].clone()))
                .collect::<Vec<_>>(),
        ))
    }

    /// `None` if the target names a commit `index_of` does not know.
    pub fn from_ref_target(
        target: &RefTarget,
        index_of: impl Fn(&CommitId) -> Option<usize>,
    ) -> Option<Self> {
        let mut terms = vec![];
        for t in target.as_merge().iter() {
            terms.push(match t {
                None => None,
                Some(id) => Some(index_of(id)?),
            });
        }
        Some(Self { terms })
    }
}

/// A target up to the order of its adds and of its removes: two sorted
/// multisets with `adds.len() == removes.len() + 1`.
#[derive(Debug, Clone, PartialEq, Eq, PartialOrd, Ord, Hash, Serialize, Deserialize)]
pub struct Canon {
    pub adds: Vec<Term>,
    pub removes: Vec<Term>,
}

impl Canon {
    pub fn new(mut adds: Vec<Term>, mut removes: Vec<Term>) -> Self {
        assert_eq!(adds.len(), removes.len() + 1);
        adds.sort();
        removes.sort();
        Self { adds, removes }
    }
    pub fn resolved(t: Term) -> Self {
        Self { adds: vec![t], removes: vec![] }
    }
    pub fn as_resolved(&self) -> Option<Term> {
        if self.removes.is_empty() { Some(self.adds[0]) } else { None }
    }
    pub fn is_conflicted(&self) -> bool {
        !self.removes.is_empty()
    }
    pub fn ids(&self) -> BTreeSet<usize> {
        self.adds.iter().chain(&self.removes).flatten().copied().collect()
    }
    pub fn added_ids(&self) -> BTreeSet<usize> {
        self.adds.iter().flatten().copied().collect()
    }
    /// Some ordered target with this multiset form (adds and removes interleaved
    /// in sorted order).
    pub fn to_target(&self) -> Target {
        let mut terms = vec![];
        for (i, a) in self.adds.iter().enumerate() {
            terms.push(*a);
            if let Some(r) = self.removes.get(i) {
                terms.push(*r);
            }
        }
        Target { terms }
    }

    /// Net count (#adds − #removes) of every value that does not cancel out.
    fn counts(&self) -> BTreeMap<Term, i32> {
        let mut counts: BTreeMap<Term, i32> = BTreeMap::new();
        for a in &self.adds {
            *counts.entry(*a).or_default() += 1;
        }
        for r in &self.removes {
            *counts.entry(*r).or_default() -= 1;
        }
        counts.retain(|_, c| *c != 0);
        counts
    }

    /// Cancels equal add/remove pairs (the meaning-preserving simplification
    /// checked by C01).
    pub fn simplified(&self) -> Self {
        let mut adds = vec![];
        let mut removes = vec![];
        for (v, c) in self.counts() {
            for _ in 0..c.abs() {
                if c > 0 { adds.push(v) } else { removes.push(v) }
            }
        }
        Self::new(adds, removes)
    }

    /// The counting rule of trivial resolution with "same change accepted"
    /// (C02): a single surviving value, or one add value k+1 times against one
    /// remove value k times.
    pub fn resolve_same_change(&self) -> Option<Term> {
        let counts: Vec<(Term, i32)> = self.counts().into_iter().collect();
        match counts.as_slice() {
            [(v, 1)] => Some(*v),
            [(v1, c1), (v2, _)] => Some(if *c1 > 0 { *v1 } else { *v2 }),
            _ => None,
        }
    }

    /// All results of one documented elimination step: drop a pair
    /// (remove `r`, add `a`) where `a` is present, some *other* add `a2` is
    /// present with `a ≤ a2` (equal allowed), and `r` is absent or `r ≤ a`.
    pub fn elimination_steps(&self, anc: &dyn Ancestry) -> BTreeSet<Self> {
        let mut out = BTreeSet::new();
        for (i, a) in self.adds.iter().enumerate() {
            let Some(a) = *a else { continue };
            let dominated = self.adds.iter().enumerate().any(|(j, a2)| {
                j != i && matches!(a2, Some(a2) if anc.is_ancestor(a, *a2))
            });
            if !dominated {
                continue;
            }
            for (k, r) in self.removes.iter().enumerate() {
                let ok = match r {
                    None => true,
                    Some(r) => anc.is_ancestor(*r, a),
                };
                if ok {
                    let mut adds = self.adds.clone();
                    let mut removes = self.removes.clone();
                    adds.remove(i);
                    removes.remove(k);
                    out.insert(Self { adds, removes });
                }
            }
        }
        out
    }

    /// Every normal form (no elimination step applies) reachable from `self`.
    pub fn normal_forms(&self, anc: &dyn Ancestry) -> BTreeSet<Self> {
        let mut seen = BTreeSet::new();
        let mut normal = BTreeSet::new();
        let mut stack = vec![self.clone()];
        while let Some(c) = stack.pop() {
            if !seen.insert(c.clone()) {
                continue;
            }
            let next = c.elimination_steps(anc);
            if next.is_empty() {
                normal.insert(c);
            } else {
                stack.extend(next);
            }
        }
        normal
    }
}

/// `simplify(flatten([left, base, right]))` as a multiset: left − base + right.
pub fn flatten_simplify(left: &Target, base: &Target, right: &Target) -> Canon {
    let adds = left.adds().chain(base.removes()).chain(right.adds()).collect();
    let removes = left.removes().chain(base.adds()).chain(right.removes()).collect();
    Canon::new(adds, removes).simplified()
}

/// What the model allows as result of merging `left` and `right` over `base`.
#[derive(Debug, Clone)]
pub struct Expected {
    /// Set when one side is unchanged or both sides are identical: the result
    /// is exactly this input (term order included).
    pub exact: Option<Target>,
    /// Acceptable results up to term order (a singleton unless the inputs are
    /// conflicted and the elimination order matters).
    pub forms: BTreeSet<Canon>,
    /// `forms` plus the same-change resolution of each form (the re-resolution
    /// the code's TODO contemplates; still "both sides agree").
    pub relaxed: BTreeSet<Canon>,
    /// Which rule produced the expectation (for class histograms).
    pub rule: Rule,
}

#[derive(Debug, Clone, Copy, PartialEq, Eq)]
pub enum Rule {
    /// left == base, right == base or left == right.
    Trivial,
    /// The flattened, simplified terms resolve by counting.
    Cancelled,
    /// At least one elimination step applies.
    Eliminated,
    /// No step applies: the simplified conflict is recorded as is.
    Conflict,
}

impl Expected {
    pub fn admits(&self, actual: &Target) -> bool {
        match &self.exact {
            Some(t) => t == actual,
            None => self.relaxed.contains(&actual.canon()),
        }
    }
    pub fn admits_strictly(&self, actual: &Target) -> bool {
        match &self.exact {
            Some(t) => t == actual,
            None => self.forms.contains(&actual.canon()),
        }
    }
    /// The acceptable results when term order is ignored.
    pub fn canons(&self) -> &BTreeSet<Canon> {
        &self.relaxed
    }
}

/// The reference three-way merge.
pub fn merge_targets(anc: &dyn Ancestry, left: &Target, base: &Target, right: &Target) -> Expected {
    let exact = if left == base {
        Some(right.clone())
    } else if right == base || left == right {
        Some(left.clone())
    } else {
        None
    };
    if let Some(t) = exact {
        let forms: BTreeSet<Canon> = [t.canon()].into();
        return Expected { exact: Some(t), relaxed: forms.clone(), forms, rule: Rule::Trivial };
    }
    let start = flatten_simplify(left, base, right);
    if let Some(t) = start.resolve_same_change() {
        let forms: BTreeSet<Canon> = [Canon::resolved(t)].into();
        return Expected { exact: None, relaxed: forms.clone(), forms, rule: Rule::Cancelled };
    }
    let forms = start.normal_forms(anc);
    let rule = if forms.contains(&start) { Rule::Conflict } else { Rule::Eliminated };
    let mut relaxed = forms.clone();
    for f in &forms {
        if let Some(t) = f.resolve_same_change() {
            relaxed.insert(Canon::resolved(t));
        }
    }
    Expected { exact: None, forms, relaxed, rule }
}

/// The rule for unconflicted inputs, stated directly (independent of the
/// general model above): unchanged side → other side; both equal → that value;
/// `base ≤ left ≤ right` (absent base counts as the root) → `right`, and
/// symmetrically; otherwise the conflict `left − base + right`.
pub fn merge_unconflicted(anc: &dyn Ancestry, left: Term, base: Term, right: Term) -> Canon {
    if left == base {
        return Canon::resolved(right);
    }
    if right == base || left == right {
        return Canon::resolved(left);
    }
    let below = |b: Term, x: usize| b.is_none_or(|b| anc.is_ancestor(b, x));
    if let (Some(l), Some(r)) = (left, right) {
        if anc.is_ancestor(l, r) && below(base, l) {
            return Canon::resolved(right);
        }
        if anc.is_ancestor(r, l) && below(base, r) {
            return Canon::resolved(left);
        }
    }
    Canon::new(vec![left, right], vec![base])
}

/// The general path of the merge on multiset forms (no exact-equality
/// shortcuts): cancel, resolve by counting, else all reachable normal forms
/// (plus their same-change re-resolutions).
pub fn merge_canons(anc: &dyn Ancestry, left: &Canon, base: &Canon, right: &Canon) -> BTreeSet<Canon> {
    let adds = left.adds.iter().chain(&base.removes).chain(&right.adds).copied().collect();
    let removes = left.removes.iter().chain(&base.adds).chain(&right.removes).copied().collect();
    let start = Canon::new(adds, removes).simplified();
    if let Some(t) = start.resolve_same_change() {
        return [Canon::resolved(t)].into();
    }
    let forms = start.normal_forms(anc);
    let mut out = forms.clone();
    for f in &forms {
        if let Some(t) = f.resolve_same_change() {
            out.insert(Canon::resolved(t));
        }
    }
    out
}

/// Folds the merge over several sides in order (`values[0]` is the starting
/// side, the others are merged into it one after the other over the same
/// `base`). Sides equal to `base` are skipped, as `merge_view` only merges
/// names whose value differs from the base. Returns every result the model
/// allows, up to term order. Because the term order of intermediate results is
/// not tracked, the exact-equality shortcuts of the real merge are admitted
/// both as taken and as not taken when their multiset forms coincide (for
/// unconflicted values the two agree anyway).
pub fn merge_many(anc: &dyn Ancestry, base: &Target, values: &[Target]) -> BTreeSet<Canon> {
    let base_c = base.canon();
    let mut current: BTreeSet<Canon> = [values[0].canon()].into();
    for other in &values[1..] {
        if other == base {
            continue;
        }
        let other_c = other.canon();
        let mut next = BTreeSet::new();
        for c in &current {
            if *c == base_c {
                next.insert(other_c.clone());
            }
            if *c == other_c {
                next.insert(c.clone());
            }
            next.extend(merge_canons(anc, c, &base_c, &other_c));
        }
        current = next;
    }
    current
}

#[cfg(test)]
mod tests {
    use super::*;

    #[test]
    fn chain_fast_forward() {
        // 0 <- 1 <- 2, 0 <- 3
        let anc = AncestryMatrix::from_parents(&[vec![], vec![0], vec![1], vec![0]]);
        assert_eq!(merge_unconflicted(&anc, Some(1), Some(0), Some(2)), Canon::resolved(Some(2)));
        assert_eq!(merge_unconflicted(&anc, Some(2), None, Some(1)), Canon::resolved(Some(2)));
        assert_eq!(
            merge_unconflicted(&anc, Some(2), Some(0), Some(3)),
            Canon::new(vec![Some(2), Some(3)], vec![Some(0)])
        );
        let e = merge_targets(&anc, &Target::normal(1), &Target::normal(0), &Target::normal(2));
        assert!(e.admits(&Target::normal(2)));
        assert!(!e.admits(&Target::normal(1)));
    }
}
