//! Helpers on top of `model::tree` shared by C07 and C08:
//!
//! * `Edit`: tree edits extended with *line edits of existing files*, so that
//!   two sides of a merge regularly touch the same file in mergeable ways
//!   (content merges), on top of the file<->dir replacements of `TreeEdit`;
//! * `Term`: the value of one path in one model tree (absent / leaf / whole
//!   directory by content) and conversion of jj tree values into it;
//! * `universe()`: every path that can exist over the tiny path alphabet
//!   (`PATHS` and all their directory prefixes).

use std::collections::BTreeSet;
use std::sync::Arc;

use jj_lib::backend::TreeId;
use jj_lib::backend::TreeValue;
use jj_lib::merge::Merge;
use jj_lib::merged_tree::MergedTree;
use jj_lib::repo_path::RepoPath;
use jj_lib::store::Store;
use pollster::FutureExt as _;
use proptest::prelude::*;
use serde::Deserialize;
use serde::Serialize;

use crate::engine::runner::pick;
use crate::gens::content::Bytes;
use crate::model::tree::Entry;
use crate::model::tree::ModelTree;
use crate::model::tree::PATHS;
use crate::model::tree::TreeEdit;
use crate::model::tree::apply_edit;
use crate::model::tree::put;
use crate::model::tree::read_value;
use crate::model::tree::tree_edit;

/// The value of one path in one (model or real) tree. Directories compare by
/// content (relative path -> entry), which is what tree-id equality means in a
/// content-addressed store without empty directories.
#[derive(Debug, Clone, PartialEq, Eq, PartialOrd, Ord, Hash)]
pub enum Term {
    Absent,
    Leaf(Entry),
    Dir(ModelTree),
}

impl Term {
    pub fn is_dir(&self) -> bool {
        matches!(self, Self::Dir(_))
    }
    pub fn is_file(&self) -> bool {
        matches!(self, Self::Leaf(Entry::File { .. }))
    }
    /// One-line rendering for messages.
    pub fn brief(&self) -> String {
        match self {
            Self::Absent => "absent".into(),
            Self::Leaf(Entry::File { content, exec }) => {
                format!("file({content:?}{})", if *exec { ",x" } else { "" })
            }
            Self::Leaf(Entry::Symlink(t)) => format!("symlink({t})"),
            Self::Dir(t) => format!("dir{:?}", t.keys().collect::<Vec<_>>()),
        }
    }
}

pub fn brief_terms(terms: &[Term]) -> String {
    let v: Vec<String> = terms.iter().map(Term::brief).collect();
    format!("[{}]", v.join(", "))
}

fn strip<'a>(dir: &str, path: &'a str) -> Option<&'a str> {
    path.strip_prefix(dir)?.strip_prefix('/')
}

/// Value of `path` in a model tree. A path below a file is absent.
pub fn model_lookup(tree: &ModelTree, path: &str) -> Term {
    if let Some(e) = tree.get(path) {
        return Term::Leaf(e.clone());
    }
    let sub: ModelTree = tree
        .iter()
        .filter_map(|(p, e)| strip(path, p).map(|rest| (rest.to_string(), e.clone())))
        .collect();
    if sub.is_empty() {
        Term::Absent
    } else {
        Term::Dir(sub)
    }
}

/// Proper directory prefixes of `path`, shortest first.
pub fn ancestors(path: &str) -> Vec<&str> {
    path.match_indices('/').map(|(i, _)| &path[..i]).collect()
}

/// `a` equals, contains or is contained in `b` (as repo paths).
pub fn paths_related(a: &str, b: &str) -> bool {
    a == b || strip(a, b).is_some() || strip(b, a).is_some()
}

/// Every path that can name a file or a directory over the alphabet.
pub fn universe() -> Vec<String> {
    let mut set = BTreeSet::new();
    for p in PATHS {
        set.insert((*p).to_string());
        for a in ancestors(p) {
            set.insert(a.to_string());
        }
    }
    set.into_iter().collect()
}

/// Reads the tree `id` (a directory at `dir`) recursively into a model tree
/// with paths relative to `dir`.
pub fn read_dir(store: &Arc<Store>, dir: &RepoPath, id: &TreeId) -> Result<ModelTree, String> {
    let mut out = ModelTree::new();
    read_dir_into(store, dir, id, "", &mut out)?;
    Ok(out)
}

fn read_dir_into(
    store: &Arc<Store>,
    dir: &RepoPath,
    id: &TreeId,
    prefix: &str,
    out: &mut ModelTree,
) -> Result<(), String> {
    let tree = store
        .get_tree(dir.to_owned(), id)
        .block_on()
        .map_err(|e| format!("get_tree {dir:?}: {e}"))?;
    let entries: Vec<_> = tree
        .entries_non_recursive()
        .map(|e| (e.name().to_owned(), e.value().clone()))
        .collect();
    if entries.is_empty() && !prefix.is_empty() {
        return Err(format!("empty subtree stored at {dir:?}"));
    }
    for (name, value) in entries {
        let path = dir.join(&name);
        let rel = if prefix.is_empty() {
            name.as_internal_str().to_string()
        } else {
            format!("{prefix}/{}", name.as_internal_str())
        };
        match &value {
            TreeValue::Tree(sub) => read_dir_into(store, &path, sub, &rel, out)?,
            _ => {
                let entry = read_value(store, &path, &Some(value.clone()))?
                    .expect("present value");
                out.insert(rel, entry);
            }
        }
    }
    Ok(())
}

/// Converts one jj tree value at `path` into a model term.
pub fn term_of_value(
    store: &Arc<Store>,
    path: &RepoPath,
    value: &Option<TreeValue>,
) -> Result<Term, String> {
    match value {
        None => Ok(Term::Absent),
        Some(TreeValue::Tree(id)) => {
            let sub = read_dir(store, path, id)?;
            if sub.is_empty() {
                return Err(format!("empty tree value at {path:?}"));
            }
            Ok(Term::Dir(sub))
        }
        Some(_) => Ok(Term::Leaf(
            read_value(store, path, value)?.expect("present value"),
        )),
    }
}

pub fn terms_of_merge(
    store: &Arc<Store>,
    path: &RepoPath,
    value: &Merge<Option<TreeValue>>,
) -> Result<Vec<Term>, String> {
    value
        .iter()
        .map(|v| term_of_value(store, path, v))
        .collect()
}

/// Reads every side (term) of a possibly conflicted tree back into a model tree.
pub fn read_sides(tree: &MergedTree) -> Result<Vec<ModelTree>, String> {
    tree.tree_ids()
        .iter()
        .map(|id| read_dir(tree.store(), RepoPath::root(), id))
        .collect()
}

// ---------------------------------------------------------------------------
// Generators
// ---------------------------------------------------------------------------

const LINE_WORDS: &[&str] = &[
    "a", "b", "c", "d", "e", "f", "g h", "", "i", "j", "k", "l", "m", "n",
];

#[derive(Debug, Clone, Serialize, Deserialize)]
pub enum LineOp {
    Replace(u8),
    Insert(u8),
    Delete,
}

#[derive(Debug, Clone, Serialize, Deserialize)]
pub enum Edit {
    Tree(TreeEdit),
    /// Edit one line of the `file`-th existing regular file.
    Line { file: u16, line: u16, op: LineOp },
}

fn lines_content() -> impl Strategy<Value = Bytes> {
    prop::collection::vec(0..LINE_WORDS.len(), 3..=8).prop_map(|ws| {
        let mut s = String::new();
        for w in ws {
            s.push_str(LINE_WORDS[w]);
            s.push('\n');
        }
        Bytes::from(s.as_str())
    })
}

/// Entries whose files are mostly multi-line texts (mergeable by line).
pub fn rich_entry() -> impl Strategy<Value = Entry> {
    prop_oneof![
        5 => (lines_content(), prop::bool::weighted(0.2))
            .prop_map(|(content, exec)| Entry::File { content, exec }),
        3 => crate::model::tree::entry(),
    ]
}

pub fn rich_tree(max_entries: usize) -> impl Strategy<Value = ModelTree> {
    prop::collection::vec((any::<u16>(), rich_entry()), 0..=max_entries).prop_map(|puts| {
        let mut t = ModelTree::new();
        for (p, e) in puts {
            put(&mut t, PATHS[pick(p, PATHS.len())], e);
        }
        t
    })
}

pub fn edit() -> impl Strategy<Value = Edit> {
    let line_op = prop_oneof![
        3 => (0..LINE_WORDS.len() as u8).prop_map(LineOp::Replace),
        2 => (0..LINE_WORDS.len() as u8).prop_map(LineOp::Insert),
        1 => Just(LineOp::Delete),
    ];
    prop_oneof![
        4 => tree_edit().prop_map(Edit::Tree),
        1 => (any::<u16>(), rich_entry()).prop_map(|(p, e)| Edit::Tree(TreeEdit::Put(p, e))),
        7 => (any::<u16>(), any::<u16>(), line_op)
            .prop_map(|(file, line, op)| Edit::Line { file, line, op }),
    ]
}

pub fn apply(tree: &mut ModelTree, edit: &Edit) {
    match edit {
        Edit::Tree(e) => apply_edit(tree, e),
        Edit::Line { file, line, op } => {
            let files: Vec<String> = tree
                .iter()
                .filter(|(_, e)| matches!(e, Entry::File { .. }))
                .map(|(k, _)| k.clone())
                .collect();
            if files.is_empty() {
                return;
            }
            let k = &files[pick(*file, files.len())];
            let Some(Entry::File { content, .. }) = tree.get_mut(k) else {
                return;
            };
            let mut lines: Vec<Vec<u8>> = content
                .0
                .split_inclusive(|b| *b == b'\n')
                .map(|l| l.to_vec())
                .collect();
            let word = |w: &u8| -> Vec<u8> {
                let mut v = LINE_WORDS[(*w as usize).min(LINE_WORDS.len() - 1)]
                    .as_bytes()
                    .to_vec();
                v.push(b'\n');
                v
            };
            match op {
                LineOp::Replace(w) => {
                    if lines.is_empty() {
                        lines.push(word(w));
                    } else {
                        let i = pick(*line, lines.len());
                        lines[i] = word(w);
                    }
                }
                LineOp::Insert(w) => {
                    let i = pick(*line, lines.len() + 1);
                    lines.insert(i, word(w));
                }
                LineOp::Delete => {
                    if !lines.is_empty() {
                        let i = pick(*line, lines.len());
                        lines.remove(i);
                    }
                }
            }
            content.0 = lines.concat();
        }
    }
}

pub fn apply_all(base: &ModelTree, edits: &[Edit]) -> ModelTree {
    let mut t = base.clone();
    for e in edits {
        apply(&mut t, e);
    }
    t
}
