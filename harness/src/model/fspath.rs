//! Lexical model of Unix file-system paths, written independently of
//! `std::path::Components` and of jj's `file_util`: a path is a byte string,
//! components are the non-empty pieces between `/`.
//!
//! Used by C32 (path conversion) and C35 (fileset path literals).

/// Components of `path` with empty pieces (repeated/trailing separators) and
/// `.` dropped. `..` is kept.
pub fn split_components(path: &[u8]) -> Vec<Vec<u8>> {
    path.split(|b| *b == b'/')
        .filter(|c| !c.is_empty() && *c != b".")
        .map(|c| c.to_vec())
        .collect()
}

pub fn is_absolute(path: &[u8]) -> bool {
    path.first() == Some(&b'/')
}

/// `base.join(input)` the way the OS resolves it: an absolute `input` replaces
/// `base`.
pub fn join(base: &[u8], input: &[u8]) -> Vec<u8> {
    if is_absolute(input) {
        input.to_vec()
    } else {
        let mut out = base.to_vec();
        out.push(b'/');
        out.extend_from_slice(input);
        out
    }
}

/// Result of resolving `.`/`..` lexically.
#[derive(Debug, Clone, PartialEq, Eq)]
pub struct Normalized {
    pub absolute: bool,
    /// Number of `..` that could not be consumed (they precede `rest`).
    pub unresolved_parents: usize,
    /// Remaining ordinary components.
    pub rest: Vec<Vec<u8>>,
}

/// Consumes every `..` that follows an ordinary component.
pub fn normalize(path: &[u8]) -> Normalized {
    let mut unresolved_parents = 0;
    let mut rest: Vec<Vec<u8>> = vec![];
    for c in split_components(path) {
        if c == b".." {
            if rest.pop().is_none() {
                unresolved_parents += 1;
            }
        } else {
            rest.push(c);
        }
    }
    Normalized {
        absolute: is_absolute(path),
        unresolved_parents,
        rest,
    }
}

impl Normalized {
    /// Component list in the spelling `file_util::normalize_path` documents:
    /// unconsumed `..` are kept in front. (`keep_parents=false` gives the POSIX
    /// meaning of an absolute path, where `/..` is `/`.)
    pub fn to_components(&self, keep_parents: bool) -> Vec<Vec<u8>> {
        let mut out = vec![];
        if keep_parents {
            out.extend(std::iter::repeat_n(b"..".to_vec(), self.unresolved_parents));
        }
        out.extend(self.rest.iter().cloned());
        out
    }
}

/// The components of `path` below `base`, if `path` is `base` or inside it.
pub fn strip_base<'a>(path: &'a [Vec<u8>], base: &[Vec<u8>]) -> Option<&'a [Vec<u8>]> {
    path.strip_prefix(base)
}

/// Model of `relative_path(from, to)` for absolute, normalized component lists.
pub fn relative(from: &[Vec<u8>], to: &[Vec<u8>]) -> Vec<Vec<u8>> {
    let common = from.iter().zip(to).take_while(|(a, b)| a == b).count();
    let mut out: Vec<Vec<u8>> = vec![];
    out.extend(std::iter::repeat_n(b"..".to_vec(), from.len() - common));
    out.extend(to[common..].iter().cloned());
    if out.is_empty() {
        out.push(b".".to_vec());
    }
    out
}

/// Splits a real `Path` into (absolute?, components as bytes) using only the
/// standard library's classification, for comparing results with the model.
#[cfg(unix)]
pub fn std_components(path: &std::path::Path) -> (bool, Vec<Vec<u8>>) {
    use std::os::unix::ffi::OsStrExt as _;
    use std::path::Component;
    let mut absolute = false;
    let mut out = vec![];
    for c in path.components() {
        match c {
            Component::RootDir => absolute = true,
            Component::Prefix(_) => unreachable!("no prefixes on unix"),
            Component::CurDir => out.push(b".".to_vec()),
            Component::ParentDir => out.push(b"..".to_vec()),
            Component::Normal(name) => out.push(name.as_bytes().to_vec()),
        }
    }
    (absolute, out)
}

#[cfg(unix)]
pub fn path_from_bytes(bytes: &[u8]) -> std::path::PathBuf {
    use std::os::unix::ffi::OsStrExt as _;
    std::path::PathBuf::from(std::ffi::OsStr::from_bytes(bytes))
}

pub fn join_components(absolute: bool, comps: &[Vec<u8>]) -> Vec<u8> {
    let mut out = vec![];
    if absolute {
        out.push(b'/');
    }
    for (i, c) in comps.iter().enumerate() {
        if i > 0 {
            out.push(b'/');
        }
        out.extend_from_slice(c);
    }
    out
}

pub fn lossy(bytes: &[u8]) -> String {
    String::from_utf8_lossy(bytes).into_owned()
}

pub fn lossy_list(comps: &[Vec<u8>]) -> Vec<String> {
    comps.iter().map(|c| lossy(c)).collect()
}
