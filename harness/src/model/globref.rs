//! Reference glob evaluator, written independently of `globset`/jj.
//!
//! Supported syntax (per path component): literal characters, `?`, `*`,
//! `[set]`, `[a-c]`, `[!set]` / `[^set]`, `{alt1,alt2}` (one level, non-empty
//! alternatives, no `/` inside), `\x` (escape). A component that is exactly
//! `**` matches any number of whole components. Anything outside this syntax is
//! reported as `GlobError::Unsupported` so that callers can refuse to judge it.
//!
//! The reference semantics is the Unix one: a pattern is a list of components
//! and is matched component by component, so no wildcard, class or alternative
//! can ever consume a `/`. A second, string-level matcher
//! (`match_path_lenient`) additionally lets *negated classes* match `/`; it is
//! only used to classify a disagreement (globset's `[!x]` is compiled to the
//! regex `[^x]`, which is not separator-aware).

#[derive(Debug, Clone, PartialEq, Eq)]
pub enum Tok {
    Lit(char),
    Any,
    Star,
    Class { neg: bool, ranges: Vec<(char, char)> },
    Alt(Vec<Vec<Tok>>),
}

#[derive(Debug, Clone, PartialEq, Eq)]
pub enum GlobError {
    /// The glob is syntactically invalid; a parser must reject it.
    Malformed(&'static str),
    /// Valid or not, the reference does not define a meaning for it.
    Unsupported(&'static str),
}

/// Characters that make a path component a glob rather than a literal name
/// (on Unix, where `\` is the escape character).
pub fn is_glob_meta(c: char) -> bool {
    matches!(c, '?' | '*' | '[' | ']' | '{' | '}' | '\\')
}

pub fn has_glob_meta(s: &str) -> bool {
    s.chars().any(is_glob_meta)
}

struct P<'a> {
    chars: &'a [char],
    i: usize,
}

impl P<'_> {
    fn next(&mut self) -> Option<char> {
        let c = self.chars.get(self.i).copied();
        if c.is_some() {
            self.i += 1;
        }
        c
    }
    fn peek(&self) -> Option<char> {
        self.chars.get(self.i).copied()
    }

    fn class(&mut self) -> Result<Tok, GlobError> {
        let neg = matches!(self.peek(), Some('!' | '^'));
        if neg {
            self.i += 1;
        }
        let mut ranges: Vec<(char, char)> = vec![];
        let mut first = true;
        loop {
            let Some(c) = self.next() else {
                return Err(GlobError::Malformed("unclosed class"));
            };
            match c {
                ']' if first => return Err(GlobError::Unsupported("']' first in class")),
                ']' => break,
                '-' => return Err(GlobError::Unsupported("'-' at class edge")),
                '\\' | '/' | '[' => return Err(GlobError::Unsupported("special char in class")),
                lo => {
                    if self.peek() == Some('-') {
                        self.i += 1;
                        match self.next() {
                            None => return Err(GlobError::Malformed("unclosed class")),
                            Some(']') => {
                                return Err(GlobError::Unsupported("'-' at class edge"));
                            }
                            Some('\\' | '/' | '[' | '-') => {
                                return Err(GlobError::Unsupported("special char in class"));
                            }
                            Some(hi) => {
                                if hi < lo {
                                    return Err(GlobError::Malformed("invalid range"));
                                }
                                ranges.push((lo, hi));
                            }
                        }
                    } else {
                        ranges.push((lo, lo));
                    }
                }
            }
            first = false;
        }
        Ok(Tok::Class { neg, ranges })
    }

    /// Parses a token sequence. Inside alternates it stops (without consuming)
    /// at `,` or `}`.
    fn seq(&mut self, in_alt: bool) -> Result<Vec<Tok>, GlobError> {
        let mut out = vec![];
        while let Some(c) = self.peek() {
            match c {
                ',' | '}' if in_alt => break,
                _ => {}
            }
            self.i += 1;
            match c {
                '\\' => match self.next() {
                    None => return Err(GlobError::Malformed("dangling escape")),
                    Some('/') => return Err(GlobError::Unsupported("escaped separator")),
                    Some(e) => out.push(Tok::Lit(e)),
                },
                '*' => {
                    if in_alt && matches!(out.last(), Some(Tok::Star)) {
                        return Err(GlobError::Unsupported("'**' inside alternates"));
                    }
                    out.push(Tok::Star);
                }
                '?' => out.push(Tok::Any),
                '[' => out.push(self.class()?),
                '{' => {
                    if in_alt {
                        return Err(GlobError::Unsupported("nested alternates"));
                    }
                    let mut branches = vec![];
                    loop {
                        let b = self.seq(true)?;
                        if b.is_empty() {
                            // `{}`/`{a,}`: globset silently drops empty
                            // alternatives unless `empty_alternates` is set.
                            return match self.peek() {
                                None => Err(GlobError::Malformed("unclosed alternates")),
                                _ => Err(GlobError::Unsupported("empty alternative")),
                            };
                        }
                        branches.push(b);
                        match self.next() {
                            Some(',') => {}
                            Some('}') => break,
                            _ => return Err(GlobError::Malformed("unclosed alternates")),
                        }
                    }
                    out.push(Tok::Alt(branches));
                }
                '}' => return Err(GlobError::Malformed("unopened alternates")),
                '/' => return Err(GlobError::Unsupported("separator in component")),
                c => out.push(Tok::Lit(c)),
            }
        }
        Ok(out)
    }
}

/// Parses one path component (must not be `**`, must not contain `/`).
pub fn parse_component(s: &str) -> Result<Vec<Tok>, GlobError> {
    let chars: Vec<char> = s.chars().collect();
    let mut p = P { chars: &chars, i: 0 };
    let toks = p.seq(false)?;
    debug_assert_eq!(p.i, chars.len());
    Ok(toks)
}

fn char_eq(a: char, b: char, icase: bool) -> bool {
    if icase {
        a.eq_ignore_ascii_case(&b)
    } else {
        a == b
    }
}

fn class_has(neg: bool, ranges: &[(char, char)], c: char, icase: bool) -> bool {
    let within = |x: char| ranges.iter().any(|&(lo, hi)| lo <= x && x <= hi);
    let hit = if icase {
        within(c.to_ascii_lowercase()) || within(c.to_ascii_uppercase())
    } else {
        within(c)
    };
    hit != neg
}

/// Matches a token sequence against one whole path component.
pub fn match_toks(toks: &[Tok], s: &[char], icase: bool) -> bool {
    let Some((first, rest)) = toks.split_first() else {
        return s.is_empty();
    };
    match first {
        Tok::Lit(c) => !s.is_empty() && char_eq(*c, s[0], icase) && match_toks(rest, &s[1..], icase),
        Tok::Any => !s.is_empty() && match_toks(rest, &s[1..], icase),
        Tok::Star => (0..=s.len()).any(|k| match_toks(rest, &s[k..], icase)),
        Tok::Class { neg, ranges } => {
            !s.is_empty() && class_has(*neg, ranges, s[0], icase) && match_toks(rest, &s[1..], icase)
        }
        Tok::Alt(branches) => branches.iter().any(|b| {
            let mut v = b.clone();
            v.extend_from_slice(rest);
            match_toks(&v, s, icase)
        }),
    }
}

/// One component of a full (workspace-relative) pattern.
#[derive(Debug, Clone, PartialEq, Eq)]
pub enum Comp {
    Lit { name: String, icase: bool },
    Glob { toks: Vec<Tok>, icase: bool },
    DoubleStar,
}

impl Comp {
    fn matches(&self, name: &str) -> bool {
        match self {
            Self::Lit { name: n, icase } => {
                if *icase {
                    n.eq_ignore_ascii_case(name)
                } else {
                    n == name
                }
            }
            Self::Glob { toks, icase } => {
                let chars: Vec<char> = name.chars().collect();
                match_toks(toks, &chars, *icase)
            }
            Self::DoubleStar => unreachable!(),
        }
    }

    /// True if the component contains a wildcard that stands for exactly one
    /// character (`?` or a class). Their meaning on multi-byte characters is
    /// byte-wise in `regex::bytes` and is not judged by the reference.
    pub fn has_single_char_wildcard(&self) -> bool {
        fn any(toks: &[Tok]) -> bool {
            toks.iter().any(|t| match t {
                Tok::Any | Tok::Class { .. } => true,
                Tok::Alt(bs) => bs.iter().any(|b| any(b)),
                _ => false,
            })
        }
        matches!(self, Self::Glob { toks, .. } if any(toks))
    }

    pub fn has_negated_class(&self) -> bool {
        fn any(toks: &[Tok]) -> bool {
            toks.iter().any(|t| match t {
                Tok::Class { neg, .. } => *neg,
                Tok::Alt(bs) => bs.iter().any(|b| any(b)),
                _ => false,
            })
        }
        matches!(self, Self::Glob { toks, .. } if any(toks))
    }
}

/// Exact match of the whole `path` (non-empty list of component names).
///
/// A `**` component stands for zero or more components, except as the last
/// pattern component where it stands for one or more (there is no path that
/// ends in a separator).
pub fn match_path(pat: &[Comp], path: &[&str]) -> bool {
    match pat.split_first() {
        None => path.is_empty(),
        Some((Comp::DoubleStar, rest)) => {
            if rest.is_empty() {
                !path.is_empty()
            } else {
                (0..=path.len()).any(|k| match_path(rest, &path[k..]))
            }
        }
        Some((c, rest)) => !path.is_empty() && c.matches(path[0]) && match_path(rest, &path[1..]),
    }
}

/// Prefix match: the path itself or one of its ancestors matches exactly. The
/// empty pattern (workspace root) is a prefix of everything.
pub fn match_prefix(pat: &[Comp], path: &[&str]) -> bool {
    pat.is_empty() || (1..=path.len()).any(|k| match_path(pat, &path[..k]))
}

#[derive(Debug, Clone)]
enum Flat {
    T(Tok, bool),
    Sep,
    DStar,
}

fn flatten(pat: &[Comp]) -> Vec<Flat> {
    let mut out = vec![];
    for (i, c) in pat.iter().enumerate() {
        if i > 0 {
            out.push(Flat::Sep);
        }
        match c {
            Comp::Lit { name, icase } => out.extend(name.chars().map(|ch| Flat::T(Tok::Lit(ch), *icase))),
            Comp::Glob { toks, icase } => out.extend(toks.iter().map(|t| Flat::T(t.clone(), *icase))),
            Comp::DoubleStar => out.push(Flat::DStar),
        }
    }
    out
}

fn match_flat(pat: &[Flat], s: &[char]) -> bool {
    let Some((first, rest)) = pat.split_first() else {
        return s.is_empty();
    };
    match first {
        Flat::Sep => !s.is_empty() && s[0] == '/' && match_flat(rest, &s[1..]),
        Flat::DStar => match rest.split_first() {
            None => !s.is_empty(),
            Some((Flat::Sep, after)) => {
                match_flat(after, s)
                    || (0..s.len()).any(|i| s[i] == '/' && match_flat(after, &s[i + 1..]))
            }
            Some(_) => false,
        },
        Flat::T(tok, icase) => match tok {
            Tok::Lit(c) => !s.is_empty() && char_eq(*c, s[0], *icase) && match_flat(rest, &s[1..]),
            Tok::Any => !s.is_empty() && s[0] != '/' && match_flat(rest, &s[1..]),
            Tok::Star => {
                let limit = s.iter().position(|&c| c == '/').unwrap_or(s.len());
                (0..=limit).any(|k| match_flat(rest, &s[k..]))
            }
            Tok::Class { neg, ranges } => {
                // lenient: a negated class may consume a separator
                !s.is_empty()
                    && (s[0] != '/' || *neg)
                    && class_has(*neg, ranges, s[0], *icase)
                    && match_flat(rest, &s[1..])
            }
            Tok::Alt(branches) => branches.iter().any(|b| {
                let mut v: Vec<Flat> = b.iter().map(|t| Flat::T(t.clone(), *icase)).collect();
                v.extend_from_slice(rest);
                match_flat(&v, s)
            }),
        },
    }
}

/// Like `match_path`, but on the `/`-joined string and with negated classes
/// allowed to match `/`. Classification aid only.
pub fn match_path_lenient(pat: &[Comp], path: &[&str]) -> bool {
    if pat.is_empty() {
        return path.is_empty();
    }
    let s: Vec<char> = path.join("/").chars().collect();
    match_flat(&flatten(pat), &s)
}

pub fn match_prefix_lenient(pat: &[Comp], path: &[&str]) -> bool {
    pat.is_empty() || (1..=path.len()).any(|k| match_path_lenient(pat, &path[..k]))
}

#[cfg(test)]
mod tests {
    use super::*;

    fn comps(p: &str, icase: bool) -> Vec<Comp> {
        p.split('/')
            .map(|c| {
                if c == "**" {
                    Comp::DoubleStar
                } else {
                    Comp::Glob { toks: parse_component(c).unwrap(), icase }
                }
            })
            .collect()
    }
    fn m(p: &str, s: &str) -> bool {
        match_path(&comps(p, false), &s.split('/').collect::<Vec<_>>())
    }

    #[test]
    fn basics() {
        assert!(m("*.rs", "a.rs"));
        assert!(!m("*.rs", "a/b.rs"));
        assert!(m("**/*.rs", "b.rs"));
        assert!(m("**/*.rs", "a/x/b.rs"));
        assert!(m("a/**", "a/b/c"));
        assert!(!m("a/**", "a"));
        assert!(m("a/**/b", "a/b"));
        assert!(m("{a,ab}?", "abc"));
        assert!(m("[!a]", "b"));
        assert!(!m("*[!a]*", "b/b"));
        assert!(match_path_lenient(&comps("*[!a]*", false), &["b", "b"]));
        assert!(m(r"a\*", "a*"));
        assert!(!m(r"a\*", "ab"));
        assert_eq!(parse_component("[a"), Err(GlobError::Malformed("unclosed class")));
        assert_eq!(parse_component("a}"), Err(GlobError::Malformed("unopened alternates")));
    }
}
