//! Disk model (DESIGN §4): a `BTreeMap<path, DiskEntry>` mirrored to a real
//! directory, plus a comparer that walks the directory (content, exec bit, symlink
//! target; mtime excluded; reserved `.jj` / `.git` directories excluded) and reports
//! the first difference.
//!
//! The model is the *user's* view of a working copy: every mutation goes through
//! `DiskModel`, which applies it to the real directory and to the map at the same
//! time. Effects that the code under test is expected to have on the directory are
//! recorded with the `model_*` functions (map only) and then verified with
//! `compare()`.
//!
//! Timestamps: every content write stamps the file with a strictly increasing
//! *logical* mtime (`MTIME_BASE + tick * MTIME_STEP` seconds, i.e. in 2001), so that
//! (a) two writes never share an mtime whatever the granularity of the file system,
//! and (b) recorded mtimes are always far older than the working-copy state file,
//! which keeps the racy-timestamp logic (property C26) out of the picture while the
//! "unchanged stat => not re-read" shortcut stays exercised. `chmod` does not touch
//! the mtime, exactly like the real system call.

use std::collections::BTreeMap;
use std::ffi::CString;
use std::os::unix::ffi::OsStrExt as _;
use std::os::unix::fs::PermissionsExt as _;
use std::path::Path;
use std::path::PathBuf;

pub use crate::engine::cli::DiskEntry;
pub use crate::engine::cli::DiskState;
pub use crate::engine::cli::read_disk;
use crate::gens::content::Bytes;
use crate::model::tree::Entry;
use crate::model::tree::ModelTree;

pub const MTIME_BASE: i64 = 1_000_000_000;
pub const MTIME_STEP: i64 = 2;

/// Kind of nested-repository marker placed inside a directory.
#[derive(Debug, Clone, Copy, PartialEq, Eq, PartialOrd, Ord)]
pub enum Marker {
    JjDir,
    GitDir,
    GitFile,
}

impl Marker {
    pub fn name(self) -> &'static str {
        match self {
            Self::JjDir => ".jj",
            Self::GitDir | Self::GitFile => ".git",
        }
    }
}

pub fn to_disk_entry(entry: &Entry) -> DiskEntry {
    match entry {
        Entry::File { content, exec } => DiskEntry::File {
            content: content.0.clone(),
            exec: *exec,
        },
        Entry::Symlink(target) => DiskEntry::Symlink(target.clone()),
    }
}

pub fn to_tree_entry(entry: &DiskEntry) -> Entry {
    match entry {
        DiskEntry::File { content, exec } => Entry::File {
            content: Bytes(content.clone()),
            exec: *exec,
        },
        DiskEntry::Symlink(target) => Entry::Symlink(target.clone()),
    }
}

pub fn tree_to_disk(tree: &ModelTree) -> DiskState {
    tree.iter().map(|(p, e)| (p.clone(), to_disk_entry(e))).collect()
}

/// True if `path` lies strictly below the directory `dir` (`""` is the root).
pub fn is_below(dir: &str, path: &str) -> bool {
    if dir.is_empty() {
        return !path.is_empty();
    }
    path.len() > dir.len() && path.starts_with(dir) && path.as_bytes()[dir.len()] == b'/'
}

/// Proper ancestor directories of `path`, outermost first (root excluded).
pub fn ancestors(path: &str) -> Vec<&str> {
    path.char_indices()
        .filter(|(_, c)| *c == '/')
        .map(|(i, _)| &path[..i])
        .collect()
}

pub fn parent_dir(path: &str) -> &str {
    path.rsplit_once('/').map_or("", |(dir, _)| dir)
}

fn describe(entry: Option<&DiskEntry>) -> String {
    match entry {
        None => "absent".to_string(),
        Some(DiskEntry::File { content, exec }) => {
            format!("file(exec={exec}, {:?})", bstr::BStr::new(content))
        }
        Some(DiskEntry::Symlink(target)) => format!("symlink({target:?})"),
    }
}

/// First difference between two disk states, if any.
pub fn first_difference(expected: &DiskState, actual: &DiskState) -> Option<String> {
    for (path, want) in expected {
        let got = actual.get(path);
        if got != Some(want) {
            return Some(format!(
                "{path:?}: expected {} but the directory has {}",
                describe(Some(want)),
                describe(got)
            ));
        }
    }
    for (path, got) in actual {
        if !expected.contains_key(path) {
            return Some(format!(
                "{path:?}: expected absent but the directory has {}",
                describe(Some(got))
            ));
        }
    }
    None
}

fn set_mtime_nofollow(path: &Path, secs: i64) -> std::io::Result<()> {
    let c_path = CString::new(path.as_os_str().as_bytes())
        .map_err(|e| std::io::Error::new(std::io::ErrorKind::InvalidInput, e))?;
    let times = [
        libc::timespec {
            tv_sec: 0,
            tv_nsec: libc::UTIME_OMIT,
        },
        libc::timespec {
            tv_sec: secs as libc::time_t,
            tv_nsec: 0,
        },
    ];
    // SAFETY: `c_path` is a valid NUL-terminated string and `times` has two entries.
    let rc = unsafe {
        libc::utimensat(
            libc::AT_FDCWD,
            c_path.as_ptr(),
            times.as_ptr(),
            libc::AT_SYMLINK_NOFOLLOW,
        )
    };
    if rc == 0 {
        Ok(())
    } else {
        Err(std::io::Error::last_os_error())
    }
}

pub struct DiskModel {
    root: PathBuf,
    /// Files and symlinks below `root` outside reserved directories.
    pub entries: DiskState,
    /// Directories (never the root) that hold a nested-repository marker.
    pub markers: BTreeMap<String, Marker>,
    tick: i64,
}

type IoResult<T> = Result<T, String>;

fn io<T>(what: &str, path: &Path, r: std::io::Result<T>) -> IoResult<T> {
    r.map_err(|e| format!("harness i/o: {what} {}: {e}", path.display()))
}

impl DiskModel {
    /// `root` must exist; whatever it contains outside reserved directories must be
    /// described by `entries` (normally: nothing).
    pub fn new(root: &Path) -> Self {
        Self {
            root: root.to_path_buf(),
            entries: DiskState::new(),
            markers: BTreeMap::new(),
            tick: 0,
        }
    }

    pub fn root(&self) -> &Path {
        &self.root
    }

    pub fn fs_path(&self, path: &str) -> PathBuf {
        let mut p = self.root.clone();
        for c in path.split('/').filter(|c| !c.is_empty()) {
            p.push(c);
        }
        p
    }

    pub fn get(&self, path: &str) -> Option<&DiskEntry> {
        self.entries.get(path)
    }

    pub fn is_leaf(&self, path: &str) -> bool {
        self.entries.contains_key(path)
    }

    /// A directory as far as the model can tell: something (entry or marker) lies at
    /// or below it. Empty directories are invisible to the model.
    pub fn is_dir(&self, path: &str) -> bool {
        self.entries.keys().any(|p| is_below(path, p))
            || self.markers.keys().any(|d| d == path || is_below(path, d))
    }

    /// Directories (root excluded) that hold at least one entry or marker.
    pub fn dirs(&self) -> Vec<String> {
        let mut out: Vec<String> = vec![];
        let mut add = |d: &str| {
            if !out.iter().any(|o| o == d) {
                out.push(d.to_string());
            }
        };
        for p in self.entries.keys() {
            for a in ancestors(p) {
                add(a);
            }
        }
        for d in self.markers.keys() {
            for a in ancestors(d) {
                add(a);
            }
            add(d);
        }
        out.sort();
        out
    }

    /// The innermost marker directory at or above the parent of `path`, if any.
    pub fn marker_above<'a>(&self, path: &'a str) -> Option<&'a str> {
        ancestors(path)
            .into_iter()
            .rev()
            .find(|a| self.markers.contains_key(*a))
    }

    fn next_mtime(&mut self) -> i64 {
        self.tick += 1;
        MTIME_BASE + self.tick * MTIME_STEP
    }

    fn stamp(&mut self, path: &str) -> IoResult<()> {
        let secs = self.next_mtime();
        let p = self.fs_path(path);
        io("utimensat", &p, set_mtime_nofollow(&p, secs))
    }

    /// Removes whatever is at `path` in the real directory and in the model.
    fn clear_at(&mut self, path: &str) -> IoResult<()> {
        let p = self.fs_path(path);
        match p.symlink_metadata() {
            Ok(m) if m.is_dir() => io("remove_dir_all", &p, std::fs::remove_dir_all(&p))?,
            Ok(_) => io("remove_file", &p, std::fs::remove_file(&p))?,
            Err(_) => {}
        }
        self.entries.retain(|k, _| k != path && !is_below(path, k));
        self.markers.retain(|k, _| k != path && !is_below(path, k));
        Ok(())
    }

    /// Makes every proper ancestor of `path` a real directory, replacing files or
    /// symlinks that stand in the way (never following a symlink).
    fn make_parents(&mut self, path: &str) -> IoResult<()> {
        for a in ancestors(path) {
            let p = self.fs_path(a);
            match p.symlink_metadata() {
                Ok(m) if m.is_dir() => {}
                Ok(_) => {
                    io("remove_file", &p, std::fs::remove_file(&p))?;
                    self.entries.remove(a);
                    io("create_dir", &p, std::fs::create_dir(&p))?;
                }
                Err(_) => io("create_dir", &p, std::fs::create_dir(&p))?,
            }
        }
        Ok(())
    }

    /// Creates or replaces a regular file. An existing regular file is rewritten in
    /// place (same inode); anything else at `path` (symlink, directory subtree) and
    /// any file standing at an ancestor position is removed first.
    pub fn put_file(&mut self, path: &str, content: &[u8], exec: bool) -> IoResult<()> {
        self.make_parents(path)?;
        let p = self.fs_path(path);
        let in_place = p.symlink_metadata().is_ok_and(|m| m.is_file());
        if !in_place {
            self.clear_at(path)?;
        }
        io("write", &p, std::fs::write(&p, content))?;
        let mode = if exec { 0o755 } else { 0o644 };
        io(
            "chmod",
            &p,
            std::fs::set_permissions(&p, std::fs::Permissions::from_mode(mode)),
        )?;
        self.stamp(path)?;
        self.entries.insert(
            path.to_string(),
            DiskEntry::File {
                content: content.to_vec(),
                exec,
            },
        );
        Ok(())
    }

    pub fn put_symlink(&mut self, path: &str, target: &str) -> IoResult<()> {
        self.make_parents(path)?;
        self.clear_at(path)?;
        let p = self.fs_path(path);
        io("symlink", &p, std::os::unix::fs::symlink(target, &p))?;
        self.stamp(path)?;
        self.entries
            .insert(path.to_string(), DiskEntry::Symlink(target.to_string()));
        Ok(())
    }

    pub fn put(&mut self, path: &str, entry: &DiskEntry) -> IoResult<()> {
        match entry {
            DiskEntry::File { content, exec } => self.put_file(path, content, *exec),
            DiskEntry::Symlink(target) => self.put_symlink(path, target),
        }
    }

    /// Flips the exec bit of a regular file without touching content or mtime.
    /// Returns false if `path` is not a regular file in the model.
    pub fn chmod(&mut self, path: &str, exec: bool) -> IoResult<bool> {
        let Some(DiskEntry::File { exec: e, .. }) = self.entries.get_mut(path) else {
            return Ok(false);
        };
        *e = exec;
        let p = self.fs_path(path);
        let mode = if exec { 0o755 } else { 0o644 };
        io(
            "chmod",
            &p,
            std::fs::set_permissions(&p, std::fs::Permissions::from_mode(mode)),
        )?;
        Ok(true)
    }

    /// Removes the file at `path` or the whole directory `path`. With `prune`, parent
    /// directories left empty are removed as well (up to the root).
    pub fn remove(&mut self, path: &str, prune: bool) -> IoResult<()> {
        self.clear_at(path)?;
        if prune {
            for a in ancestors(path).into_iter().rev() {
                if std::fs::remove_dir(self.fs_path(a)).is_err() {
                    break;
                }
            }
        }
        Ok(())
    }

    /// Turns `dir` into a nested repository by creating a marker in it (the directory
    /// is created, replacing a file at that position, if necessary).
    pub fn add_marker(&mut self, dir: &str, marker: Marker) -> IoResult<()> {
        assert!(!dir.is_empty());
        let probe = format!("{dir}/{}", marker.name());
        self.make_parents(&probe)?;
        self.remove_marker(dir)?;
        let p = self.fs_path(&probe);
        match marker {
            Marker::JjDir | Marker::GitDir => {
                io("create_dir", &p, std::fs::create_dir(&p))?;
                let inner = p.join("HEAD");
                io("write", &inner, std::fs::write(&inner, b"ref: refs/heads/main\n"))?;
            }
            Marker::GitFile => io("write", &p, std::fs::write(&p, b"gitdir: /nonexistent\n"))?,
        }
        self.markers.insert(dir.to_string(), marker);
        Ok(())
    }

    pub fn remove_marker(&mut self, dir: &str) -> IoResult<()> {
        if let Some(marker) = self.markers.remove(dir) {
            let p = self.fs_path(&format!("{dir}/{}", marker.name()));
            match marker {
                Marker::JjDir | Marker::GitDir => {
                    io("remove_dir_all", &p, std::fs::remove_dir_all(&p))?;
                }
                Marker::GitFile => io("remove_file", &p, std::fs::remove_file(&p))?,
            }
        }
        Ok(())
    }

    /// Records an effect the code under test is expected to have had (map only).
    pub fn model_set(&mut self, path: &str, entry: DiskEntry) {
        self.entries.insert(path.to_string(), entry);
    }

    /// Records an expected removal by the code under test (map only).
    pub fn model_remove(&mut self, path: &str) {
        self.entries.remove(path);
    }

    /// Walks the real directory and reports the first difference from the model.
    pub fn compare(&self) -> Result<(), String> {
        let actual = read_disk(&self.root);
        match first_difference(&self.entries, &actual) {
            None => Ok(()),
            Some(d) => Err(d),
        }
    }
}
