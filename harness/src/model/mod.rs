pub mod dag;
pub mod tree;
pub mod globref;
pub mod fspath;
pub mod base_repo;
pub mod prefix_backend;
