pub mod dag;
pub mod tree;
