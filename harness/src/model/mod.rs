pub mod dag;
pub mod tree;
pub mod globref;
pub mod fspath;
