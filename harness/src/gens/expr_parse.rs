//! Drivers for the three jj expression parsers (revset, fileset, template) with
//! alias maps, shared by the C36 check and the cargo-fuzz targets (the fuzz
//! crate includes this file with `#[path]`, next to `expr_guard.rs`).
//!
//! Every driver sanitises its input first (`sanitize`): bracket nesting is capped
//! and the alias map is dropped when the syntactic expansion bound exceeds the
//! budget, so a call terminates quickly; what remains to observe is whether the
//! call returns (`Ok`/`Err`) or panics / overflows the stack.

use std::collections::HashMap;
use std::path::PathBuf;

use jj_cli::template_parser;
use jj_lib::dsl_util;
use jj_lib::fileset;
use jj_lib::fileset::FilesetAliasesMap;
use jj_lib::fileset::FilesetDiagnostics;
use jj_lib::fileset::FilesetParseContext;
use jj_lib::fileset::FilesetParseErrorKind;
use jj_lib::repo_path::RepoPathUiConverter;
use jj_lib::revset;
use jj_lib::revset::RevsetAliasesMap;
use jj_lib::revset::RevsetDiagnostics;
use jj_lib::revset::RevsetExtensions;
use jj_lib::revset::RevsetParseContext;
use jj_lib::revset::RevsetParseErrorKind;
use jj_lib::revset::RevsetWorkspaceContext;

use super::expr_guard::MAX_NESTING;
use super::expr_guard::cap_nesting;
use super::expr_guard::expansion_bound;
use super::expr_guard::parse_cost;

/// Work-unit budget of `expansion_bound` above which the alias map is dropped.
pub const EXPANSION_BUDGET: u64 = 400_000;
/// Work-unit budget (length * 3^depth) of the main revset text; the nesting cap
/// is lowered until the text fits.
pub const MAIN_PARSE_BUDGET: u64 = 3_000_000;
/// Panic locations (`file:line` suffixes) of confirmed findings on the pinned
/// tree with their known-finding signature; such panics are reported once as a
/// known finding and otherwise skipped so that the search continues.
pub const KNOWN_PANICS: &[(&str, &str)] = &[];
/// Inputs longer than this (bytes) are truncated: operator chains recurse once
/// per level in the AST builders and the alias expander, and a few thousand levels
/// overflow an 8 MiB stack (the known finding of C36, witnessed by the deep
/// battery); 2000 bytes stay well below the smallest measured threshold.
pub const MAX_TEXT_LEN: usize = 2000;

#[derive(Debug, Clone, Copy, PartialEq, Eq)]
pub enum Lang {
    Revset,
    Fileset,
    Template,
}

impl Lang {
    pub fn name(self) -> &'static str {
        match self {
            Self::Revset => "revset",
            Self::Fileset => "fileset",
            Self::Template => "template",
        }
    }
}

/// One parser input: the text, alias `(declaration, definition)` pairs and flag
/// bits (revset: bit0 = parse with a workspace context; fileset: bit0 = use the
/// bare-string fallback entry point).
#[derive(Debug, Clone, PartialEq, Eq)]
pub struct Input {
    pub text: String,
    pub aliases: Vec<(String, String)>,
    pub flags: u8,
}

fn truncate_str(s: &str, max: usize) -> &str {
    if s.len() <= max {
        return s;
    }
    let mut end = max;
    while !s.is_char_boundary(end) {
        end -= 1;
    }
    &s[..end]
}

/// What `sanitize` did to the input.
#[derive(Debug, Clone, Copy, Default)]
pub struct Sanitized {
    pub nesting_capped: bool,
    pub aliases_dropped: bool,
}

/// Makes the input safe to hand to a parser: idempotent and a pure function of
/// the input. `max_nesting` ≤ `MAX_NESTING`.
pub fn sanitize(lang: Lang, input: &Input, max_nesting: usize) -> (Input, Sanitized) {
    let max_nesting = max_nesting.min(MAX_NESTING);
    let mut info = Sanitized::default();
    let mut text = cap_nesting(truncate_str(&input.text, MAX_TEXT_LEN), max_nesting);
    if lang == Lang::Revset {
        // Long revset texts get a lower cap: cost model length * 3^depth.
        let mut cap = max_nesting;
        while cap > 0 && parse_cost(&text, true) > MAIN_PARSE_BUDGET {
            cap -= 1;
            text = cap_nesting(&text, cap);
        }
    }
    info.nesting_capped = text.len() != input.text.len();
    let mut aliases: Vec<(String, String)> = input
        .aliases
        .iter()
        .take(4)
        .map(|(decl, defn)| {
            let decl = truncate_str(decl, 200).to_string();
            let capped = cap_nesting(truncate_str(defn, MAX_TEXT_LEN / 4), max_nesting);
            info.nesting_capped |= capped.len() != defn.len();
            (decl, capped)
        })
        .collect();
    if !aliases.is_empty()
        && expansion_bound(&text, &aliases, lang == Lang::Revset, EXPANSION_BUDGET).is_none()
    {
        aliases.clear();
        info.aliases_dropped = true;
    }
    (
        Input {
            text,
            aliases,
            flags: input.flags,
        },
        info,
    )
}

/// What a driver observed (the call returned).
#[derive(Debug, Clone, Default)]
pub struct Obs {
    /// The parser produced an expression.
    pub ok: bool,
    /// The failure is a grammar-level syntax error of the main text (as opposed to
    /// an error raised by the AST builder, alias expansion or name resolution).
    pub syntax_error: bool,
    /// 1-based (line, column) of the error, from its pest rendering.
    pub error_pos: Option<(usize, usize)>,
    /// Alias declarations rejected by `AliasesMap::insert`.
    pub bad_decls: u32,
    /// Alias declarations accepted.
    pub good_decls: u32,
    /// Nesting depth of alias expansion that was observed (in the expanded tree
    /// on success, in the error chain on failure). Not measured for filesets.
    pub alias_depth: u32,
    /// The error is the alias recursion guard.
    pub recursion_error: bool,
}

fn error_pos(rendered: &str) -> Option<(usize, usize)> {
    let at = rendered.find("--> ")?;
    let rest = &rendered[at + 4..];
    let end = rest.find(|c: char| !(c.is_ascii_digit() || c == ':')).unwrap_or(rest.len());
    let (line, col) = rest[..end].split_once(':')?;
    Some((line.parse().ok()?, col.parse().ok()?))
}

mod revset_walk {
    use jj_lib::revset::ExpressionKind;
    use jj_lib::revset::ExpressionNode;

    /// Maximum nesting of `AliasExpanded` nodes.
    pub fn alias_depth(node: &ExpressionNode) -> u32 {
        match &node.kind {
            ExpressionKind::Pattern(p) => alias_depth(&p.value),
            ExpressionKind::Unary(_, arg) => alias_depth(arg),
            ExpressionKind::Binary(_, lhs, rhs) => alias_depth(lhs).max(alias_depth(rhs)),
            ExpressionKind::UnionAll(nodes) => nodes.iter().map(alias_depth).max().unwrap_or(0),
            ExpressionKind::FunctionCall(f) => f
                .args
                .iter()
                .chain(f.keyword_args.iter().map(|k| &k.value))
                .map(alias_depth)
                .max()
                .unwrap_or(0),
            ExpressionKind::AliasExpanded(_, subst) => 1 + alias_depth(subst),
            _ => 0,
        }
    }
}

mod template_walk {
    use jj_cli::template_parser::ExpressionKind;
    use jj_cli::template_parser::ExpressionNode;
    use jj_cli::template_parser::FunctionCallNode;

    fn call_depth(f: &FunctionCallNode) -> u32 {
        f.args
            .iter()
            .chain(f.keyword_args.iter().map(|k| &k.value))
            .map(alias_depth)
            .max()
            .unwrap_or(0)
    }

    /// Maximum nesting of `AliasExpanded` nodes.
    pub fn alias_depth(node: &ExpressionNode) -> u32 {
        match &node.kind {
            ExpressionKind::Pattern(p) => alias_depth(&p.value),
            ExpressionKind::Unary(_, arg) => alias_depth(arg),
            ExpressionKind::Binary(_, lhs, rhs) => alias_depth(lhs).max(alias_depth(rhs)),
            ExpressionKind::Concat(nodes) => nodes.iter().map(alias_depth).max().unwrap_or(0),
            ExpressionKind::FunctionCall(f) => call_depth(f),
            ExpressionKind::MethodCall(m) => alias_depth(&m.object).max(call_depth(&m.function)),
            ExpressionKind::Lambda(l) => alias_depth(&l.body),
            ExpressionKind::AliasExpanded(_, subst) => 1 + alias_depth(subst),
            _ => 0,
        }
    }
}

/// Fixed "now" for date patterns (2023-11-14T22:13:20Z) so runs are reproducible.
fn fixed_now() -> chrono::DateTime<chrono::FixedOffset> {
    chrono::DateTime::from_timestamp(1_700_000_000, 0)
        .expect("valid timestamp")
        .fixed_offset()
}

/// Parses `input` (already sanitised) as a revset: `revset::parse` (grammar, AST
/// builder, alias expansion, lowering of function calls).
pub fn parse_revset(input: &Input) -> Obs {
    let mut obs = Obs::default();
    let mut aliases_map = RevsetAliasesMap::new();
    for (decl, defn) in &input.aliases {
        match aliases_map.insert(decl, defn.clone(), None) {
            Ok(()) => obs.good_decls += 1,
            Err(_) => obs.bad_decls += 1,
        }
    }
    let path_converter = RepoPathUiConverter::Fs {
        cwd: PathBuf::from("/repo/sub"),
        base: PathBuf::from("/repo"),
    };
    let workspace_ctx = RevsetWorkspaceContext {
        path_converter: &path_converter,
        workspace_name: "default".as_ref(),
    };
    let fileset_aliases_map = FilesetAliasesMap::new();
    let extensions = RevsetExtensions::default();
    let context = RevsetParseContext {
        aliases_map: &aliases_map,
        local_variables: HashMap::new(),
        user_email: "test.user@example.com",
        date_pattern_context: fixed_now().into(),
        default_ignored_remote: Some("git".as_ref()),
        fileset_aliases_map: &fileset_aliases_map,
        extensions: &extensions,
        workspace: (input.flags & 1 != 0).then_some(workspace_ctx),
    };
    let mut diagnostics = RevsetDiagnostics::new();
    match revset::parse(&mut diagnostics, &input.text, &context) {
        Ok(_expression) => {
            obs.ok = true;
            if obs.good_decls > 0
                && let Ok(node) = revset::parse_program(&input.text)
                && let Ok(node) = dsl_util::expand_aliases(node, &aliases_map)
            {
                obs.alias_depth = revset_walk::alias_depth(&node);
            }
        }
        Err(err) => {
            obs.syntax_error = matches!(err.kind(), RevsetParseErrorKind::SyntaxError);
            obs.error_pos = error_pos(&err.to_string());
            let mut cur = Some(&err);
            while let Some(e) = cur {
                match e.kind() {
                    RevsetParseErrorKind::InAliasExpansion(_)
                    | RevsetParseErrorKind::InParameterExpansion(_) => obs.alias_depth += 1,
                    RevsetParseErrorKind::RecursiveAlias(_) => obs.recursion_error = true,
                    _ => {}
                }
                cur = e.origin();
            }
        }
    }
    // The string-expression entry point shares the grammar and AST builder.
    if input.flags & 2 != 0 {
        let _ = revset::parse_string_expression(&mut RevsetDiagnostics::new(), &input.text);
    }
    // Symbol-only entry point (used for bookmark / tag names).
    if input.flags & 4 != 0 {
        let _ = revset::parse_symbol(&input.text);
    }
    obs
}

/// Parses `input` (already sanitised) as a fileset: `fileset::parse` or
/// `fileset::parse_maybe_bare` (grammar, AST builder, alias expansion, pattern
/// resolution against a path converter).
pub fn parse_fileset(input: &Input) -> Obs {
    let mut obs = Obs::default();
    let mut aliases_map = FilesetAliasesMap::new();
    for (decl, defn) in &input.aliases {
        match aliases_map.insert(decl, defn.clone(), None) {
            Ok(()) => obs.good_decls += 1,
            Err(_) => obs.bad_decls += 1,
        }
    }
    let path_converter = RepoPathUiConverter::Fs {
        cwd: PathBuf::from("/repo/sub"),
        base: PathBuf::from("/repo"),
    };
    let context = FilesetParseContext {
        aliases_map: &aliases_map,
        path_converter: &path_converter,
    };
    let mut diagnostics = FilesetDiagnostics::new();
    let result = if input.flags & 1 != 0 {
        fileset::parse_maybe_bare(&mut diagnostics, &input.text, &context)
    } else {
        fileset::parse(&mut diagnostics, &input.text, &context)
    };
    match result {
        Ok(_expression) => obs.ok = true,
        Err(err) => {
            obs.syntax_error = matches!(err.kind(), FilesetParseErrorKind::SyntaxError);
            obs.error_pos = error_pos(&err.to_string());
            obs.recursion_error = matches!(err.kind(), FilesetParseErrorKind::RecursiveAlias(_));
            let mut cur: Option<&(dyn std::error::Error + 'static)> = Some(&err);
            while let Some(e) = cur {
                let text = e.to_string();
                if text.starts_with("In alias `") || text.starts_with("In function parameter `") {
                    obs.alias_depth += 1;
                }
                if text.ends_with("expanded recursively") {
                    obs.recursion_error = true;
                }
                cur = e.source();
            }
        }
    }
    obs
}

/// Parses `input` (already sanitised) as a template: `template_parser::parse`
/// (grammar, AST builder, alias expansion).
pub fn parse_template(input: &Input) -> Obs {
    use template_parser::TemplateAliasesMap;
    use template_parser::TemplateParseErrorKind;
    let mut obs = Obs::default();
    let mut aliases_map = TemplateAliasesMap::new();
    for (decl, defn) in &input.aliases {
        match aliases_map.insert(decl, defn.clone(), None) {
            Ok(()) => obs.good_decls += 1,
            Err(_) => obs.bad_decls += 1,
        }
    }
    match template_parser::parse(&input.text, &aliases_map) {
        Ok(node) => {
            obs.ok = true;
            if obs.good_decls > 0 {
                obs.alias_depth = template_walk::alias_depth(&node);
            }
        }
        Err(err) => {
            obs.syntax_error = matches!(err.kind(), TemplateParseErrorKind::SyntaxError);
            obs.error_pos = error_pos(&err.to_string());
            let mut cur = Some(&err);
            while let Some(e) = cur {
                match e.kind() {
                    TemplateParseErrorKind::InAliasExpansion(_)
                    | TemplateParseErrorKind::InParameterExpansion(_) => obs.alias_depth += 1,
                    TemplateParseErrorKind::RecursiveAlias(_) => obs.recursion_error = true,
                    _ => {}
                }
                cur = e.origin();
            }
        }
    }
    obs
}

pub fn parse(lang: Lang, input: &Input) -> Obs {
    match lang {
        Lang::Revset => parse_revset(input),
        Lang::Fileset => parse_fileset(input),
        Lang::Template => parse_template(input),
    }
}

// ---------------------------------------------------------------------------
// Byte-level decoding for the fuzz targets and for replaying their corpus.
// ---------------------------------------------------------------------------

/// Sequential byte source; implemented by `arbitrary::Unstructured` in the fuzz
/// crate and by `SliceSrc` here, with identical results for the same bytes.
pub trait ByteSrc {
    /// Next byte, 0 when exhausted.
    fn byte(&mut self) -> u8;
    /// Up to `n` next bytes.
    fn take(&mut self, n: usize) -> Vec<u8>;
    /// Everything left.
    fn rest(&mut self) -> Vec<u8>;
}

pub struct SliceSrc<'a>(pub &'a [u8]);

impl ByteSrc for SliceSrc<'_> {
    fn byte(&mut self) -> u8 {
        match self.0.split_first() {
            Some((b, rest)) => {
                self.0 = rest;
                *b
            }
            None => 0,
        }
    }
    fn take(&mut self, n: usize) -> Vec<u8> {
        let n = n.min(self.0.len());
        let (head, rest) = self.0.split_at(n);
        self.0 = rest;
        head.to_vec()
    }
    fn rest(&mut self) -> Vec<u8> {
        std::mem::take(&mut self.0).to_vec()
    }
}

/// Layout: `flags:u8`, `n:u8` (number of aliases = n*5>>8, 0..=4), then per alias
/// `decl_len:u8` (÷4, 0..=63), decl bytes, `defn_len:u8` (0..=255), defn bytes;
/// the rest is the expression text. Byte strings become text lossily (invalid
/// UTF-8 → U+FFFD), as the parsers only accept `&str`.
pub fn decode(src: &mut impl ByteSrc) -> Input {
    let flags = src.byte();
    let n_aliases = (usize::from(src.byte()) * 5) >> 8;
    let mut aliases = vec![];
    for _ in 0..n_aliases {
        let decl_len = usize::from(src.byte()) / 4;
        let decl = String::from_utf8_lossy(&src.take(decl_len)).into_owned();
        let defn_len = usize::from(src.byte());
        let defn = String::from_utf8_lossy(&src.take(defn_len)).into_owned();
        aliases.push((decl, defn));
    }
    let text = String::from_utf8_lossy(&src.rest()).into_owned();
    Input {
        text,
        aliases,
        flags,
    }
}

/// Inverse of `decode` for inputs whose parts fit the length fields (used to
/// write seed corpus files).
pub fn encode(input: &Input) -> Vec<u8> {
    let mut out = vec![input.flags];
    let n = input.aliases.len().min(4);
    // smallest byte b with b*5>>8 == n
    out.push(((n * 256).div_ceil(5)) as u8);
    for (decl, defn) in input.aliases.iter().take(4) {
        let decl = truncate_str(decl, 63);
        let defn = truncate_str(defn, 255);
        out.push((decl.len() * 4) as u8);
        out.extend_from_slice(decl.as_bytes());
        out.push(defn.len() as u8);
        out.extend_from_slice(defn.as_bytes());
    }
    out.extend_from_slice(input.text.as_bytes());
    out
}

/// The fuzz target body: decode, sanitise, parse. Returns normally or panics.
pub fn fuzz_one(lang: Lang, src: &mut impl ByteSrc) -> Obs {
    let input = decode(src);
    let (input, _) = sanitize(lang, &input, MAX_NESTING);
    parse(lang, &input)
}
