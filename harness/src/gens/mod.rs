pub mod content;
