pub mod content;
pub mod content_ws;
pub mod merge_content;
pub mod expr_guard;
pub mod expr_parse;
pub mod conflict;
