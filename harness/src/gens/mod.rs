pub mod content;
pub mod content_ws;
pub mod merge_content;
