//! File-content generators shared by C03–C06, C24, C29 (DESIGN §4).

use proptest::prelude::*;
use serde::Deserialize;
use serde::Deserializer;
use serde::Serialize;
use serde::Serializer;

/// Byte string that serialises as a Latin-1 string (readable replay files).
#[derive(Clone, PartialEq, Eq, Hash, PartialOrd, Ord, Default)]
pub struct Bytes(pub Vec<u8>);

impl std::fmt::Debug for Bytes {
    fn fmt(&self, f: &mut std::fmt::Formatter<'_>) -> std::fmt::Result {
        write!(f, "b{:?}", bstr::BStr::new(&self.0))
    }
}

impl Serialize for Bytes {
    fn serialize<S: Serializer>(&self, s: S) -> Result<S::Ok, S::Error> {
        let text: String = self.0.iter().map(|&b| b as char).collect();
        s.serialize_str(&text)
    }
}

impl<'de> Deserialize<'de> for Bytes {
    fn deserialize<D: Deserializer<'de>>(d: D) -> Result<Self, D::Error> {
        let text = String::deserialize(d)?;
        text.chars()
            .map(|c| u8::try_from(c as u32).map_err(|_| serde::de::Error::custom("non latin-1 char")))
            .collect::<Result<Vec<u8>, _>>()
            .map(Bytes)
    }
}

impl AsRef<[u8]> for Bytes {
    fn as_ref(&self) -> &[u8] {
        &self.0
    }
}

impl From<Vec<u8>> for Bytes {
    fn from(v: Vec<u8>) -> Self {
        Self(v)
    }
}
impl From<&str> for Bytes {
    fn from(v: &str) -> Self {
        Self(v.as_bytes().to_vec())
    }
}

const WORDS: &[&str] = &["a", "b", "c", "foo", "bar", "x y", "", "  a", "a  ", "q\tr"];

/// A single line body (no terminator) from a small alphabet, including
/// conflict-marker look-alikes.
pub fn line_body(markers: bool) -> BoxedStrategy<String> {
    let word = (0..WORDS.len()).prop_map(|i| WORDS[i].to_string());
    let two_words = (0..WORDS.len(), 0..WORDS.len())
        .prop_map(|(i, j)| format!("{} {}", WORDS[i], WORDS[j]));
    if markers {
        let marker = (
            prop::sample::select(vec!['<', '>', '=', '-', '+', '%', '|', '\\']),
            1usize..=20,
            prop::sample::select(vec!["", " x", " side #1", "x", " "]),
        )
            .prop_map(|(c, n, suffix)| {
                let mut s: String = std::iter::repeat_n(c, n).collect();
                s.push_str(suffix);
                s
            });
        let seven = (
            prop::sample::select(vec!['<', '>', '=', '-', '+', '%', '|', '\\']),
            7usize..=9,
            prop::sample::select(vec!["", " x", " side #1", " conflict 1 of 1"]),
        )
            .prop_map(|(c, n, suffix)| {
                let mut s: String = std::iter::repeat_n(c, n).collect();
                s.push_str(suffix);
                s
            });
        prop_oneof![5 => word, 3 => two_words, 1 => marker, 2 => seven].boxed()
    } else {
        prop_oneof![5 => word, 3 => two_words].boxed()
    }
}

#[derive(Clone, Copy, Debug, PartialEq, Eq)]
pub enum Eol {
    Lf,
    Crlf,
    Mixed,
}

fn join_lines(lines: &[String], eols: &[u8], eol: Eol, final_newline: bool) -> Vec<u8> {
    let mut out = vec![];
    for (i, l) in lines.iter().enumerate() {
        out.extend_from_slice(l.as_bytes());
        let last = i + 1 == lines.len();
        if last && !final_newline {
            break;
        }
        let crlf = match eol {
            Eol::Lf => false,
            Eol::Crlf => true,
            Eol::Mixed => eols.get(i).copied().unwrap_or(0) % 2 == 1,
        };
        if crlf {
            out.extend_from_slice(b"\r\n");
        } else {
            out.push(b'\n');
        }
    }
    out
}

/// One line-level edit applied to a base list of lines.
#[derive(Clone, Debug)]
enum Edit {
    Insert(u16, String),
    Delete(u16),
    Replace(u16, String),
    Dup(u16),
}

fn edit_strategy(markers: bool) -> impl Strategy<Value = Edit> {
    prop_oneof![
        (any::<u16>(), line_body(markers)).prop_map(|(p, l)| Edit::Insert(p, l)),
        any::<u16>().prop_map(Edit::Delete),
        (any::<u16>(), line_body(markers)).prop_map(|(p, l)| Edit::Replace(p, l)),
        any::<u16>().prop_map(Edit::Dup),
    ]
}

fn apply_edits(base: &[String], edits: &[Edit]) -> Vec<String> {
    let mut lines = base.to_vec();
    for e in edits {
        match e {
            Edit::Insert(p, l) => {
                let i = crate::engine::runner::pick(*p, lines.len() + 1);
                lines.insert(i, l.clone());
            }
            Edit::Delete(p) => {
                if !lines.is_empty() {
                    let i = crate::engine::runner::pick(*p, lines.len());
                    lines.remove(i);
                }
            }
            Edit::Replace(p, l) => {
                if !lines.is_empty() {
                    let i = crate::engine::runner::pick(*p, lines.len());
                    lines[i] = l.clone();
                }
            }
            Edit::Dup(p) => {
                if !lines.is_empty() {
                    let i = crate::engine::runner::pick(*p, lines.len());
                    let l = lines[i].clone();
                    lines.insert(i, l);
                }
            }
        }
    }
    lines
}

/// `n` related text versions: random line-edits of a common base, each with its
/// own EOL convention and final-newline choice.
pub fn related_texts(
    n: impl Strategy<Value = usize>,
    max_lines: usize,
    markers: bool,
) -> impl Strategy<Value = Vec<Bytes>> {
    (n, prop::collection::vec(line_body(markers), 0..=max_lines)).prop_flat_map(move |(n, base)| {
        let per_version = (
            prop::collection::vec(edit_strategy(markers), 0..=4),
            prop_oneof![6 => Just(Eol::Lf), 2 => Just(Eol::Crlf), 1 => Just(Eol::Mixed)],
            prop::bool::weighted(0.8),
            prop::collection::vec(any::<u8>(), 0..8),
        );
        (Just(base), prop::collection::vec(per_version, n)).prop_map(|(base, versions)| {
            versions
                .into_iter()
                .map(|(edits, eol, final_nl, eols)| {
                    let lines = apply_edits(&base, &edits);
                    Bytes(join_lines(&lines, &eols, eol, final_nl))
                })
                .collect()
        })
    })
}

/// Same as `related_texts` but all versions share one EOL convention (what a
/// real file history looks like); `crlf_prob` in percent.
pub fn related_texts_uniform_eol(
    n: impl Strategy<Value = usize>,
    max_lines: usize,
    markers: bool,
) -> impl Strategy<Value = Vec<Bytes>> {
    (
        n,
        prop::collection::vec(line_body(markers), 0..=max_lines),
        prop_oneof![6 => Just(Eol::Lf), 3 => Just(Eol::Crlf)],
    )
        .prop_flat_map(move |(n, base, eol)| {
            let per_version = (
                prop::collection::vec(edit_strategy(markers), 0..=4),
                prop::bool::weighted(0.75),
            );
            (Just(base), Just(eol), prop::collection::vec(per_version, n)).prop_map(
                |(base, eol, versions)| {
                    versions
                        .into_iter()
                        .map(|(edits, final_nl)| {
                            let lines = apply_edits(&base, &edits);
                            Bytes(join_lines(&lines, &[], eol, final_nl))
                        })
                        .collect()
                },
            )
        })
}

/// Odd shapes: empty, NUL, unicode, lone CR, raw bytes.
pub fn odd_content() -> impl Strategy<Value = Bytes> {
    prop_oneof![
        Just(Bytes(vec![])),
        Just(Bytes(vec![0])),
        Just(Bytes(b"\n".to_vec())),
        Just(Bytes(b"\r".to_vec())),
        Just(Bytes(b"a\r".to_vec())),
        Just(Bytes(b"a\rb\n".to_vec())),
        "\\PC{0,12}".prop_map(|s| Bytes(s.into_bytes())),
        "\\PC{0,6}\n\\PC{0,6}\n".prop_map(|s| Bytes(s.into_bytes())),
        prop::collection::vec(any::<u8>(), 0..24).prop_map(Bytes),
        prop::collection::vec(prop::sample::select(vec![b'a', b'b', b' ', b'\n', b'\r', b'\t', 0u8, 0xff, b'<', b'=']), 0..24)
            .prop_map(Bytes),
    ]
}

/// 1..=max inputs for diffing: mostly related texts, sometimes with odd
/// contents mixed in.
pub fn diff_inputs(max_inputs: usize) -> impl Strategy<Value = Vec<Bytes>> {
    prop_oneof![
        6 => related_texts(1..=max_inputs, 12, true),
        2 => (related_texts(1..=max_inputs, 8, false), odd_content(), any::<u16>()).prop_map(|(mut v, odd, p)| {
            let i = crate::engine::runner::pick(p, v.len());
            v[i] = odd;
            v
        }),
        1 => prop::collection::vec(odd_content(), 1..=max_inputs),
    ]
}
