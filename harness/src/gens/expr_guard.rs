//! Std-only guards shared by the C36 check and the cargo-fuzz targets (the fuzz
//! crate includes this file with `#[path]`): they keep generated revset /
//! fileset / template inputs inside the region where the parsers terminate
//! quickly, so that the only thing left to observe is "returns or crashes".
//!
//! * `cap_nesting`: the revset grammar re-parses a primary up to three times per
//!   `range_expression`, so parse time is exponential in parenthesis / function
//!   call nesting (depth 12 ≈ 5 s, depth 16 > 60 s in a debug build). Inputs are
//!   capped at a fixed bracket nesting depth.
//! * `expansion_bound`: alias expansion substitutes (clones) arguments and
//!   re-parses the alias body at every reference, so a handful of aliases can
//!   produce an exponentially large tree. A cheap syntactic upper bound decides
//!   whether the alias map is used at all.

/// Maximum bracket nesting depth of any text handed to a parser.
pub const MAX_NESTING: usize = 8;

fn is_open(c: char) -> bool {
    matches!(c, '(' | '[' | '{')
}

fn is_close(c: char) -> bool {
    matches!(c, ')' | ']' | '}')
}

/// Removes brackets so that the nesting depth never exceeds `max`. Quoting is
/// ignored on purpose (every bracket character counts), which over-approximates
/// the depth any parser can reach. An opener that would exceed the depth is
/// dropped together with the closer that matches it.
pub fn cap_nesting(text: &str, max: usize) -> String {
    let mut out = String::with_capacity(text.len());
    // true = the opener was kept
    let mut stack: Vec<bool> = vec![];
    let mut depth = 0usize;
    for c in text.chars() {
        if is_open(c) {
            if depth >= max {
                stack.push(false);
            } else {
                depth += 1;
                stack.push(true);
                out.push(c);
            }
        } else if is_close(c) {
            match stack.pop() {
                Some(true) => {
                    depth -= 1;
                    out.push(c);
                }
                Some(false) => {}
                // unbalanced closer: cannot open anything
                None => out.push(c),
            }
        } else {
            out.push(c);
        }
    }
    out
}

/// Maximum bracket depth reached in `text` (same counting as `cap_nesting`).
pub fn nesting_depth(text: &str) -> usize {
    let mut depth = 0usize;
    let mut max = 0usize;
    for c in text.chars() {
        if is_open(c) {
            depth += 1;
            max = max.max(depth);
        } else if is_close(c) {
            depth = depth.saturating_sub(1);
        }
    }
    max
}

/// Loosely parsed alias declaration. Anything the real declaration parsers
/// accept (`name`, `name(p, q)`, `name:param`, no surrounding whitespace) is
/// read the same way here.
#[derive(Debug, Clone, PartialEq, Eq)]
pub struct LooseDecl {
    pub name: String,
    pub params: Vec<String>,
}

pub fn loose_decl(decl: &str) -> LooseDecl {
    if let Some(open) = decl.find('(') {
        let name = decl[..open].trim().to_string();
        let inner = decl[open + 1..].trim_end();
        let inner = inner.strip_suffix(')').unwrap_or(inner);
        let params = inner
            .split(',')
            .map(|p| p.trim().to_string())
            .filter(|p| !p.is_empty())
            .collect();
        LooseDecl { name, params }
    } else if let Some(colon) = decl.find(':') {
        LooseDecl {
            name: decl[..colon].trim().to_string(),
            params: vec![decl[colon + 1..].trim().to_string()],
        }
    } else {
        LooseDecl {
            name: decl.trim().to_string(),
            params: vec![],
        }
    }
}

fn is_word_char(c: char) -> bool {
    c.is_ascii_alphanumeric() || c == '_' || !c.is_ascii()
}

/// Number of occurrences of `name` in `text` that could be a whole identifier
/// token in any of the three grammars: not preceded or followed by an ASCII
/// alphanumeric, `_` or non-ASCII character. Every real reference is counted
/// (identifiers are matched greedily, so a reference is never glued to another
/// identifier character); occurrences inside string literals or longer
/// identifiers such as `a-b` are over-counted.
pub fn count_refs(text: &str, name: &str) -> u64 {
    if name.is_empty() {
        return 0;
    }
    let mut n = 0;
    let mut start = 0;
    while let Some(pos) = text[start..].find(name) {
        let begin = start + pos;
        let end = begin + name.len();
        let before_ok = text[..begin].chars().next_back().is_none_or(|c| !is_word_char(c));
        let after_ok = text[end..].chars().next().is_none_or(|c| !is_word_char(c));
        if before_ok && after_ok {
            n += 1;
        }
        // advance by one character to allow overlapping matches
        start = begin + text[begin..].chars().next().map_or(1, |c| c.len_utf8());
    }
    n
}

/// Cost model of one parse of `text`: length times 3^depth when the grammar
/// backtracks per nesting level (revset), plain length otherwise.
pub fn parse_cost(text: &str, exponential: bool) -> u64 {
    let len = text.len() as u64 + 1;
    if exponential {
        len.saturating_mul(3u64.pow(nesting_depth(text).min(20) as u32))
    } else {
        len
    }
}

struct Def {
    name: String,
    /// max(1, largest number of occurrences of one parameter in the body)
    fanout: u64,
    body: String,
}

struct Bounder<'a> {
    defs: &'a [Def],
    exponential: bool,
    budget: u64,
    steps: u64,
}

impl Bounder<'_> {
    /// Upper bound of the factor by which one reference to `d` can multiply the
    /// size of its arguments.
    fn growth(&mut self, d: usize, stack: &mut Vec<usize>) -> u64 {
        self.steps += 1;
        if self.steps > 20_000 {
            return u64::MAX;
        }
        let mut g = self.defs[d].fanout;
        stack.push(d);
        for e in 0..self.defs.len() {
            if stack.contains(&e) {
                continue;
            }
            let refs = count_refs(&self.defs[d].body, &self.defs[e].name);
            if refs == 0 {
                continue;
            }
            let ge = self.growth(e, stack);
            for _ in 0..refs.min(64) {
                g = g.saturating_mul(ge);
                if g > self.budget {
                    break;
                }
            }
        }
        stack.pop();
        g
    }

    /// Upper bound of parse work plus expanded size of `text` with the
    /// definitions in `stack` being expanded (a reference to one of them is
    /// reported as a recursion error by jj, which ends the expansion).
    fn bound(&mut self, text: &str, stack: &mut Vec<usize>) -> u64 {
        self.steps += 1;
        if self.steps > 20_000 {
            return u64::MAX;
        }
        let mut sum = parse_cost(text, self.exponential);
        let mut factor = 1u64;
        for d in 0..self.defs.len() {
            if stack.contains(&d) {
                continue;
            }
            let refs = count_refs(text, &self.defs[d].name);
            if refs == 0 {
                continue;
            }
            stack.push(d);
            let body = self.defs[d].body.clone();
            let b = self.bound(&body, stack);
            stack.pop();
            sum = sum.saturating_add(b.saturating_mul(refs));
            let g = self.growth(d, stack);
            for _ in 0..refs.min(64) {
                factor = factor.saturating_mul(g);
                if factor > self.budget {
                    return u64::MAX;
                }
            }
            if sum > self.budget {
                return u64::MAX;
            }
        }
        sum.saturating_mul(factor)
    }
}

/// Upper bound (in abstract work units: characters parsed × backtracking factor,
/// plus nodes produced) of parsing `text` and expanding `aliases` in it, or
/// `None` if the bound exceeds `budget`. `exponential` selects the revset cost
/// model.
pub fn expansion_bound(
    text: &str,
    aliases: &[(String, String)],
    exponential: bool,
    budget: u64,
) -> Option<u64> {
    let defs: Vec<Def> = aliases
        .iter()
        .map(|(decl, body)| {
            let decl = loose_decl(decl);
            let fanout = decl
                .params
                .iter()
                .map(|p| count_refs(body, p))
                .max()
                .unwrap_or(0)
                .max(1);
            Def {
                name: decl.name,
                fanout,
                body: body.clone(),
            }
        })
        .collect();
    let mut bounder = Bounder {
        defs: &defs,
        exponential,
        budget,
        steps: 0,
    };
    let b = bounder.bound(text, &mut vec![]);
    (b <= budget).then_some(b)
}

#[cfg(test)]
mod tests {
    use super::*;

    #[test]
    fn cap() {
        assert_eq!(cap_nesting("((a))", 1), "(a)");
        assert_eq!(cap_nesting("((a)", 1), "(a");
        assert_eq!(cap_nesting(")(a)(", 1), ")(a)(");
        assert_eq!(nesting_depth(&cap_nesting("f(g(h(i(j(x)))))", 3)), 3);
    }

    #[test]
    fn refs() {
        assert_eq!(count_refs("x|x&ax|x_|(x)", "x"), 3);
        assert_eq!(count_refs("a-b|a-b-c", "a-b"), 2);
        assert_eq!(count_refs("éx|x", "x"), 1);
    }

    #[test]
    fn bound() {
        let aliases = vec![
            ("f(x)".to_string(), "x|x|x".to_string()),
            ("g(x)".to_string(), "f(f(f(x)))".to_string()),
        ];
        assert!(expansion_bound("g(g(g(g(a))))", &aliases, false, 100_000).is_none());
        assert!(expansion_bound("f(a)", &aliases, false, 100_000).is_some());
        let rec = vec![("a".to_string(), "a|a".to_string())];
        assert!(expansion_bound("a", &rec, false, 1000).is_some());
    }
}
