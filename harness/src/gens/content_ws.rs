//! Extra file-content generators for C03/C04: versions that differ in
//! whitespace only (so whitespace-insensitive comparators match where the exact
//! one does not), "code-like" lines with punctuation (so word / non-word
//! refinement has work to do), and versions related by word-level edits (so
//! word-level merging has work to do).

use proptest::prelude::*;

use crate::engine::runner::pick;
use crate::gens::content::Bytes;

/// One byte-level whitespace perturbation.
#[derive(Clone, Debug)]
pub struct WsOp {
    pub kind: u8,
    pub pos: u16,
}

pub fn ws_op() -> impl Strategy<Value = WsOp> {
    (
        prop_oneof![
            3 => Just(0u8), // insert ' '
            2 => Just(1u8), // insert '\t'
            3 => Just(2u8), // double an existing blank
            3 => Just(3u8), // delete an existing blank (space, tab, CR)
            2 => Just(4u8), // swap space <-> tab
            2 => Just(5u8), // LF -> CRLF at one line end
            1 => Just(6u8), // trailing blank before one line end
            1 => Just(7u8), // delete one LF (joins two lines)
            1 => Just(8u8), // insert form feed
        ],
        any::<u16>(),
    )
        .prop_map(|(kind, pos)| WsOp { kind, pos })
}

fn positions(text: &[u8], pred: impl Fn(u8) -> bool) -> Vec<usize> {
    text.iter()
        .enumerate()
        .filter(|(_, b)| pred(**b))
        .map(|(i, _)| i)
        .collect()
}

pub fn apply_ws_ops(text: &[u8], ops: &[WsOp]) -> Vec<u8> {
    let mut out = text.to_vec();
    for op in ops {
        match op.kind {
            0 | 1 | 8 => {
                let b = match op.kind {
                    0 => b' ',
                    1 => b'\t',
                    _ => 0x0c,
                };
                let i = pick(op.pos, out.len() + 1);
                out.insert(i, b);
            }
            2 => {
                let ps = positions(&out, |b| b == b' ' || b == b'\t');
                if !ps.is_empty() {
                    let i = ps[pick(op.pos, ps.len())];
                    let b = out[i];
                    out.insert(i, b);
                }
            }
            3 => {
                let ps = positions(&out, |b| b == b' ' || b == b'\t' || b == b'\r');
                if !ps.is_empty() {
                    out.remove(ps[pick(op.pos, ps.len())]);
                }
            }
            4 => {
                let ps = positions(&out, |b| b == b' ' || b == b'\t');
                if !ps.is_empty() {
                    let i = ps[pick(op.pos, ps.len())];
                    out[i] = if out[i] == b' ' { b'\t' } else { b' ' };
                }
            }
            5 | 6 => {
                let ps = positions(&out, |b| b == b'\n');
                if !ps.is_empty() {
                    let i = ps[pick(op.pos, ps.len())];
                    out.insert(i, if op.kind == 5 { b'\r' } else { b' ' });
                }
            }
            _ => {
                let ps = positions(&out, |b| b == b'\n');
                if !ps.is_empty() {
                    out.remove(ps[pick(op.pos, ps.len())]);
                }
            }
        }
    }
    out
}

/// Applies 0..=`max_ops` whitespace perturbations to every version.
pub fn ws_perturbed(
    versions: impl Strategy<Value = Vec<Bytes>>,
    max_versions: usize,
    max_ops: usize,
) -> impl Strategy<Value = Vec<Bytes>> {
    (
        versions,
        prop::collection::vec(prop::collection::vec(ws_op(), 0..=max_ops), max_versions),
    )
        .prop_map(|(versions, ops)| {
            versions
                .into_iter()
                .enumerate()
                .map(|(i, v)| match ops.get(i) {
                    Some(ops) => Bytes(apply_ws_ops(&v.0, ops)),
                    None => v,
                })
                .collect()
        })
}

const CODE_LINES: &[&str] = &[
    "fn foo(a, b) {",
    "fn bar(a) {",
    "    return a + b;",
    "    return a+b;",
    "    let x = foo(1, 2);",
    "    let x = bar(1);",
    "    x = y;",
    "    x  =  y;",
    "\tx = y;",
    "}",
    "",
    "// foo bar",
    "// foo  baz",
    "a.b.c",
    "a.b_c",
    "caf\u{e9} = 1",
];

const WORD_POOL: &[&str] = &["a", "b", "c", "foo", "bar", "x1", "_"];
const SEP_POOL: &[&str] = &[" ", " ", " ", ", ", "(", ") ", "  ", "\t", ".", " = "];

/// One tokenised line: words and the separators between them.
#[derive(Clone, Debug)]
struct WordLine {
    words: Vec<String>,
    seps: Vec<String>,
}

impl WordLine {
    fn render(&self) -> String {
        let mut s = String::new();
        for (i, w) in self.words.iter().enumerate() {
            if i > 0 {
                s.push_str(self.seps.get(i - 1).map_or(" ", |s| s.as_str()));
            }
            s.push_str(w);
        }
        s
    }
}

fn word_line(simple_seps: bool) -> impl Strategy<Value = WordLine> {
    let sep = if simple_seps {
        Just(" ".to_string()).boxed()
    } else {
        prop::sample::select(SEP_POOL).prop_map(str::to_string).boxed()
    };
    (1usize..=5).prop_flat_map(move |n| {
        (
            prop::collection::vec(prop::sample::select(WORD_POOL).prop_map(str::to_string), n),
            prop::collection::vec(sep.clone(), n - 1),
        )
            .prop_map(|(words, seps)| WordLine { words, seps })
    })
}

#[derive(Clone, Debug)]
enum WordEdit {
    /// Replace word (line, word index) by a pool word.
    Replace(u16, u16, String),
    /// Insert a word after (line, word index).
    InsertWord(u16, u16, String),
    /// Delete word (line, word index) (never the only word).
    DeleteWord(u16, u16),
    /// Replace a separator by another.
    Sep(u16, u16, String),
    InsertLine(u16, WordLine),
    DeleteLine(u16),
}

fn word_edit(simple_seps: bool) -> impl Strategy<Value = WordEdit> {
    let w = || prop::sample::select(WORD_POOL).prop_map(str::to_string);
    let sep = if simple_seps {
        Just(" ".to_string()).boxed()
    } else {
        prop::sample::select(SEP_POOL).prop_map(str::to_string).boxed()
    };
    prop_oneof![
        6 => (any::<u16>(), any::<u16>(), w()).prop_map(|(l, i, s)| WordEdit::Replace(l, i, s)),
        2 => (any::<u16>(), any::<u16>(), w()).prop_map(|(l, i, s)| WordEdit::InsertWord(l, i, s)),
        2 => (any::<u16>(), any::<u16>()).prop_map(|(l, i)| WordEdit::DeleteWord(l, i)),
        1 => (any::<u16>(), any::<u16>(), sep).prop_map(|(l, i, s)| WordEdit::Sep(l, i, s)),
        1 => (any::<u16>(), word_line(simple_seps)).prop_map(|(l, wl)| WordEdit::InsertLine(l, wl)),
        1 => any::<u16>().prop_map(WordEdit::DeleteLine),
    ]
}

fn apply_word_edits(base: &[WordLine], edits: &[WordEdit]) -> Vec<WordLine> {
    let mut lines = base.to_vec();
    for e in edits {
        match e {
            WordEdit::InsertLine(l, wl) => {
                let i = pick(*l, lines.len() + 1);
                lines.insert(i, wl.clone());
            }
            _ if lines.is_empty() => {}
            WordEdit::DeleteLine(l) => {
                let i = pick(*l, lines.len());
                lines.remove(i);
            }
            WordEdit::Replace(l, i, s) => {
                let li = pick(*l, lines.len());
                let line = &mut lines[li];
                let i = pick(*i, line.words.len());
                line.words[i] = s.clone();
            }
            WordEdit::InsertWord(l, i, s) => {
                let li = pick(*l, lines.len());
                let line = &mut lines[li];
                let i = pick(*i, line.words.len());
                line.words.insert(i + 1, s.clone());
                line.seps.insert(i, " ".to_string());
            }
            WordEdit::DeleteWord(l, i) => {
                let li = pick(*l, lines.len());
                let line = &mut lines[li];
                if line.words.len() > 1 {
                    let i = pick(*i, line.words.len());
                    line.words.remove(i);
                    line.seps.remove(i.min(line.seps.len() - 1));
                }
            }
            WordEdit::Sep(l, i, s) => {
                let li = pick(*l, lines.len());
                let line = &mut lines[li];
                if !line.seps.is_empty() {
                    let i = pick(*i, line.seps.len());
                    line.seps[i] = s.clone();
                }
            }
        }
    }
    lines
}

/// `n` versions of a short text (0..=`max_lines` lines of 1-5 words) related by
/// *word-level* edits of a common base: the same word is often changed in the
/// same way by two versions while another word of the same line differs.
/// `simple_seps`: words are separated by single spaces only.
pub fn related_word_texts(
    n: impl Strategy<Value = usize>,
    max_lines: usize,
    max_edits: usize,
    simple_seps: bool,
) -> impl Strategy<Value = Vec<Bytes>> {
    (n, prop::collection::vec(word_line(simple_seps), 0..=max_lines)).prop_flat_map(
        move |(n, base)| {
            let per_version = (
                prop::collection::vec(word_edit(simple_seps), 0..=max_edits),
                prop::bool::weighted(0.85),
            );
            (Just(base), prop::collection::vec(per_version, n)).prop_map(|(base, versions)| {
                versions
                    .into_iter()
                    .map(|(edits, final_nl)| {
                        let lines = apply_word_edits(&base, &edits);
                        let mut out = lines.iter().map(WordLine::render).collect::<Vec<_>>().join("\n");
                        if final_nl && !lines.is_empty() {
                            out.push('\n');
                        }
                        Bytes(out.into_bytes())
                    })
                    .collect()
            })
        },
    )
}

/// `n` versions built from a pool of code-like lines (punctuation, indentation
/// variants, a non-ASCII word), each version a random edit of a common base.
pub fn related_code_texts(
    n: impl Strategy<Value = usize>,
    max_lines: usize,
) -> impl Strategy<Value = Vec<Bytes>> {
    let line = || prop::sample::select(CODE_LINES).prop_map(str::to_string);
    (n, prop::collection::vec(line(), 0..=max_lines)).prop_flat_map(move |(n, base)| {
        // (kind, position, new line)
        let edit = (0u8..4, any::<u16>(), line());
        let per_version = (
            prop::collection::vec(edit, 0..=4),
            prop::bool::weighted(0.85),
            prop::bool::weighted(0.15),
        );
        (Just(base), prop::collection::vec(per_version, n)).prop_map(|(base, versions)| {
            versions
                .into_iter()
                .map(|(edits, final_nl, crlf)| {
                    let mut lines = base.clone();
                    for (kind, pos, new) in edits {
                        match kind {
                            0 => {
                                let i = pick(pos, lines.len() + 1);
                                lines.insert(i, new);
                            }
                            _ if lines.is_empty() => {}
                            1 => {
                                let i = pick(pos, lines.len());
                                lines.remove(i);
                            }
                            2 => {
                                let i = pick(pos, lines.len());
                                lines[i] = new;
                            }
                            _ => {
                                // move a line to the front (crossing matches)
                                let i = pick(pos, lines.len());
                                let l = lines.remove(i);
                                lines.insert(0, l);
                            }
                        }
                    }
                    let eol = if crlf { "\r\n" } else { "\n" };
                    let mut out = lines.join(eol);
                    if final_nl && !lines.is_empty() {
                        out.push_str(eol);
                    }
                    Bytes(out.into_bytes())
                })
                .collect()
        })
    })
}
