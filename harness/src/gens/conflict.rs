//! Generators for file-conflict inputs shared by C05/C06: term contents of a
//! `Merge<Vec<u8>>` with 2..4 sides and conflict labels.

use proptest::prelude::*;

use super::content::Bytes;
use super::content::odd_content;
use super::content::related_texts;
use super::content::related_texts_uniform_eol;
use crate::engine::runner::pick;

/// Number of terms of a merge with 2, 3 or 4 sides.
pub fn num_terms() -> impl Strategy<Value = usize> + Clone {
    prop_oneof![5 => Just(3usize), 3 => Just(5usize), 2 => Just(7usize)]
}

/// Tail mutation applied to one term: drop the final newline and/or leave a lone
/// trailing CR (the shapes the "spread the EOL" logic of conflict
/// materialization has to get right).
#[derive(Clone, Copy, Debug)]
enum Tail {
    /// `...\n` -> `...`
    DropEol,
    /// `...\n` or `...\r\n` -> `...\r`
    LoneCr,
    /// `...` -> `...\r\n`
    Crlf,
    /// term becomes empty
    Empty,
}

fn apply_tail(content: &mut Vec<u8>, tail: Tail) {
    let strip_eol = |c: &mut Vec<u8>| {
        if c.last() == Some(&b'\n') {
            c.pop();
            if c.last() == Some(&b'\r') {
                c.pop();
            }
        }
    };
    match tail {
        Tail::DropEol => {
            if c_last_is(content, b'\n') {
                content.pop();
            }
        }
        Tail::LoneCr => {
            strip_eol(content);
            content.push(b'\r');
        }
        Tail::Crlf => {
            strip_eol(content);
            content.extend_from_slice(b"\r\n");
        }
        Tail::Empty => content.clear(),
    }
}

fn c_last_is(c: &[u8], b: u8) -> bool {
    c.last() == Some(&b)
}

fn tail_strategy() -> impl Strategy<Value = Tail> {
    prop_oneof![
        4 => Just(Tail::DropEol),
        3 => Just(Tail::LoneCr),
        1 => Just(Tail::Crlf),
        2 => Just(Tail::Empty),
    ]
}

/// Lines that a word-level merge can join into a longer run of one marker
/// character: base `cccc b cccc d cccc`-like shapes are produced by the
/// caller; here we only build the three versions of one such line.
fn join_line(c: char, run: usize) -> (String, String, String) {
    let r: String = std::iter::repeat_n(c, run).collect();
    // Word tokens `p`/`q` separate the runs; one side deletes `p`, the other `q`.
    let base = format!("{r}p{r}q{r}");
    let side1 = format!("{r}{r}q{r}");
    let side2 = format!("{r}p{r}{r}");
    (base, side1, side2)
}

/// Three-term inputs (side1, base, side2) in which a word-level merge resolves
/// lines to runs of marker characters that no input contains, next to one
/// genuinely conflicting line. Marker templates are weighted towards the
/// sequences that form a syntactically valid conflict.
pub fn word_join_terms() -> impl Strategy<Value = Vec<Bytes>> {
    let chars = vec!['<', '>', '+', '-', '%', '|', '=', '\\'];
    let template = prop_oneof![
        3 => Just(vec!['<', '|', '=', '>']),
        3 => Just(vec!['<', '+', '-', '+', '>']),
        2 => Just(vec!['<', '%', '+', '>']),
        2 => Just(vec!['<', '-', '+', '+', '>']),
        4 => prop::collection::vec(prop::sample::select(chars), 1..=6),
    ];
    (
        template,
        3usize..=6,
        prop::collection::vec(prop::sample::select(vec!["a", "b", "x y", ""]), 0..=7),
        any::<u16>(),
        any::<bool>(),
    )
        .prop_map(|(template, run, fillers, conflict_pos, conflict_first)| {
            let mut base = vec![];
            let mut side1 = vec![];
            let mut side2 = vec![];
            let mut fillers = fillers.into_iter();
            let mut lines: Vec<(String, String, String)> = vec![];
            for c in template {
                lines.push(join_line(c, run));
                if let Some(f) = fillers.next() {
                    lines.push((f.to_string(), f.to_string(), f.to_string()));
                }
            }
            // One real conflict, before or after or in between, fenced by
            // unchanged lines so that it forms its own line-level hunk.
            let same = |s: &str| (s.to_string(), s.to_string(), s.to_string());
            let conflict = ("base".to_string(), "left".to_string(), "right".to_string());
            let pos = if conflict_first {
                0
            } else {
                pick(conflict_pos, lines.len() + 1)
            };
            lines.splice(pos..pos, [same("fence"), conflict, same("fence")]);
            for (b, s1, s2) in lines {
                for (out, l) in [(&mut base, b), (&mut side1, s1), (&mut side2, s2)] {
                    out.extend_from_slice(l.as_bytes());
                    out.push(b'\n');
                }
            }
            vec![Bytes(side1), Bytes(base), Bytes(side2)]
        })
}

/// Term contents (adds at even, removes at odd positions) of a file merge with
/// 2..4 sides.
pub fn conflict_terms() -> BoxedStrategy<Vec<Bytes>> {
    let tails = || prop::collection::vec((any::<u16>(), tail_strategy()), 1..=3);
    prop_oneof![
        // A realistic history: one EOL convention, marker look-alikes.
        5 => related_texts_uniform_eol(num_terms(), 10, true),
        // Independent EOL conventions per term.
        3 => related_texts(num_terms(), 10, true),
        // No look-alikes: plain conflicts with short markers.
        1 => related_texts_uniform_eol(num_terms(), 8, false),
        // Tail shapes: missing final newline, lone trailing CR, empty terms.
        4 => (related_texts_uniform_eol(num_terms(), 8, true), tails()).prop_map(
            |(mut v, tails)| {
                for (p, tail) in tails {
                    let i = pick(p, v.len());
                    apply_tail(&mut v[i].0, tail);
                }
                v
            }
        ),
        2 => (related_texts(num_terms(), 6, true), tails()).prop_map(|(mut v, tails)| {
            for (p, tail) in tails {
                let i = pick(p, v.len());
                apply_tail(&mut v[i].0, tail);
            }
            v
        }),
        // Odd contents (NUL, unicode, raw bytes, lone CR) mixed in or throughout.
        2 => (related_texts(num_terms(), 6, true), odd_content(), any::<u16>()).prop_map(
            |(mut v, odd, p)| {
                let i = pick(p, v.len());
                v[i] = odd;
                v
            }
        ),
        1 => num_terms().prop_flat_map(|n| prop::collection::vec(odd_content(), n)),
        1 => word_join_terms(),
    ]
    .boxed()
}

/// One conflict label from the domain `Commit::conflict_label` produces: no
/// control characters (in particular no newline); may be empty (= no label for
/// that term), may look like a marker, may contain unicode.
pub fn label() -> impl Strategy<Value = String> {
    prop_oneof![
        2 => Just(String::new()),
        4 => ("[k-z]{8}", "[0-9a-f]{8}", "\\PC{0,16}")
            .prop_map(|(change, commit, subject)| format!("{change} {commit} \"{}\"", subject.trim())),
        2 => ("[k-z]{8}", "[0-9a-f]{8}").prop_map(|(change, commit)| format!("{change} {commit}")),
        1 => prop::sample::select(vec![
            "<<<<<<<", ">>>>>>> x", "=======", "+++++++ side #1", "%%%%%%%%%%%%%%%%",
            "(no terminating newline)", " ", "conflict 1 of 1 ends",
        ])
        .prop_map(str::to_string),
        2 => "\\PC{0,24}",
    ]
}

/// Labels for a merge with `n` terms: none, or one per term.
pub fn labels(n: usize) -> impl Strategy<Value = Vec<String>> {
    prop_oneof![
        2 => Just(vec![]),
        3 => prop::collection::vec(label(), n),
    ]
}
