//! Generators of multi-way file-content merges (`adds`/`removes` interleaved as
//! in `Merge::from_vec`: add0, remove0, add1, ...) for C04.

use proptest::prelude::*;

use crate::engine::runner::pick;
use crate::gens::content::Bytes;
use crate::gens::content::odd_content;
use crate::gens::content::related_texts;
use crate::gens::content::related_texts_uniform_eol;
use crate::gens::content_ws::related_word_texts;

/// Number of add/remove pairs: 1 (3 terms) .. 4 (9 terms, rare).
pub fn num_pairs() -> impl Strategy<Value = usize> {
    prop_oneof![5 => Just(1usize), 5 => Just(2usize), 3 => Just(3usize), 1 => Just(4usize)]
}

/// `n` related contents of one of several shapes.
pub fn contents(n: usize) -> BoxedStrategy<Vec<Bytes>> {
    prop_oneof![
        4 => related_texts_uniform_eol(Just(n), 10, false),
        2 => related_texts(Just(n), 10, true),
        3 => related_word_texts(Just(n), 4, 3, true),
        2 => related_word_texts(Just(n), 5, 3, false),
        // longer texts with sparse edits: many merges resolve hunk by hunk
        3 => related_word_texts(Just(n), 12, 2, true),
        // one odd / binary content mixed in
        1 => (related_texts_uniform_eol(Just(n), 6, false), odd_content(), any::<u16>()).prop_map(
            |(mut v, odd, p)| {
                let i = pick(p, v.len());
                v[i] = odd;
                v
            }
        ),
        1 => prop::collection::vec(odd_content(), n),
    ]
    .boxed()
}

fn shuffle<T>(v: &mut [T], seeds: &[u16]) {
    let mut it = seeds.iter().copied().chain(std::iter::repeat(0));
    for i in (1..v.len()).rev() {
        let j = pick(it.next().unwrap(), i + 1);
        v.swap(i, j);
    }
}

fn interleave(adds: Vec<Bytes>, removes: Vec<Bytes>) -> Vec<Bytes> {
    assert_eq!(adds.len(), removes.len() + 1);
    let mut out = Vec::with_capacity(adds.len() + removes.len());
    let mut removes = removes.into_iter();
    for (i, a) in adds.into_iter().enumerate() {
        if i > 0 {
            out.push(removes.next().unwrap());
        }
        out.push(a);
    }
    out
}

/// *Cancelling*: k add/remove pairs share content, one side is left over; pair
/// members and the leftover sit at random positions. Returns the terms.
pub fn cancelling() -> impl Strategy<Value = Vec<Bytes>> {
    num_pairs().prop_flat_map(|k| {
        (
            contents(k + 1),
            prop::collection::vec(any::<u16>(), k + 1),
            prop::collection::vec(any::<u16>(), k),
        )
            .prop_map(move |(cs, add_seeds, remove_seeds)| {
                // cs[..k] are the pair contents, cs[k] is the leftover side
                let mut adds = cs.clone();
                let mut removes = cs[..k].to_vec();
                shuffle(&mut adds, &add_seeds);
                shuffle(&mut removes, &remove_seeds);
                interleave(adds, removes)
            })
    })
}

/// *Identical sides*: every add has the same content; removes are all equal to
/// each other, all equal to the sides, or unrelated.
pub fn identical_sides() -> impl Strategy<Value = Vec<Bytes>> {
    num_pairs().prop_flat_map(|k| {
        (contents(k + 1), 0u8..4).prop_map(move |(cs, shape)| {
            let side = cs[k].clone();
            let adds = vec![side.clone(); k + 1];
            let removes: Vec<Bytes> = match shape {
                0 => vec![cs[0].clone(); k],
                1 => vec![side; k],
                _ => cs[..k].to_vec(),
            };
            interleave(adds, removes)
        })
    })
}

/// *General*: independent edits of a common base at every position; with
/// `copies` some terms are overwritten by copies of other terms (partial
/// cancellation, repeated sides).
pub fn general() -> impl Strategy<Value = Vec<Bytes>> {
    num_pairs().prop_flat_map(|k| {
        (
            contents(2 * k + 1),
            prop::collection::vec((any::<u16>(), any::<u16>()), 0..=2),
            prop::bool::weighted(0.4),
        )
            .prop_map(|(mut cs, copies, do_copy)| {
                if do_copy {
                    for (from, to) in copies {
                        let from = pick(from, cs.len());
                        let to = pick(to, cs.len());
                        cs[to] = cs[from].clone();
                    }
                }
                cs
            })
    })
}
