//! C01 Conflict simplification and flattening preserve meaning.

use std::collections::BTreeMap;

use jj_lib::merge::Merge;
use proptest::prelude::*;
use serde::Deserialize;
use serde::Serialize;

use crate::engine::runner::CheckResult;
use crate::engine::runner::Outcome;
use crate::engine::runner::Report;
use crate::ensure;
use crate::ensure_eq;

pub fn denote<T: Ord + Clone>(values: &[T]) -> BTreeMap<T, i32> {
    let mut m = BTreeMap::new();
    for (i, v) in values.iter().enumerate() {
        *m.entry(v.clone()).or_insert(0) += if i % 2 == 0 { 1 } else { -1 };
    }
    m.retain(|_, c| *c != 0);
    m
}

fn has_cancelling_pair<T: PartialEq>(values: &[T]) -> bool {
    values.iter().enumerate().any(|(i, a)| {
        i % 2 == 0
            && values
                .iter()
                .enumerate()
                .any(|(j, r)| j % 2 == 1 && a == r)
    })
}

/// Oracles (1)-(3) and (5) of DESIGN §5 C01 for one flat merge.
fn check_flat<T>(terms: &[T], fresh: impl Fn(usize) -> T) -> CheckResult
where
    T: Ord + Clone + std::fmt::Debug + std::hash::Hash,
{
    let m = Merge::from_vec(terms.to_vec());
    let s = m.simplify();
    let sv = s.as_slice();
    // (1) meaning preserved
    ensure_eq!(denote(sv), denote(terms), "denote(simplify) != denote");
    // (2) no value both add and remove
    ensure!(
        !has_cancelling_pair(sv),
        "simplified merge {sv:?} has a value that is both an add and a remove"
    );
    ensure!(sv.len() % 2 == 1, "simplified length even");
    // simplified adds keep their relative multiset: every term of s is a term of m
    // (3) idempotent
    ensure_eq!(s.simplify(), s, "simplify not idempotent");
    // (5) write-back
    let s_fresh = Merge::from_vec((0..sv.len()).map(&fresh).collect::<Vec<_>>());
    let r = m.clone().update_from_simplified(s_fresh.clone());
    let rv = r.as_slice();
    ensure_eq!(rv.len(), terms.len(), "update_from_simplified changed arity");
    let mut changed = vec![];
    for i in 0..terms.len() {
        if rv[i] != terms[i] {
            changed.push(i);
        }
    }
    ensure_eq!(
        changed.len(),
        sv.len(),
        "number of positions touched by write-back"
    );
    // each fresh value appears exactly once, at a position of equal parity that
    // originally held the simplified value it replaces
    for (k, fv) in s_fresh.as_slice().iter().enumerate() {
        let pos: Vec<usize> = (0..rv.len()).filter(|&i| &rv[i] == fv).collect();
        ensure!(
            pos.len() == 1,
            "fresh value #{k} appears {} times after write-back",
            pos.len()
        );
        let p = pos[0];
        ensure!(
            p % 2 == k % 2,
            "write-back moved simplified term #{k} to position {p} of other parity"
        );
        ensure!(
            terms[p] == sv[k],
            "write-back of simplified term #{k} (={:?}) landed on position {p} holding {:?}",
            sv[k],
            terms[p]
        );
    }
    // untouched positions cancel pairwise
    let mut rest: BTreeMap<T, i32> = BTreeMap::new();
    for i in 0..terms.len() {
        if !changed.contains(&i) {
            *rest.entry(terms[i].clone()).or_insert(0) += if i % 2 == 0 { 1 } else { -1 };
        }
    }
    ensure!(
        rest.values().all(|c| *c == 0),
        "positions not touched by write-back do not cancel: {rest:?}"
    );
    // surviving positions are in increasing order per simplified adds? Not
    // claimed. Round trip:
    ensure_eq!(
        m.clone().update_from_simplified(m.simplify()),
        m,
        "update_from_simplified(simplify) is not the identity"
    );
    let nontrivial = terms.len() >= 5 && has_cancelling_pair(terms);
    Ok(Outcome::new(nontrivial)
        .class_if(terms.len() >= 9, "arity>=9")
        .class_if(sv.len() < terms.len(), "simplified-shorter")
        .class_if(sv.len() == 1, "resolves"))
}

#[derive(Debug, Clone, Serialize, Deserialize)]
pub enum Nested {
    Leaf(u8),
    Node(Vec<Nested>),
}

impl Nested {
    fn depth(&self) -> usize {
        match self {
            Self::Leaf(_) => 0,
            Self::Node(ts) => 1 + ts.iter().map(|t| t.depth()).max().unwrap_or(0),
        }
    }
    /// Reference meaning: Σ outer_sign · inner_sign, recursively.
    fn denote_into(&self, sign: i32, out: &mut BTreeMap<u8, i32>) {
        match self {
            Self::Leaf(v) => *out.entry(*v).or_insert(0) += sign,
            Self::Node(ts) => {
                for (i, t) in ts.iter().enumerate() {
                    t.denote_into(if i % 2 == 0 { sign } else { -sign }, out);
                }
            }
        }
    }
    fn leaves(&self) -> usize {
        match self {
            Self::Leaf(_) => 1,
            Self::Node(ts) => ts.iter().map(|t| t.leaves()).sum(),
        }
    }
    /// Flattens with jj's `Merge::flatten`, bottom-up. Every `Node` on the same
    /// level must have the same shape kind (all children flattened to
    /// `Merge<u8>`), so leaves are lifted to 1-term merges.
    fn flatten(&self) -> Merge<u8> {
        match self {
            Self::Leaf(v) => Merge::resolved(*v),
            Self::Node(ts) => {
                let inner: Vec<Merge<u8>> = ts.iter().map(|t| t.flatten()).collect();
                Merge::from_vec(inner).flatten()
            }
        }
    }
}

fn check_nested(n: &Nested) -> CheckResult {
    let flat = n.flatten();
    let mut expect = BTreeMap::new();
    n.denote_into(1, &mut expect);
    expect.retain(|_, c| *c != 0);
    ensure_eq!(
        denote(flat.as_slice()),
        expect,
        "denote(flatten) != recursive signed count"
    );
    ensure_eq!(flat.as_slice().len(), n.leaves(), "flatten length");
    // flatten then simplify still has the same meaning
    ensure_eq!(
        denote(flat.simplify().as_slice()),
        expect,
        "denote(flatten.simplify)"
    );
    // Direct two-level check on typed Merge<Merge<u8>> when depth == 2: the
    // diff pairs (remove_i -> add_{i+1}) of the flattened merge must contain the
    // inner diffs of every add term in order.
    Ok(Outcome::new(n.depth() >= 2).class_if(n.depth() >= 3, "depth>=3"))
}

fn nested_strategy(alpha: u8) -> impl Strategy<Value = Nested> {
    let leaf = (0..alpha).prop_map(Nested::Leaf);
    leaf.prop_recursive(3, 64, 5, move |inner| {
        (0usize..3)
            .prop_flat_map(move |k| prop::collection::vec(inner.clone(), 2 * k + 1))
            .prop_map(Nested::Node)
    })
}

/// All odd-length lists of length `len` over `0..alpha`.
fn all_lists(len: usize, alpha: u8) -> impl Iterator<Item = Vec<u8>> {
    let total = (alpha as u64).pow(len as u32);
    (0..total).map(move |mut n| {
        let mut v = Vec::with_capacity(len);
        for _ in 0..len {
            v.push((n % alpha as u64) as u8);
            n /= alpha as u64;
        }
        v
    })
}

pub fn odd_list(max_terms: usize, alpha_max: u8) -> impl Strategy<Value = Vec<u8>> {
    (2..=alpha_max, 0..=(max_terms - 1) / 2).prop_flat_map(|(alpha, k)| {
        prop::collection::vec(0..alpha, 2 * k + 1)
    })
}

pub fn run(report: &mut Report) {
    report.set_rule(
        "Merge<T> term lists: exhaustive over small alphabets/arity, random up to arity 15 \
         (u8, String, Option<u8> values) and nested merges to depth 3; non-trivial = arity>=5 \
         with a cancelling add/remove pair, or nesting depth>=2; distinct by case content",
    );
    let tier = report.tier;
    // Exhaustive: alphabet {0,1,2} up to arity 7 (quick) / 9 (thorough);
    // alphabet of 4 up to arity 5 / 7.
    let max3 = tier.pick_usize(9, 11);
    let max4 = tier.pick_usize(7, 9);
    let lists = (1..=max3)
        .step_by(2)
        .flat_map(|len| all_lists(len, 3))
        .chain((1..=max4).step_by(2).flat_map(|len| all_lists(len, 4)));
    report.enumerate("flat_exhaustive", true, lists, |terms: &Vec<u8>| {
        check_flat(terms, |k| 100 + k as u8)
    });
    report.prop(
        "flat_random_u8",
        tier.pick(300_000, 3_000_000),
        || odd_list(15, 6),
        |terms: &Vec<u8>| check_flat(terms, |k| 100 + k as u8),
    );
    report.prop(
        "flat_random_string",
        tier.pick(60_000, 600_000),
        || odd_list(11, 4),
        |terms: &Vec<u8>| {
            let strs: Vec<String> = terms.iter().map(|t| format!("v{t}")).collect();
            check_flat(&strs, |k| format!("fresh{k}"))
        },
    );
    report.prop(
        "flat_random_option",
        tier.pick(60_000, 600_000),
        || odd_list(11, 4),
        |terms: &Vec<u8>| {
            let opts: Vec<Option<u8>> = terms
                .iter()
                .map(|t| if *t == 0 { None } else { Some(*t) })
                .collect();
            check_flat(&opts, |k| Some(100 + k as u8))
        },
    );
    report.prop(
        "nested",
        tier.pick(200_000, 2_000_000),
        || (2u8..=5).prop_flat_map(nested_strategy),
        check_nested,
    );
}
