//! C20 Shortest unique id prefixes are unique, minimal and resolvable.
//!
//! Commit ids are chosen by the generator through `model::prefix_backend` (20-byte
//! ids sharing 0..=39 hex digits with earlier ids), change ids through
//! `CommitBuilder::set_change_id` (16 bytes, sharing 0..=31 digits, or equal to an
//! earlier change = several commits per change). Commits are spread over several
//! transactions (several index segments), some are hidden, bookmarks/tags are named
//! after id prefixes, and a generated subset is used as disambiguation revset.
//! Oracle: brute force over the id lists.

use std::collections::BTreeMap;
use std::collections::BTreeSet;
use std::sync::Arc;

use jj_lib::backend::ChangeId;
use jj_lib::backend::CommitId;
use jj_lib::commit::Commit;
use jj_lib::config::ConfigLayer;
use jj_lib::config::ConfigSource;
use jj_lib::default_index::DefaultReadonlyIndex;
use jj_lib::hex_util;
use jj_lib::id_prefix::IdPrefixContext;
use jj_lib::id_prefix::IdPrefixIndex;
use jj_lib::index::ResolvedChangeState;
use jj_lib::index::ResolvedChangeTargets;
use jj_lib::object_id::HexPrefix;
use jj_lib::object_id::ObjectId as _;
use jj_lib::object_id::PrefixResolution;
use jj_lib::op_store::RefTarget;
use jj_lib::repo::ReadonlyRepo;
use jj_lib::repo::Repo;
use jj_lib::revset::RevsetExpression;
use jj_lib::revset::RevsetResolutionError;
use jj_lib::revset::SymbolResolver;
use jj_lib::revset::SymbolResolverExtension;
use jj_lib::settings::UserSettings;
use pollster::FutureExt as _;
use proptest::prelude::*;
use serde::Deserialize;
use serde::Serialize;

use crate::engine::runner::CheckResult;
use crate::engine::runner::Outcome;
use crate::engine::runner::Report;
use crate::engine::runner::Violation;
use crate::engine::runner::pick;
use crate::ensure;
use crate::ensure_eq;
use crate::model::dag::signature;
use crate::model::prefix_backend::CHANGE_ID_LENGTH;
use crate::model::prefix_backend::COMMIT_ID_LENGTH;
use crate::model::prefix_backend::PrefixRepo;
use crate::model::prefix_backend::description_for_id;


// ---------------------------------------------------------------------------
// Case
// ---------------------------------------------------------------------------

/// How an id is derived from the ids generated before it.
#[derive(Debug, Clone, Serialize, Deserialize)]
pub struct IdSpec {
    /// Selects the id to share a prefix with (earlier ids incl. the root's
    /// all-zero id); the last slot means "share nothing" (fresh id).
    pub base: u16,
    /// Number of leading hex digits copied from the base; the next digit is
    /// forced to differ, so exactly this many digits are shared with the base.
    pub share: u8,
    /// Material for the remaining digits.
    pub fresh: Vec<u8>,
}

#[derive(Debug, Clone, Serialize, Deserialize)]
pub struct CommitSpec {
    pub id: IdSpec,
    /// `Some`: reuse the change id of an earlier commit (several commits per
    /// change); `None`: derive a new one from `change`.
    pub same_change_as: Option<u16>,
    pub change: IdSpec,
    /// Parent among the root and the earlier commits that are not hidden.
    pub parent: u16,
    /// Hidden commits are leaves that are removed from the visible heads in the
    /// transaction that wrote them; they stay indexed.
    pub hidden: bool,
}

#[derive(Debug, Clone, Serialize, Deserialize)]
pub struct RefSpec {
    pub of: u16,
    /// Name after the change id (reverse hex) instead of the commit id (hex).
    pub change: bool,
    /// First name length relative to the exact shortest prefix length.
    pub start_rel: i8,
    /// Number of consecutive lengths that get a ref.
    pub run: u8,
    /// Bit k: the k-th name of the run is a tag (else a bookmark).
    pub tags: u8,
}

#[derive(Debug, Clone, Serialize, Deserialize)]
pub struct Case {
    pub commits: Vec<CommitSpec>,
    /// Sizes of the transactions after the first one, allocated from the end of
    /// the commit list; the first transaction takes what is left (at least one
    /// commit). A big first file and small later ones keep the segments stacked.
    pub tail_tx_sizes: Vec<u8>,
    /// Membership of commit k (cycled) in the disambiguation set.
    pub disamb: Vec<bool>,
    pub disamb_root: bool,
    pub refs: Vec<RefSpec>,
    /// Check the repo loaded by a fresh loader instead of the one returned by
    /// the last commit.
    pub reload: bool,
    /// Raw numbers for extra probes (non-existent ids, mutated prefixes).
    pub probes: Vec<u16>,
}

fn id_spec() -> impl Strategy<Value = IdSpec> {
    (
        any::<u16>(),
        prop_oneof![
            50 => 0u8..=39,
            20 => 4u8..=12,
            15 => 30u8..=39,
            15 => 0u8..=3,
        ],
        prop::collection::vec(any::<u8>(), COMMIT_ID_LENGTH),
    )
        .prop_map(|(base, share, fresh)| IdSpec { base, share, fresh })
        // shrinking stays structural (dropping commits / transactions / refs)
        .no_shrink()
}

fn commit_spec() -> impl Strategy<Value = CommitSpec> {
    (
        id_spec(),
        prop::option::weighted(0.2, any::<u16>().no_shrink()),
        id_spec(),
        any::<u16>().no_shrink(),
        prop::bool::weighted(0.15),
    )
        .prop_map(|(id, same_change_as, change, parent, hidden)| CommitSpec {
            id,
            same_change_as,
            change,
            parent,
            hidden,
        })
}

fn case_strategy(max_commits: usize) -> impl Strategy<Value = Case> {
    (
        prop::collection::vec(commit_spec(), 2..=max_commits),
        (
            prop_oneof![
                10 => Just(vec![]).boxed(),
                90 => prop::collection::vec(
                    prop_oneof![35 => 1u8..=1, 25 => 2u8..=2, 20 => 3u8..=4, 20 => 5u8..=9],
                    1..=6,
                )
                .boxed(),
            ],
            prop::bool::weighted(0.5),
        ),
        prop::collection::vec(prop::bool::weighted(0.35), 1..=16),
        prop::bool::weighted(0.3),
        prop::collection::vec(
            (any::<u16>(), any::<bool>(), -1i8..=1, 1u8..=4, any::<u8>())
                .prop_map(|(of, change, start_rel, run, tags)| RefSpec {
                    of,
                    change,
                    start_rel,
                    run,
                    tags,
                })
                .no_shrink(),
            0..=5,
        ),
        prop::bool::weighted(0.4),
        prop::collection::vec(any::<u16>(), 8..=24).no_shrink(),
    )
        .prop_map(
            |(commits, (mut tail_tx_sizes, descending), disamb, disamb_root, refs, reload, probes)| {
                if descending {
                    // shrinking sizes give the deepest stacks of segment files
                    tail_tx_sizes.sort_by_key(|s| std::cmp::Reverse(*s));
                }
                Case {
                    commits,
                    tail_tx_sizes,
                    disamb,
                    disamb_root,
                    refs,
                    reload,
                    probes,
                }
            },
        )
}

// ---------------------------------------------------------------------------
// Model
// ---------------------------------------------------------------------------

fn nibble(bytes: &[u8], i: usize) -> u8 {
    if i % 2 == 0 {
        bytes[i / 2] >> 4
    } else {
        bytes[i / 2] & 0xf
    }
}

fn set_nibble(bytes: &mut [u8], i: usize, v: u8) {
    if i % 2 == 0 {
        bytes[i / 2] = (bytes[i / 2] & 0x0f) | (v << 4);
    } else {
        bytes[i / 2] = (bytes[i / 2] & 0xf0) | v;
    }
}

/// Number of leading hex digits two ids have in common (independent of
/// `hex_util::common_hex_len`, which is code under test).
fn common_digits(a: &[u8], b: &[u8]) -> usize {
    let n = a.len().min(b.len()) * 2;
    (0..n).find(|&i| nibble(a, i) != nibble(b, i)).unwrap_or(n)
}

fn hex_of(bytes: &[u8]) -> String {
    (0..bytes.len() * 2)
        .map(|i| char::from_digit(u32::from(nibble(bytes, i)), 16).unwrap())
        .collect()
}

/// jj's "reverse hex" alphabet for change ids: 0 -> 'z', 15 -> 'k'.
fn reverse_hex_of(bytes: &[u8]) -> String {
    (0..bytes.len() * 2)
        .map(|i| char::from(b'z' - nibble(bytes, i)))
        .collect()
}

fn derive_id(spec: &IdSpec, earlier: &[Vec<u8>], len: usize) -> Vec<u8> {
    let mut out: Vec<u8> = (0..len)
        .map(|i| spec.fresh.get(i).copied().unwrap_or(0x5a))
        .collect();
    let slot = pick(spec.base, earlier.len() + 1);
    if slot < earlier.len() {
        let base = &earlier[slot];
        let share = usize::from(spec.share).min(2 * len - 1);
        for i in 0..share {
            set_nibble(&mut out, i, nibble(base, i));
        }
        // force the next digit to differ: xor with 1..=15
        let x = 1 + (nibble(&out, share) * 15) / 16;
        set_nibble(&mut out, share, nibble(base, share) ^ x);
    }
    // Uniqueness by construction: step to the next free id.
    while earlier.iter().any(|e| *e == out) {
        for b in out.iter_mut().rev() {
            *b = b.wrapping_add(1);
            if *b != 0 {
                break;
            }
        }
    }
    out
}

struct MCommit {
    id: Vec<u8>,
    change: Vec<u8>,
    /// Model index of the parent (0 = root).
    parent: usize,
    hidden: bool,
    tx: usize,
}

struct Model {
    /// Index 0 is the root commit.
    commits: Vec<MCommit>,
    num_txs: usize,
    /// Disambiguation set (model indices).
    disamb: BTreeSet<usize>,
    /// name -> is_tag
    refs: BTreeMap<String, bool>,
}

impl Model {
    fn ids(&self) -> impl Iterator<Item = &[u8]> {
        self.commits.iter().map(|c| c.id.as_slice())
    }

    fn changes(&self) -> BTreeSet<&[u8]> {
        self.commits.iter().map(|c| c.change.as_slice()).collect()
    }

    fn visible(&self, k: usize) -> bool {
        !self.commits[k].hidden
    }

    fn members(&self, change: &[u8]) -> Vec<usize> {
        (0..self.commits.len())
            .filter(|k| self.commits[*k].change == change)
            .collect()
    }
}

/// 1 + the longest prefix shared with another key (0 if there is no other key).
fn unique_len<'a>(key: &[u8], others: impl Iterator<Item = &'a [u8]>) -> usize {
    others
        .filter(|o| *o != key)
        .map(|o| common_digits(key, o) + 1)
        .max()
        .unwrap_or(0)
}

fn prefix_matches(id: &[u8], prefix: &[u8] /* nibbles */) -> bool {
    prefix.len() <= id.len() * 2 && prefix.iter().enumerate().all(|(i, n)| nibble(id, i) == *n)
}

fn nibbles_of(id: &[u8], len: usize) -> Vec<u8> {
    (0..len).map(|i| nibble(id, i)).collect()
}

fn nibbles_to_hex(nibbles: &[u8]) -> String {
    nibbles
        .iter()
        .map(|n| char::from_digit(u32::from(*n), 16).unwrap())
        .collect()
}

#[derive(Debug, Clone, PartialEq, Eq)]
enum Res<T> {
    No,
    One(T),
    Many,
}

fn brute<'a>(prefix: &[u8], keys: impl Iterator<Item = &'a [u8]>) -> Res<&'a [u8]> {
    let distinct: BTreeSet<&[u8]> = keys.filter(|k| prefix_matches(k, prefix)).collect();
    let mut it = distinct.into_iter();
    match (it.next(), it.next()) {
        (None, _) => Res::No,
        (Some(k), None) => Res::One(k),
        _ => Res::Many,
    }
}

fn build_model(case: &Case) -> Model {
    let mut commits = vec![MCommit {
        id: vec![0; COMMIT_ID_LENGTH],
        change: vec![0; CHANGE_ID_LENGTH],
        parent: 0,
        hidden: false,
        tx: 0,
    }];
    // transaction of every commit: the tail sizes are served from the end, the
    // first transaction keeps the rest (>= 1 commit)
    let total = case.commits.len();
    let mut tail: Vec<usize> = vec![];
    let mut left = total.saturating_sub(1);
    for size in &case.tail_tx_sizes {
        let size = usize::from(*size).min(left);
        if size == 0 {
            break;
        }
        tail.push(size);
        left -= size;
    }
    let first = total - tail.iter().sum::<usize>();
    let mut tx_of = vec![0usize; first];
    for (t, size) in tail.iter().enumerate() {
        tx_of.extend(std::iter::repeat_n(t + 1, *size));
    }
    for (k, spec) in case.commits.iter().enumerate() {
        let ids: Vec<Vec<u8>> = commits.iter().map(|c| c.id.clone()).collect();
        let id = derive_id(&spec.id, &ids, COMMIT_ID_LENGTH);
        let change = match spec.same_change_as {
            Some(sel) if commits.len() > 1 => {
                commits[1 + pick(sel, commits.len() - 1)].change.clone()
            }
            _ => {
                let mut changes: Vec<Vec<u8>> = vec![];
                for c in &commits {
                    if !changes.contains(&c.change) {
                        changes.push(c.change.clone());
                    }
                }
                let mut spec_c = spec.change.clone();
                spec_c.share = spec_c.share.min(2 * CHANGE_ID_LENGTH as u8 - 1);
                derive_id(&spec_c, &changes, CHANGE_ID_LENGTH)
            }
        };
        let candidates: Vec<usize> = (0..commits.len()).filter(|j| !commits[*j].hidden).collect();
        let parent = candidates[pick(spec.parent, candidates.len())];
        commits.push(MCommit {
            id,
            change,
            parent,
            hidden: spec.hidden,
            tx: tx_of[k],
        });
    }
    let num_txs = commits.iter().map(|c| c.tx).max().unwrap_or(0) + 1;
    let n = commits.len();
    let mut disamb: BTreeSet<usize> = (1..n)
        .filter(|k| case.disamb[(k - 1) % case.disamb.len().max(1)])
        .collect();
    if case.disamb.is_empty() {
        disamb.clear();
    }
    if case.disamb_root {
        disamb.insert(0);
    }
    let mut model = Model {
        commits,
        num_txs,
        disamb,
        refs: BTreeMap::new(),
    };
    // Ref names around the exact shortest lengths (whole index).
    for r in &case.refs {
        let k = pick(r.of, n);
        let (sym, exact) = if r.change {
            let key = model.commits[k].change.clone();
            let changes = model.changes();
            (
                reverse_hex_of(&key),
                unique_len(&key, changes.iter().copied()),
            )
        } else {
            let key = &model.commits[k].id;
            (hex_of(key), unique_len(key, model.ids()))
        };
        for j in 0..usize::from(r.run) {
            let len = exact as i64 + i64::from(r.start_rel) + j as i64;
            if len < 1 || len as usize > sym.len() {
                continue;
            }
            let name = sym[..len as usize].to_string();
            model.refs.entry(name).or_insert(r.tags >> j & 1 == 1);
        }
    }
    model
}

// ---------------------------------------------------------------------------
// Oracle
// ---------------------------------------------------------------------------

#[derive(Default)]
struct Tally {
    resolves: u64,
    shorter_resolves_elsewhere: u64,
    ref_bumped: u64,
    divergent_symbol: u64,
    hidden_change_prefix: u64,
    disamb_shortened: u64,
}

fn ierr<T>(what: &str, r: Result<T, jj_lib::index::IndexError>) -> Result<T, Violation> {
    r.map_err(|e| Violation::new(format!("{what}: index error {e}")))
}

fn disambiguate_with_refs(model: &Model, sym: &str, min_len: usize) -> usize {
    (min_len..sym.len())
        .find(|n| !model.refs.contains_key(&sym[..*n]))
        .unwrap_or(sym.len())
}

/// Expected resolution of a commit id prefix (nibbles) with an optional
/// disambiguation set: within the set first, whole index if nothing matches.
fn expect_commit<'a>(model: &'a Model, set: Option<&BTreeSet<usize>>, p: &[u8]) -> Res<&'a [u8]> {
    if let Some(set) = set {
        if p.is_empty() {
            return Res::Many;
        }
        match brute(p, set.iter().map(|k| model.commits[*k].id.as_slice())) {
            Res::No => {}
            other => return other,
        }
    }
    brute(p, model.ids())
}

fn expect_change<'a>(model: &'a Model, set: Option<&BTreeSet<usize>>, p: &[u8]) -> Res<&'a [u8]> {
    if let Some(set) = set {
        if p.is_empty() {
            return Res::Many;
        }
        match brute(p, set.iter().map(|k| model.commits[*k].change.as_slice())) {
            Res::No => {}
            other => return other,
        }
    }
    brute(p, model.commits.iter().map(|c| c.change.as_slice()))
}

fn to_res_commit(r: PrefixResolution<CommitId>) -> Res<Vec<u8>> {
    match r {
        PrefixResolution::NoMatch => Res::No,
        PrefixResolution::SingleMatch(id) => Res::One(id.to_bytes()),
        PrefixResolution::AmbiguousMatch => Res::Many,
    }
}

fn own<'a>(r: Res<&'a [u8]>) -> Res<Vec<u8>> {
    match r {
        Res::No => Res::No,
        Res::One(k) => Res::One(k.to_vec()),
        Res::Many => Res::Many,
    }
}

/// Checks the targets returned for change `change` against the model: Visible
/// ones are exactly the visible commits of the change; Hidden ones are hidden
/// commits of the change.
fn check_targets(
    at: &str,
    model: &Model,
    change: &[u8],
    targets: &ResolvedChangeTargets,
) -> Result<(), Violation> {
    let members = model.members(change);
    let idx_of = |id: &CommitId| {
        (0..model.commits.len()).find(|k| model.commits[*k].id.as_slice() == id.as_bytes())
    };
    let mut vis = vec![];
    let mut hid = vec![];
    for (id, state) in &targets.targets {
        let k = idx_of(id)
            .ok_or_else(|| Violation::new(format!("{at}: unknown commit {id:?} in change targets")))?;
        match state {
            ResolvedChangeState::Visible => vis.push(k),
            ResolvedChangeState::Hidden => hid.push(k),
        }
    }
    vis.sort_unstable();
    let expect: Vec<usize> = members.iter().copied().filter(|k| model.visible(*k)).collect();
    ensure_eq!(
        vis,
        expect,
        "{at}: visible commits of change {} (members {members:?})",
        hex_of(change)
    );
    for h in &hid {
        ensure!(
            members.contains(h) && !model.visible(*h),
            "{at}: commit {h} listed as Hidden target of change {}",
            hex_of(change)
        );
    }
    let mut d = hid.clone();
    d.sort_unstable();
    d.dedup();
    ensure_eq!(d.len(), hid.len(), "{at}: duplicate hidden targets");
    Ok(())
}

fn hex_prefix(nibbles: &[u8]) -> HexPrefix {
    HexPrefix::try_from_hex(nibbles_to_hex(nibbles)).expect("valid hex prefix")
}

#[allow(clippy::too_many_arguments)]
fn check_context(
    at: &str,
    model: &Model,
    repo: &dyn Repo,
    context: &IdPrefixContext,
    set: Option<&BTreeSet<usize>>,
    probes: &[u16],
    tally: &mut Tally,
) -> Result<(), Violation> {
    let index: IdPrefixIndex<'_> = context
        .populate(repo)
        .map_err(|e| Violation::new(format!("{at}: populate failed: {e}")))?;
    let no_ext: [&Box<dyn SymbolResolverExtension>; 0] = [];
    let resolver = SymbolResolver::new(repo, &no_ext).with_id_prefix_context(context);
    let n = model.commits.len();
    let root_id = model.commits[0].id.clone();

    // ---- commit ids -------------------------------------------------------
    for k in 0..n {
        let c = &model.commits[k];
        let id = CommitId::from_bytes(&c.id);
        let full = hex_of(&c.id);
        // exact shortest length: within the set if the commit is in it
        let exact_expect = match set {
            Some(s) if s.contains(&k) => {
                unique_len(&c.id, s.iter().map(|j| model.commits[*j].id.as_slice())).max(1)
            }
            _ => unique_len(&c.id, model.ids()),
        };
        let exact = ierr("shortest_commit_prefix_len_exact", index.shortest_commit_prefix_len_exact(repo, &id))?;
        ensure_eq!(
            exact,
            exact_expect,
            "{at}: shortest_commit_prefix_len_exact({full}) vs brute force"
        );
        if set.is_some_and(|s| s.contains(&k)) && exact < unique_len(&c.id, model.ids()) {
            tally.disamb_shortened += 1;
        }
        // every prefix of the id, against the brute-force resolution
        for len in 1..=full.len() {
            let p = nibbles_of(&c.id, len);
            let got = to_res_commit(ierr(
                "resolve_commit_prefix",
                index.resolve_commit_prefix(repo, &hex_prefix(&p)),
            )?);
            tally.resolves += 1;
            // the property itself
            if len == exact {
                ensure_eq!(
                    got,
                    Res::One(c.id.clone()),
                    "{at}: the shortest prefix {} of commit {full} does not resolve to it",
                    &full[..len]
                );
            } else if len < exact {
                ensure!(
                    got != Res::One(c.id.clone()) && got != Res::No,
                    "{at}: prefix {} is shorter than the reported shortest ({exact}) but resolves to {got:?}",
                    &full[..len]
                );
                if matches!(got, Res::One(_)) {
                    tally.shorter_resolves_elsewhere += 1;
                }
            }
            // exact agreement with the reference resolution
            ensure_eq!(
                got,
                own(expect_commit(model, set, &p)),
                "{at}: resolve_commit_prefix({}) vs brute force",
                &full[..len]
            );
        }
        // refs shadowing
        let with_refs = ierr("shortest_commit_prefix_len", index.shortest_commit_prefix_len(repo, &id))?;
        let with_refs_expect = disambiguate_with_refs(model, &full, exact_expect);
        ensure_eq!(
            with_refs,
            with_refs_expect,
            "{at}: shortest_commit_prefix_len({full}) with refs {:?}",
            model.refs.keys().collect::<Vec<_>>()
        );
        if with_refs > exact {
            tally.ref_bumped += 1;
        }
        let sym = &full[..with_refs];
        let resolved = resolver.resolve_symbol(repo, sym);
        let expect_id = if model.refs.contains_key(sym) {
            // only possible for the full-length id
            root_id.clone()
        } else {
            c.id.clone()
        };
        match resolved {
            Ok(got) => ensure_eq!(
                got.to_bytes(),
                expect_id,
                "{at}: symbol {sym} (shortest prefix of commit {full})"
            ),
            Err(e) => {
                return Err(Violation::new(format!(
                    "{at}: symbol {sym} (shortest prefix of commit {full}) fails to resolve: {e}"
                )));
            }
        }
    }

    // ---- change ids -------------------------------------------------------
    let all_changes = model.changes();
    let set_changes: Option<BTreeSet<&[u8]>> =
        set.map(|s| s.iter().map(|k| model.commits[*k].change.as_slice()).collect());
    for change in &all_changes {
        let change_id = ChangeId::from_bytes(change);
        let full = hex_of(change);
        let rsym = reverse_hex_of(change);
        let exact_expect = match &set_changes {
            Some(sc) if sc.contains(change) => unique_len(change, sc.iter().copied()).max(1),
            _ => unique_len(change, all_changes.iter().copied()),
        };
        let with_refs = ierr(
            "shortest_change_prefix_len",
            index.shortest_change_prefix_len(repo, &change_id).block_on(),
        )?;
        let with_refs_expect = disambiguate_with_refs(model, &rsym, exact_expect);
        ensure_eq!(
            with_refs,
            with_refs_expect,
            "{at}: shortest_change_prefix_len({full}) (exact {exact_expect}) with refs {:?}",
            model.refs.keys().collect::<Vec<_>>()
        );
        if with_refs > exact_expect {
            tally.ref_bumped += 1;
        }
        let members = model.members(change);
        let visible: Vec<usize> = members.iter().copied().filter(|k| model.visible(*k)).collect();
        if visible.is_empty() {
            tally.hidden_change_prefix += 1;
        }
        for len in 1..=full.len() {
            let p = nibbles_of(change, len);
            let got = ierr(
                "resolve_change_prefix",
                index.resolve_change_prefix(repo, &hex_prefix(&p)).block_on(),
            )?;
            tally.resolves += 1;
            let expect = expect_change(model, set, &p);
            match (&got, &expect) {
                (PrefixResolution::NoMatch, Res::No) => {}
                (PrefixResolution::AmbiguousMatch, Res::Many) => {}
                (PrefixResolution::SingleMatch(targets), Res::One(which)) => {
                    check_targets(
                        &format!("{at}: change prefix {}", &full[..len]),
                        model,
                        which,
                        targets,
                    )?;
                }
                _ => {
                    return Err(Violation::new(format!(
                        "{at}: resolve_change_prefix({}) = {got:?}, brute force says {:?}",
                        &full[..len],
                        match &expect {
                            Res::No => "no match".to_string(),
                            Res::Many => "ambiguous".to_string(),
                            Res::One(w) => format!("change {}", hex_of(w)),
                        }
                    )));
                }
            }
            // the property itself
            let resolves_here = matches!(&expect, Res::One(w) if *w == *change);
            if len == exact_expect {
                ensure!(
                    resolves_here,
                    "{at}: the shortest prefix {} of change {full} resolves to {expect:?}",
                    &full[..len]
                );
            } else if len < exact_expect {
                ensure!(
                    !resolves_here && expect != Res::No,
                    "{at}: change prefix {} shorter than the shortest ({exact_expect}) resolves to {expect:?}",
                    &full[..len]
                );
            }
        }
        // symbol resolution of the displayed prefix
        let sym = &rsym[..with_refs];
        if !model.refs.contains_key(sym) {
            let resolved = resolver.resolve_symbol(repo, sym);
            match (visible.as_slice(), resolved) {
                ([one], Ok(got)) => ensure_eq!(
                    got.to_bytes(),
                    model.commits[*one].id,
                    "{at}: symbol {sym} (shortest prefix of change {full})"
                ),
                ([_one], Err(e)) => {
                    return Err(Violation::new(format!(
                        "{at}: symbol {sym} of change {full} with one visible commit fails: {e}"
                    )));
                }
                ([], Ok(got)) => {
                    return Err(Violation::new(format!(
                        "{at}: symbol {sym} of a change without visible commits resolved to {got:?}"
                    )));
                }
                ([], Err(_)) => {}
                (_, Ok(got)) => {
                    return Err(Violation::new(format!(
                        "{at}: symbol {sym} of divergent change {full} resolved to {got:?}"
                    )));
                }
                (_, Err(RevsetResolutionError::DivergentChangeId { visible_targets, .. })) => {
                    tally.divergent_symbol += 1;
                    let mut got: Vec<Vec<u8>> =
                        visible_targets.iter().map(|(_, id)| id.to_bytes()).collect();
                    got.sort();
                    let mut expect: Vec<Vec<u8>> =
                        visible.iter().map(|k| model.commits[*k].id.clone()).collect();
                    expect.sort();
                    ensure_eq!(got, expect, "{at}: divergent targets of symbol {sym}");
                }
                (_, Err(e)) => {
                    return Err(Violation::new(format!(
                        "{at}: symbol {sym} of divergent change {full}: unexpected error {e}"
                    )));
                }
            }
        }
    }

    // ---- extra probes: mutated prefixes and non-existent ids -------------------
    let mut it = probes.iter().copied().cycle();
    let mut next = || it.next().unwrap_or(0);
    for _ in 0..probes.len() {
        let k = pick(next(), n);
        let change_side = pick(next(), 2) == 1;
        let key: &[u8] = if change_side {
            &model.commits[k].change
        } else {
            &model.commits[k].id
        };
        let len = 1 + pick(next(), key.len() * 2);
        let mut p = nibbles_of(key, len);
        // change the last digit
        let last = len - 1;
        p[last] = (p[last] + 1 + pick(next(), 15) as u8) & 0xf;
        if change_side {
            let got = ierr(
                "resolve_change_prefix",
                index.resolve_change_prefix(repo, &hex_prefix(&p)).block_on(),
            )?;
            let expect = expect_change(model, set, &p);
            let ok = match (&got, &expect) {
                (PrefixResolution::NoMatch, Res::No) => true,
                (PrefixResolution::AmbiguousMatch, Res::Many) => true,
                (PrefixResolution::SingleMatch(t), Res::One(w)) => {
                    check_targets(&format!("{at}: probe {}", nibbles_to_hex(&p)), model, w, t)?;
                    true
                }
                _ => false,
            };
            ensure!(
                ok,
                "{at}: resolve_change_prefix({}) = {got:?} but brute force says {expect:?}",
                nibbles_to_hex(&p)
            );
        } else {
            let got = to_res_commit(ierr(
                "resolve_commit_prefix",
                index.resolve_commit_prefix(repo, &hex_prefix(&p)),
            )?);
            ensure_eq!(
                got,
                own(expect_commit(model, set, &p)),
                "{at}: resolve_commit_prefix({}) vs brute force",
                nibbles_to_hex(&p)
            );
            // A full-length id that is not in the index: the reported length must
            // match no commit, one digit less must match some commit (trait doc).
            let mut ghost = key.to_vec();
            if !change_side && len <= ghost.len() * 2 {
                set_nibble(&mut ghost, last, p[last]);
                if !model.ids().any(|i| i == ghost.as_slice()) {
                    let l = ierr(
                        "shortest_unique_commit_id_prefix_len",
                        repo.index()
                            .shortest_unique_commit_id_prefix_len(&CommitId::from_bytes(&ghost))
                            .block_on(),
                    )?;
                    ensure_eq!(
                        l,
                        unique_len(&ghost, model.ids()),
                        "{at}: shortest_unique_commit_id_prefix_len of the non-existent id {}",
                        hex_of(&ghost)
                    );
                }
            }
        }
        tally.resolves += 1;
    }

    // ---- cross-check of the code-under-test helper used by the index -------
    for k in 1..n {
        let a = &model.commits[k].id;
        let b = &model.commits[k - 1].id;
        ensure_eq!(
            hex_util::common_hex_len(a, b),
            common_digits(a, b),
            "common_hex_len({}, {})",
            hex_of(a),
            hex_of(b)
        );
    }
    Ok(())
}

fn check_repo(
    at: &str,
    model: &Model,
    repo: &dyn Repo,
    probes: &[u16],
    tally: &mut Tally,
) -> Result<(), Violation> {
    // index level, no id_prefix layer
    for c in &model.commits {
        let id = CommitId::from_bytes(&c.id);
        let l = ierr(
            "shortest_unique_commit_id_prefix_len",
            repo.index().shortest_unique_commit_id_prefix_len(&id).block_on(),
        )?;
        ensure_eq!(
            l,
            unique_len(&c.id, model.ids()),
            "{at}: Index::shortest_unique_commit_id_prefix_len({})",
            hex_of(&c.id)
        );
        let change_id = ChangeId::from_bytes(&c.change);
        let l = ierr(
            "shortest_unique_change_id_prefix_len",
            repo.shortest_unique_change_id_prefix_len(&change_id).block_on(),
        )?;
        let changes = model.changes();
        ensure_eq!(
            l,
            unique_len(&c.change, changes.iter().copied()),
            "{at}: Repo::shortest_unique_change_id_prefix_len({})",
            hex_of(&c.change)
        );
    }
    let plain = IdPrefixContext::default();
    check_context(&format!("{at}, no disambiguation"), model, repo, &plain, None, probes, tally)?;
    let ids: Vec<CommitId> = model
        .disamb
        .iter()
        .map(|k| CommitId::from_bytes(&model.commits[*k].id))
        .collect();
    let narrowed = IdPrefixContext::default().disambiguate_within(RevsetExpression::commits(ids));
    check_context(
        &format!("{at}, disambiguation set {:?}", model.disamb),
        model,
        repo,
        &narrowed,
        Some(&model.disamb),
        probes,
        tally,
    )?;
    Ok(())
}

// ---------------------------------------------------------------------------
// Driver
// ---------------------------------------------------------------------------

fn settings() -> UserSettings {
    let mut config = testutils::base_user_config();
    let mut layer = ConfigLayer::empty(ConfigSource::User);
    layer
        .set_value("debug.operation-timestamp", "2001-02-03T04:05:06+07:00")
        .unwrap();
    config.add_layer(layer);
    UserSettings::from_config(config).unwrap()
}

fn check(case: &Case) -> CheckResult {
    let model = build_model(case);
    let settings = settings();
    let prefix_repo = PrefixRepo::init(&settings);
    let mut repo: Arc<ReadonlyRepo> = prefix_repo.repo.clone();
    let mut written: Vec<Commit> = vec![repo.store().root_commit()];
    let mut tally = Tally::default();
    let n = model.commits.len();

    for t in 0..model.num_txs {
        let mut tx = repo.start_transaction();
        let tree = repo.store().empty_merged_tree();
        for k in 1..n {
            let c = &model.commits[k];
            if c.tx != t {
                continue;
            }
            assert_eq!(written.len(), k);
            let id_arr: [u8; COMMIT_ID_LENGTH] = c.id.clone().try_into().unwrap();
            let sig = signature(1_600_000_000_000 + 1000 * k as i64);
            let commit = tx
                .repo_mut()
                .new_commit(vec![written[c.parent].id().clone()], tree.clone())
                .set_change_id(ChangeId::from_bytes(&c.change))
                .set_description(description_for_id(&id_arr))
                .set_author(sig.clone())
                .set_committer(sig)
                .write()
                .block_on()
                .map_err(|e| Violation::new(format!("write commit: {e}")))?;
            assert_eq!(commit.id().as_bytes(), c.id.as_slice(), "backend must use the chosen id");
            written.push(commit);
        }
        // hide the hidden leaves of this transaction
        for k in 1..n {
            let c = &model.commits[k];
            if c.tx == t && c.hidden {
                tx.repo_mut().remove_head(written[k].id());
                tx.repo_mut()
                    .add_head(&written[c.parent])
                    .block_on()
                    .map_err(|e| Violation::new(format!("add_head: {e}")))?;
            }
        }
        if t + 1 == model.num_txs {
            let root = RefTarget::normal(written[0].id().clone());
            for (name, is_tag) in &model.refs {
                if *is_tag {
                    tx.repo_mut().set_local_tag_target(name.as_str().as_ref(), root.clone());
                } else {
                    tx.repo_mut()
                        .set_local_bookmark_target(name.as_str().as_ref(), root.clone());
                }
            }
            // mutable index: the last transaction's commits live in the mutable
            // segment, everything else in readonly parent files
            check_repo("open transaction", &model, tx.repo(), &case.probes, &mut tally)?;
        }
        repo = tx
            .commit(format!("tx {t}"))
            .block_on()
            .map_err(|e| Violation::new(format!("commit: {e}")))?;
    }
    if case.reload {
        repo = prefix_repo.load_at_head(&settings);
    }
    check_repo(
        if case.reload { "reloaded repo" } else { "committed repo" },
        &model,
        repo.as_ref(),
        &case.probes,
        &mut tally,
    )?;

    // Non-triviality: two ids sharing >= 4 hex digits that live in different
    // index segments. Index positions follow the write order (root first), so
    // the segment of commit k follows from the segment sizes.
    let levels: Vec<u32> = repo
        .readonly_index()
        .downcast_ref::<DefaultReadonlyIndex>()
        .expect("default index")
        .stats()
        .commit_levels
        .iter()
        .map(|l| l.num_commits)
        .collect();
    ensure_eq!(levels.iter().sum::<u32>() as usize, n, "number of indexed commits");
    let segment_of = |k: usize| {
        let mut acc = 0usize;
        for (s, size) in levels.iter().enumerate() {
            acc += *size as usize;
            if k < acc {
                return s;
            }
        }
        levels.len()
    };
    let mut cross_commit = 0usize;
    let mut cross_change = 0usize;
    let mut odd_share = false;
    let mut long_share = false;
    for a in 0..n {
        for b in 0..a {
            let (ca, cb) = (&model.commits[a], &model.commits[b]);
            let d = common_digits(&ca.id, &cb.id);
            if d >= 4 {
                if segment_of(a) != segment_of(b) {
                    cross_commit += 1;
                }
                odd_share |= d % 2 == 1;
                long_share |= d >= 30;
            }
            if ca.change != cb.change
                && common_digits(&ca.change, &cb.change) >= 4
                && segment_of(a) != segment_of(b)
            {
                cross_change += 1;
            }
        }
    }
    let divergent = model
        .changes()
        .iter()
        .any(|c| model.members(c).iter().filter(|k| model.visible(**k)).count() > 1);
    let nontrivial = cross_commit > 0 || cross_change > 0;
    Ok(Outcome::new(nontrivial)
        .class_if(cross_commit > 0, "commit_ids_share>=4_across_segments")
        .class_if(cross_change > 0, "change_ids_share>=4_across_segments")
        .class_if(levels.len() >= 2, "segments>=2")
        .class_if(levels.len() >= 3, "segments>=3")
        .class_if(odd_share, "odd_shared_length")
        .class_if(long_share, "share>=30_digits")
        .class_if(model.commits.iter().any(|c| c.hidden), "hidden_commit")
        .class_if(tally.hidden_change_prefix > 0, "change_with_only_hidden_commits")
        .class_if(divergent, "divergent_change")
        .class_if(tally.divergent_symbol > 0, "divergent_symbol_error")
        .class_if(!model.refs.is_empty(), "refs_named_like_prefixes")
        .class_if(tally.ref_bumped > 0, "ref_lengthens_prefix")
        .class_if(tally.disamb_shortened > 0, "disambiguation_shortens_prefix")
        .class_if(tally.shorter_resolves_elsewhere > 0, "shorter_prefix_resolves_elsewhere")
        .class_if(model.disamb.is_empty(), "empty_disambiguation_set")
        .class_if(case.reload, "fresh_loader_reload"))
}

pub fn run(report: &mut Report) {
    report.set_rule(
        "2..=40 commits (thorough 100) over 1..=7 transactions on a harness backend with chosen \
         20-byte commit ids; each id copies 0..=39 leading hex digits of an earlier id (or the \
         root's zeros) and differs in the next digit; change ids likewise (0..=31 digits) or equal \
         to an earlier change; 15% hidden leaves; 0..=5 runs of bookmarks/tags named after id \
         prefixes around the shortest length; a random subset as disambiguation revset. Checked \
         on the open last transaction (mutable segment + readonly parents) and on the committed \
         or freshly loaded repo, with and without the disambiguation set: every prefix of every \
         commit/change id against brute-force resolution, shortest lengths against brute force, \
         ref shadowing, symbol resolution of the displayed prefix. Non-trivial = two commit ids \
         (or two change ids) sharing >= 4 hex digits live in different index segments.",
    );
    report.assume(
        "model::prefix_backend (in-memory copy of testutils::TestBackend that takes the commit id \
         from the description) is a faithful Backend; index and id_prefix code never look at how \
         ids were produced",
    );
    report.assume(
        "segment membership for the non-triviality count is derived from write order and \
         IndexStats.commit_levels (index positions are not public)",
    );
    let tier = report.tier;
    let max_commits = tier.pick_usize(40, 100);
    report.prop(
        "prefixes",
        tier.pick(240, 3000),
        move || case_strategy(max_commits),
        check,
    );
}
