//! C29 Line-ending conversion round-trips normalized content.
//!
//! Everything goes through a `TestWorkspace` whose `working-copy.eol-conversion`
//! is none / input / input-output (`TargetEolStrategy` is crate-private and the
//! property is about checkout + snapshot).
//!
//! Per case (content X, mode):
//!  * flow A: X is *stored* in a commit, the commit is checked out; the bytes on
//!    disk Y must equal the model (`input-output` and X classified text: every LF
//!    not already preceded by CR becomes CRLF; otherwise verbatim). The file is
//!    then touched (mtime forced to a value different from the recorded one, so
//!    the snapshot must re-read it) and snapshotted; the stored bytes must equal
//!    the model for Y (`none`: Y; else text: every CRLF -> LF, binary: Y) and,
//!    model-free, must equal X again whenever X contains no CRLF.
//!  * flow B: X is written to a new (untracked) file as *disk* bytes and the
//!    snapshot must store the model image of X.
//!
//! The text/binary classifier is re-implemented from its description: a NUL or
//! a lone CR (CR not followed by LF) within the first 8 KiB probe makes a file
//! binary; a CR in the very last probed byte is ignored (it may be half of a
//! CRLF cut by the probe).

use jj_lib::repo::Repo as _;
use pollster::FutureExt as _;
use proptest::prelude::*;
use serde::Deserialize;
use serde::Serialize;
use testutils::TestWorkspace;

use crate::engine::runner::CheckResult;
use crate::engine::runner::Outcome;
use crate::engine::runner::Report;
use crate::engine::runner::Violation;
use crate::ensure;
use crate::gens::content;
use crate::gens::content::Bytes;
use crate::model::wcaux;

#[derive(Debug, Clone, Copy, PartialEq, Eq, Serialize, Deserialize)]
pub enum Mode {
    None,
    Input,
    InputOutput,
}

impl Mode {
    fn config_value(self) -> &'static str {
        match self {
            Self::None => "none",
            Self::Input => "input",
            Self::InputOutput => "input-output",
        }
    }
}

/// Content recipe (keeps replay files small and shrinking meaningful for the
/// 8-20 KiB shapes).
#[derive(Debug, Clone, Serialize, Deserialize)]
pub enum Piece {
    Lit(Bytes),
    Pad { byte: u8, len: u32 },
    Lines { body: Bytes, crlf: bool, count: u32 },
}

#[derive(Debug, Clone, Serialize, Deserialize)]
pub struct Case {
    pub mode: Mode,
    pub pieces: Vec<Piece>,
}

pub fn render(pieces: &[Piece]) -> Vec<u8> {
    let mut out = vec![];
    for p in pieces {
        match p {
            Piece::Lit(b) => out.extend_from_slice(&b.0),
            Piece::Pad { byte, len } => out.extend(std::iter::repeat_n(*byte, *len as usize)),
            Piece::Lines { body, crlf, count } => {
                for _ in 0..*count {
                    out.extend_from_slice(&body.0);
                    out.extend_from_slice(if *crlf { b"\r\n" } else { b"\n" });
                }
            }
        }
    }
    out
}

// ---------------------------------------------------------------------------
// Reference model
// ---------------------------------------------------------------------------

pub const PROBE_LIMIT: usize = 8 << 10;

/// Binary iff a NUL or a lone CR occurs in the probed prefix; a CR in the last
/// byte of a full probe is not looked at.
pub fn model_is_binary(data: &[u8]) -> bool {
    let probe = &data[..data.len().min(PROBE_LIMIT)];
    let looked_at = if probe.len() == PROBE_LIMIT && probe[PROBE_LIMIT - 1] == b'\r' {
        &probe[..PROBE_LIMIT - 1]
    } else {
        probe
    };
    (0..looked_at.len()).any(|i| {
        looked_at[i] == 0 || (looked_at[i] == b'\r' && looked_at.get(i + 1) != Some(&b'\n'))
    })
}

/// Every LF that is not already the second half of a CRLF becomes CRLF.
fn lf_to_crlf(data: &[u8]) -> Vec<u8> {
    let mut out = Vec::with_capacity(data.len() + data.len() / 8);
    for (i, &b) in data.iter().enumerate() {
        if b == b'\n' && (i == 0 || data[i - 1] != b'\r') {
            out.push(b'\r');
        }
        out.push(b);
    }
    out
}

/// Every CRLF becomes LF.
fn crlf_to_lf(data: &[u8]) -> Vec<u8> {
    let mut out = Vec::with_capacity(data.len());
    let mut i = 0;
    while i < data.len() {
        if data[i] == b'\r' && data.get(i + 1) == Some(&b'\n') {
            out.push(b'\n');
            i += 2;
        } else {
            out.push(data[i]);
            i += 1;
        }
    }
    out
}

/// Disk bytes after checking out stored bytes `x`.
pub fn model_checkout(mode: Mode, x: &[u8]) -> Vec<u8> {
    match mode {
        Mode::None | Mode::Input => x.to_vec(),
        Mode::InputOutput => {
            if model_is_binary(x) {
                x.to_vec()
            } else {
                lf_to_crlf(x)
            }
        }
    }
}

/// Stored bytes after snapshotting disk bytes `y`.
pub fn model_snapshot(mode: Mode, y: &[u8]) -> Vec<u8> {
    match mode {
        Mode::None => y.to_vec(),
        Mode::Input | Mode::InputOutput => {
            if model_is_binary(y) {
                y.to_vec()
            } else {
                crlf_to_lf(y)
            }
        }
    }
}

fn contains_crlf(data: &[u8]) -> bool {
    data.windows(2).any(|w| w == b"\r\n")
}

fn summary(data: &[u8]) -> String {
    // Short description of a (possibly large) content: length, hash-free diff aid.
    let first_diff_ctx = |d: &[u8]| Bytes(d[..d.len().min(40)].to_vec());
    format!("len={} head={:?}", data.len(), first_diff_ctx(data))
}

fn first_difference(a: &[u8], b: &[u8]) -> String {
    let i = a.iter().zip(b.iter()).position(|(x, y)| x != y).unwrap_or(a.len().min(b.len()));
    let ctx = |d: &[u8]| Bytes(d[i.saturating_sub(4)..d.len().min(i + 6)].to_vec());
    format!("first difference at byte {i}: got ..{:?}.. (len {}), expected ..{:?}.. (len {})", ctx(a), a.len(), ctx(b), b.len())
}

fn v(msg: String) -> Violation {
    Violation::new(msg)
}

fn check(case: &Case) -> CheckResult {
    let x = render(&case.pieces);
    let mode = case.mode;
    let settings =
        wcaux::settings_with(&format!("working-copy.eol-conversion = \"{}\"\n", mode.config_value()));
    let mut tw = TestWorkspace::init_with_backend_and_settings(testutils::TestRepoBackend::Simple, &settings);
    let root = tw.workspace.workspace_root().to_owned();
    let stored_path = testutils::repo_path("stored");
    let fresh_path = testutils::repo_path("dir/fresh");
    let stored_disk = stored_path.to_fs_path(&root).unwrap();
    let fresh_disk = fresh_path.to_fs_path(&root).unwrap();

    // Flow A, first half: checkout of stored bytes X.
    let tree = testutils::create_tree_with(&tw.repo, |b| {
        b.file(stored_path, &x);
    });
    let commit = testutils::commit_with_tree(tw.repo.store(), tree.clone());
    let stats = tw
        .workspace
        .check_out(tw.repo.op_id().clone(), None, &commit)
        .block_on()
        .map_err(|e| v(format!("check_out failed: {e:?}")))?;
    ensure!(stats.skipped_files == 0, "check_out skipped files: {stats:?}");
    let y = std::fs::read(&stored_disk).map_err(|e| v(format!("cannot read checked-out file: {e}")))?;
    let want_y = model_checkout(mode, &x);
    ensure!(
        y == want_y,
        "mode {}: disk bytes after checkout differ from the model (stored {}; stored classified {}): {}",
        mode.config_value(),
        summary(&x),
        if model_is_binary(&x) { "binary" } else { "text" },
        first_difference(&y, &want_y)
    );
    if mode != Mode::InputOutput {
        // Statement, model-free: without output conversion checkout writes stored bytes verbatim.
        ensure!(y == x, "mode {}: checkout did not write stored bytes verbatim", mode.config_value());
    }

    // Make the snapshot re-read the checked-out file (as `touch` or an editor's
    // save-without-change would): recorded mtime is "now", this is 2001.
    wcaux::set_mtime_ns(&stored_disk, 1_000_000_000i128 * 1_000_000_000).map_err(v)?;
    // Flow B: X as raw disk bytes of a new file.
    std::fs::create_dir_all(fresh_disk.parent().unwrap()).map_err(|e| v(format!("harness: mkdir: {e}")))?;
    std::fs::write(&fresh_disk, &x).map_err(|e| v(format!("harness: write: {e}")))?;

    let new_tree = tw.snapshot().map_err(|e| v(format!("snapshot failed: {e:?}")))?;

    // Flow A, second half.
    let restored = wcaux::read_tree_file(&new_tree, stored_path)
        .map_err(v)?
        .ok_or_else(|| v("checked-out file vanished from the snapshot".into()))?;
    let want_restored = model_snapshot(mode, &y);
    ensure!(
        restored == want_restored,
        "mode {}: stored bytes after checkout+snapshot differ from the model (disk {}; disk classified {}): {}",
        mode.config_value(),
        summary(&y),
        if model_is_binary(&y) { "binary" } else { "text" },
        first_difference(&restored, &want_restored)
    );
    let crlf_free = !contains_crlf(&x);
    if crlf_free {
        ensure!(
            restored == x,
            "mode {}: round trip lost the stored content (stored {} has no CRLF): {}",
            mode.config_value(),
            summary(&x),
            first_difference(&restored, &x)
        );
    }

    // Flow B.
    let fresh = wcaux::read_tree_file(&new_tree, fresh_path)
        .map_err(v)?
        .ok_or_else(|| v("new file was not snapshotted".into()))?;
    let want_fresh = model_snapshot(mode, &x);
    ensure!(
        fresh == want_fresh,
        "mode {}: stored bytes after snapshotting a new file differ from the model (disk {}; classified {}): {}",
        mode.config_value(),
        summary(&x),
        if model_is_binary(&x) { "binary" } else { "text" },
        first_difference(&fresh, &want_fresh)
    );
    if mode == Mode::None {
        ensure!(fresh == x, "mode none: snapshot changed the bytes of a new file");
    }

    // Classification of the case.
    let interesting = |d: &[u8]| {
        (PROBE_LIMIT - 4..=PROBE_LIMIT + 4).any(|i| matches!(d.get(i), Some(b'\r' | b'\n' | 0)))
    };
    let near_probe = interesting(&x) || interesting(&y);
    let binary = model_is_binary(&x);
    let no_final_newline = !x.is_empty() && x.last() != Some(&b'\n');
    let late_binary = !binary && x.len() > PROBE_LIMIT && x[PROBE_LIMIT..].iter().enumerate().any(|(k, &b)| {
        let i = PROBE_LIMIT + k;
        b == 0 || (b == b'\r' && x.get(i + 1) != Some(&b'\n'))
    });
    let straddle = y.len() > PROBE_LIMIT && y[PROBE_LIMIT - 1] == b'\r' && y[PROBE_LIMIT] == b'\n';
    let nontrivial = near_probe || binary || no_final_newline;
    Ok(Outcome::new(nontrivial)
        .class_if(mode == Mode::None, "mode none")
        .class_if(mode == Mode::Input, "mode input")
        .class_if(mode == Mode::InputOutput, "mode input-output")
        .class_if(binary, "stored classified binary")
        .class_if(!binary && x.contains(&b'\n'), "stored text with line ends")
        .class_if(contains_crlf(&x), "stored has CRLF")
        .class_if(crlf_free && mode == Mode::InputOutput && !binary && x.contains(&b'\n'), "round trip LF->CRLF->LF")
        .class_if(near_probe, "byte of interest within 4 of the probe limit")
        .class_if(straddle, "disk CRLF straddles the probe limit")
        .class_if(x.len() >= PROBE_LIMIT && x[PROBE_LIMIT - 1] == b'\r', "stored CR in the last probed byte")
        .class_if(late_binary, "NUL/lone CR only after the probe")
        .class_if(no_final_newline, "no final newline")
        .class_if(x.is_empty(), "empty")
        .class_if(x.len() > PROBE_LIMIT, "larger than the probe"))
}

// ---------------------------------------------------------------------------
// Generators
// ---------------------------------------------------------------------------

fn mode_strategy() -> impl Strategy<Value = Mode> {
    prop_oneof![1 => Just(Mode::None), 2 => Just(Mode::Input), 4 => Just(Mode::InputOutput)]
}

fn small_pieces() -> impl Strategy<Value = Vec<Piece>> {
    prop_oneof![
        3 => content::diff_inputs(1).prop_map(|mut v| vec![Piece::Lit(v.remove(0))]),
        2 => content::odd_content().prop_map(|b| vec![Piece::Lit(b)]),
        2 => prop::collection::vec(
            prop::sample::select(vec![
                &b"a"[..], b"bc", b"\n", b"\n", b"\r\n", b"\r\n", b"\r", b"\0", b" ", b"\r\r\n", b"\n\r",
            ]),
            0..16
        )
        .prop_map(|parts| vec![Piece::Lit(Bytes(parts.concat()))]),
    ]
}

fn lit_of_interest() -> impl Strategy<Value = Bytes> {
    prop::sample::select(vec![
        &b"\r"[..], b"\0", b"\r\n", b"\n", b"\r\r\n", b"\r\r", b"\n\r", b"x", b"\r\nx\0", b"\n\n", b"\r\n\r\n", b"\rx",
    ])
    .prop_map(|b| Bytes(b.to_vec()))
}

fn tail() -> impl Strategy<Value = Bytes> {
    prop::sample::select(vec![
        &b""[..], b"\n", b"end", b"end\n", b"a\r\nb\n", b"\0", b"z\r", b"p\nq\n", b"p\r\nq\r\n", b"\r\n",
    ])
    .prop_map(|b| Bytes(b.to_vec()))
}

/// A byte of interest placed at a chosen offset around the probe limit, either
/// in stored coordinates or (for LF-only prefixes) in converted (disk)
/// coordinates, where each earlier LF has grown by one byte.
fn boundary_pieces() -> impl Strategy<Value = Vec<Piece>> {
    (
        0u32..60,
        prop_oneof![3 => Just(false), 1 => Just(true)],
        (PROBE_LIMIT as u32 - 6)..=(PROBE_LIMIT as u32 + 6),
        any::<bool>(),
        lit_of_interest(),
        tail(),
        prop::sample::select(vec![b'x', b'x', b'x', b' ', 0xc3]),
    )
        .prop_map(|(n, crlf, target, converted, lit, tail, pad_byte)| {
            let line_len = 2 + if crlf { 2 } else { 1 };
            let cur = n * line_len;
            // In converted coordinates every LF-terminated line before the target adds one byte.
            let target = if converted && !crlf { target - n } else { target };
            let pad = target.saturating_sub(cur);
            vec![
                Piece::Lines { body: "ab".into(), crlf, count: n },
                Piece::Pad { byte: pad_byte, len: pad },
                Piece::Lit(lit),
                Piece::Lit(tail),
            ]
        })
}

fn lines_piece(max_count: u32) -> impl Strategy<Value = Piece> {
    (
        prop::sample::select(vec![&b""[..], b"a", b"ab", b"foo bar", b"x y z", b"\t", b"abcdefg"]),
        prop_oneof![3 => Just(false), 1 => Just(true)],
        1..=max_count,
    )
        .prop_map(|(body, crlf, count)| Piece::Lines { body: Bytes(body.to_vec()), crlf, count })
}

/// 8-20 KiB of lines, optionally with a few odd bytes between blocks.
fn large_pieces() -> impl Strategy<Value = Vec<Piece>> {
    (
        prop::collection::vec((lines_piece(900), prop_oneof![4 => Just(Bytes(vec![])), 1 => lit_of_interest()]), 2..=4),
        tail(),
    )
        .prop_map(|(blocks, tail)| {
            let mut out = vec![];
            for (l, sep) in blocks {
                out.push(l);
                if !sep.0.is_empty() {
                    out.push(Piece::Lit(sep));
                }
            }
            // at least the probe size
            let len = render(&out).len();
            if len <= PROBE_LIMIT {
                out.insert(0, Piece::Lines { body: "filler".into(), crlf: false, count: ((PROBE_LIMIT - len) / 7 + 2) as u32 });
            }
            out.push(Piece::Lit(tail));
            out
        })
}

/// Clean text up to beyond the probe, then a NUL / lone CR.
fn late_binary_pieces() -> impl Strategy<Value = Vec<Piece>> {
    (
        prop::sample::select(vec![&b"a"[..], b"abcdefg", b"foo bar"]),
        any::<bool>(),
        0u32..200,
        prop::sample::select(vec![&b"\0"[..], b"\r", b"\rx", b"a\r\n\0", b"\r\r\n"]),
        tail(),
    )
        .prop_map(|(body, crlf, extra, lit, tail)| {
            let line_len = body.len() as u32 + if crlf { 2 } else { 1 };
            let count = PROBE_LIMIT as u32 / line_len + 1 + extra;
            vec![
                Piece::Lines { body: Bytes(body.to_vec()), crlf, count },
                Piece::Lit(Bytes(lit.to_vec())),
                Piece::Lit(tail),
            ]
        })
}

/// Rewrites a recipe so that it contains no CRLF produced by a single piece
/// (the stored-LF-only shape the round-trip half of the property is about).
fn without_crlf(pieces: Vec<Piece>) -> Vec<Piece> {
    pieces
        .into_iter()
        .map(|p| match p {
            Piece::Lit(b) => Piece::Lit(Bytes(crlf_to_lf(&b.0))),
            Piece::Lines { body, count, .. } => Piece::Lines { body, crlf: false, count },
            pad => pad,
        })
        .collect()
}

fn case_strategy() -> impl Strategy<Value = Case> {
    (
        mode_strategy(),
        prop_oneof![
            4 => small_pieces(),
            4 => boundary_pieces(),
            1 => large_pieces(),
            1 => late_binary_pieces(),
        ],
        prop::bool::weighted(0.5),
    )
        .prop_map(|(mode, pieces, lf_only)| Case { mode, pieces: if lf_only { without_crlf(pieces) } else { pieces } })
}

pub fn run(report: &mut Report) {
    report.set_rule(
        "a case = (eol-conversion mode, content recipe); contents: shared small generators (LF/CRLF/mixed text, \
         lone CR, NUL, raw bytes, missing final newline, empty), a byte of interest (CR, NUL, LF, CRLF, CRCR, ...) \
         placed at offsets 8186..8198 in stored or in converted (disk) coordinates after 0-59 lines, 8-28 KiB line \
         blocks, and clean text beyond 8 KiB followed by NUL / lone CR. Each case checks: disk bytes after checkout \
         of stored X vs model; stored bytes after touch+snapshot vs model and (X without CRLF) == X; stored bytes \
         after snapshotting X as a new disk file vs model. Non-trivial = CR/LF/NUL within 4 bytes of the 8 KiB probe \
         limit (stored or disk side), or stored content classified binary, or no final newline; distinct by whole case",
    );
    report.assume(
        "the classifier model (NUL or lone CR within the first 8192 bytes, a CR in byte 8191 of a full probe ignored) \
         is taken from the documentation comments in eol.rs; text conversion = every bare LF -> CRLF on checkout, \
         every CRLF -> LF on snapshot, over the whole file",
    );
    let tier = report.tier;
    report.prop("convert", tier.pick(900, 60_000), case_strategy, check);
}
