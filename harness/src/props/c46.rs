//! C46 Evolution history is complete and acyclic.
//!
//! Stateful check: histories of rewrites over several operations (with
//! concurrent operations merged at load and "op restore"-like steps) are
//! interpreted against a `TestRepo`. The harness records every edge
//! `new <- predecessors` per operation; after every committed operation
//! `walk_predecessors` from every known commit (visible or hidden) is compared
//! with the transitive closure of the recorded edges.

use std::collections::BTreeMap;
use std::collections::BTreeSet;
use std::sync::Arc;

use futures::StreamExt as _;
use jj_lib::backend::CommitId;
use jj_lib::commit::Commit;
use jj_lib::evolution::WalkPredecessorsError;
use jj_lib::evolution::walk_predecessors;
use jj_lib::object_id::ObjectId as _;
use jj_lib::op_store::OperationId;
use jj_lib::operation::Operation;
use jj_lib::repo::MutableRepo;
use jj_lib::repo::ReadonlyRepo;
use jj_lib::repo::Repo as _;
use jj_lib::revset::RevsetExpression;
use jj_lib::rewrite::CommitWithSelection;
use jj_lib::rewrite::RebaseOptions;
use jj_lib::rewrite::RebasedCommit;
use jj_lib::rewrite::squash_commits;
use jj_lib::settings::UserSettings;
use pollster::FutureExt as _;
use proptest::prelude::*;
use serde::Deserialize;
use serde::Serialize;
use testutils::TestRepo;

use crate::engine::runner::CheckResult;
use crate::engine::runner::Outcome;
use crate::engine::runner::Report;
use crate::engine::runner::Violation;
use crate::engine::runner::pick;
use crate::ensure;
use crate::model::dag::BASE_TS;
use crate::model::dag::Dag;
use crate::model::dag::DagSpec;
use crate::model::dag::change_id;
use crate::model::dag::dag_spec;
use crate::model::dag::signature;
use crate::model::hist::CommitGraph;
use crate::model::hist::get_commit;
use crate::model::hist::loader_with;
use crate::model::hist::pinned_settings;
use crate::model::hist::reclocked;
use crate::model::hist::repo_with;
use crate::model::hist::tree_with_file;

#[derive(Debug, Clone, Serialize, Deserialize)]
pub enum Act {
    /// New commit on a visible parent.
    New { parent: u16 },
    /// Describe-like rewrite.
    Describe { target: u16 },
    /// Rebase-like rewrite onto another visible commit (not a descendant).
    Rebase { target: u16, dest: u16 },
    /// `squash_commits` of one whole commit into another (two predecessors).
    Squash { src: u16, dst: u16 },
    /// Split-like: two commits from one, the second with a new change id.
    Split { target: u16 },
    Abandon { target: u16 },
    /// 2–3 successive rewrites of one commit inside one transaction.
    Multi { target: u16, n: u8 },
}

#[derive(Debug, Clone, Serialize, Deserialize)]
pub enum Step {
    One(Act),
    /// Two transactions from one base, merged at load. If the two actions are
    /// rebases that would form a cycle (known jj defect outside this property),
    /// the second one is replaced by a describe of the same commit.
    Two(Act, Act),
    /// Same without that replacement. Never generated; used by the stored
    /// witness of the known defect.
    TwoRaw(Act, Act),
    /// Commit a transaction whose view is the view of an earlier operation.
    Restore { op: u16 },
}

#[derive(Debug, Clone, Serialize, Deserialize)]
pub struct Case {
    pub dag: DagSpec,
    pub steps: Vec<Step>,
    /// Two start commits for one multi-start walk at the end.
    pub pair: (u16, u16),
}

fn act() -> impl Strategy<Value = Act> {
    let t = any::<u16>;
    prop_oneof![
        8 => t().prop_map(|parent| Act::New { parent }),
        20 => t().prop_map(|target| Act::Describe { target }),
        15 => (t(), t()).prop_map(|(target, dest)| Act::Rebase { target, dest }),
        20 => (t(), t()).prop_map(|(src, dst)| Act::Squash { src, dst }),
        15 => t().prop_map(|target| Act::Split { target }),
        8 => t().prop_map(|target| Act::Abandon { target }),
        14 => (t(), 2u8..=3).prop_map(|(target, n)| Act::Multi { target, n }),
    ]
}

fn step() -> impl Strategy<Value = Step> {
    prop_oneof![
        70 => act().prop_map(Step::One),
        18 => (act(), act()).prop_map(|(a, b)| Step::Two(a, b)),
        12 => any::<u16>().prop_map(|op| Step::Restore { op }),
    ]
}

pub fn case(max_steps: usize) -> impl Strategy<Value = Case> {
    (
        dag_spec(2usize..=6, 2, 60),
        prop::collection::vec(step(), 1..=max_steps),
        (any::<u16>(), any::<u16>()),
    )
        .prop_map(|(dag, steps, pair)| Case { dag, steps, pair })
}

type Edges = BTreeMap<CommitId, Vec<CommitId>>;

struct OpNode {
    op: Operation,
    parents: Vec<usize>,
    /// Edges recorded by the harness for commits created in this operation.
    edges: Edges,
}

#[derive(Default)]
struct Stats {
    squash: u32,
    split: u32,
    multi: u32,
    merges: u32,
    restores: u32,
    restore_then_rewrite: bool,
    max_closure: usize,
    max_closure_interesting: usize,
    diamond: bool,
    forked: bool,
    walks: u64,
    discovered: u32,
    excluded_cycle_pairs: u32,
    applied: u32,
    skipped: u32,
}

struct World {
    base_settings: UserSettings,
    clock: i64,
    counter: u64,
    ops: Vec<OpNode>,
    /// Every commit the harness knows (creation/discovery order), root excluded.
    commits: Vec<Commit>,
    /// Parent pointers of `commits` (plus the root).
    graph: CommitGraph,
    stats: Stats,
    restored_since: bool,
}

fn err(ctx: &str, e: impl std::fmt::Display) -> Violation {
    Violation::new(format!("unexpected error from {ctx}: {e}"))
}

impl World {
    fn tick(&mut self) -> i64 {
        self.clock += 1000;
        self.clock
    }

    fn next_n(&mut self) -> u64 {
        self.counter += 1;
        self.counter
    }

    fn knows(&self, id: &CommitId) -> bool {
        self.commits.iter().any(|c| c.id() == id)
    }

    fn op_index(&self, id: &OperationId) -> Option<usize> {
        self.ops.iter().position(|o| o.op.id() == id)
    }

    fn op_ancestors(&self, idx: usize) -> BTreeSet<usize> {
        let mut seen = BTreeSet::new();
        let mut stack = vec![idx];
        while let Some(i) = stack.pop() {
            if seen.insert(i) {
                stack.extend(self.ops[i].parents.iter().copied());
            }
        }
        seen
    }

    /// Registers the operation `repo` is at (created by the harness or by the
    /// merge in `load_at_head`) with the edges the harness observed, then adds
    /// the commits jj created on its own (taken from the predecessors stored in
    /// the commit objects — the older, independent recording mechanism).
    fn absorb(
        &mut self,
        repo: &ReadonlyRepo,
        parents: Vec<usize>,
        observed: Edges,
    ) -> Result<usize, Violation> {
        let store = repo.store();
        let root_id = store.root_commit_id().clone();
        let mut edges = Edges::new();
        for (new_id, preds) in &observed {
            let commit = get_commit(store, new_id)?;
            ensure!(
                commit.store_commit().predecessors == *preds,
                "commit {new_id} was written with predecessors {preds:?} but its commit object stores {:?}",
                commit.store_commit().predecessors
            );
            if self.knows(new_id) {
                return Err(Violation::known(
                    "c46-id-reuse",
                    format!("commit id {new_id} was created twice (outside the domain)"),
                ));
            }
            self.graph.ensure(store, [new_id])?;
            self.commits.push(commit);
            edges.insert(new_id.clone(), preds.clone());
        }
        // Commits the harness did not create itself: reachable from the visible
        // heads (e.g. rebased inside the merge operation), or predecessors of
        // observed commits (hidden intermediates, e.g. the descendants that
        // squash_commits rebases internally before the caller rebases them again).
        self.graph.ensure(store, repo.view().heads())?;
        let mut todo: Vec<Commit> = vec![];
        // (BTreeSet order: deterministic)
        for id in self.graph.ancestors(repo.view().heads()).iter().rev() {
            if !self.knows(id) && id != &root_id {
                todo.push(get_commit(store, id)?);
            }
        }
        for preds in observed.values() {
            for p in preds {
                if !self.knows(p) && p != &root_id {
                    todo.push(get_commit(store, p)?);
                }
            }
        }
        while let Some(commit) = todo.pop() {
            if self.knows(commit.id()) || commit.id() == &root_id {
                continue;
            }
            self.graph.ensure(store, [commit.id()])?;
            let preds = commit.store_commit().predecessors.clone();
            for p in &preds {
                if !self.knows(p) && p != &root_id {
                    todo.push(get_commit(store, p)?);
                }
            }
            edges.insert(commit.id().clone(), preds);
            self.commits.push(commit);
            self.stats.discovered += 1;
        }
        self.ops.push(OpNode {
            op: repo.operation().clone(),
            parents,
            edges,
        });
        Ok(self.ops.len() - 1)
    }
}

/// Applies one action; returns the edges it is responsible for, or `None` if
/// the action does not apply.
fn apply(
    act: &Act,
    mut_repo: &mut MutableRepo,
    world: &mut World,
    visible: &[Commit],
) -> Result<Option<Edges>, Violation> {
    // `visible` and all ancestors are in world.graph (see visible_commits)
    let store = mut_repo.store().clone();
    let mut edges = Edges::new();
    let n = world.next_n();
    let pick_visible = |raw: u16| -> Option<Commit> {
        (!visible.is_empty()).then(|| visible[pick(raw, visible.len())].clone())
    };
    match act {
        Act::New { parent } => {
            // index 0 = root, else a visible commit
            let k = pick(*parent, visible.len() + 1);
            let p = if k == 0 { store.root_commit() } else { visible[k - 1].clone() };
            let tree = tree_with_file(&store, p.tree(), &format!("n{n}"), &format!("{n}\n"));
            let sig = signature(world.tick());
            let c = mut_repo
                .new_commit(vec![p.id().clone()], tree)
                .set_change_id(change_id(5000 + n))
                .set_description(format!("new {n}"))
                .set_author(sig.clone())
                .set_committer(sig)
                .write()
                .block_on()
                .map_err(|e| err("new_commit().write()", e))?;
            edges.insert(c.id().clone(), vec![]);
        }
        Act::Describe { target } => {
            let Some(c) = pick_visible(*target) else { return Ok(None) };
            let sig = signature(world.tick());
            let new = mut_repo
                .rewrite_commit(&c)
                .set_description(format!("describe {n}"))
                .set_committer(sig)
                .write()
                .block_on()
                .map_err(|e| err("rewrite_commit().write()", e))?;
            edges.insert(new.id().clone(), vec![c.id().clone()]);
        }
        Act::Rebase { target, dest } => {
            let Some((c, d)) = rebase_operands(&store, visible, *target, *dest) else {
                return Ok(None);
            };
            if world.graph.ancestors([d.id()]).contains(c.id()) {
                return Ok(None);
            }
            let sig = signature(world.tick());
            let new = mut_repo
                .rewrite_commit(&c)
                .set_parents(vec![d.id().clone()])
                .set_description(format!("rebase {n}"))
                .set_committer(sig)
                .write()
                .block_on()
                .map_err(|e| err("rewrite_commit().set_parents().write()", e))?;
            edges.insert(new.id().clone(), vec![c.id().clone()]);
        }
        Act::Squash { src, dst } => {
            if visible.len() < 2 {
                return Ok(None);
            }
            let i = pick(*src, visible.len());
            let mut j = pick(*dst, visible.len() - 1);
            if j >= i {
                j += 1;
            }
            let (s, d) = (visible[i].clone(), visible[j].clone());
            let parent_tree = s
                .parent_tree(mut_repo)
                .block_on()
                .map_err(|e| err("parent_tree", e))?;
            let source = CommitWithSelection {
                selected_tree: s.tree(),
                parent_tree,
                commit: s.clone(),
            };
            let sig = signature(world.tick());
            let squashed = squash_commits(mut_repo, &[source], &d, false)
                .block_on()
                .map_err(|e| err("squash_commits", e))?;
            let Some(squashed) = squashed else { return Ok(None) };
            let new = squashed
                .commit_builder
                .set_description(format!("squash {n}"))
                .set_committer(sig)
                .write()
                .block_on()
                .map_err(|e| err("squash commit_builder.write()", e))?;
            edges.insert(new.id().clone(), vec![d.id().clone(), s.id().clone()]);
            world.stats.squash += 1;
        }
        Act::Split { target } => {
            let Some(c) = pick_visible(*target) else { return Ok(None) };
            let sig1 = signature(world.tick());
            let first = mut_repo
                .rewrite_commit(&c)
                .set_description(format!("split {n} first"))
                .set_committer(sig1)
                .write()
                .block_on()
                .map_err(|e| err("split first write()", e))?;
            let sig2 = signature(world.tick());
            let second = mut_repo
                .rewrite_commit(&c)
                .clear_rewrite_source()
                .set_change_id(change_id(9000 + n))
                .set_parents(vec![first.id().clone()])
                .set_description(format!("split {n} second"))
                .set_committer(sig2)
                .write()
                .block_on()
                .map_err(|e| err("split second write()", e))?;
            edges.insert(first.id().clone(), vec![c.id().clone()]);
            edges.insert(second.id().clone(), vec![c.id().clone()]);
            world.stats.split += 1;
        }
        Act::Abandon { target } => {
            let Some(c) = pick_visible(*target) else { return Ok(None) };
            mut_repo.record_abandoned_commit(&c);
        }
        Act::Multi { target, n: times } => {
            let Some(c) = pick_visible(*target) else { return Ok(None) };
            let mut prev = c;
            for k in 0..*times {
                let sig = signature(world.tick());
                let new = mut_repo
                    .rewrite_commit(&prev)
                    .set_description(format!("multi {n}.{k}"))
                    .set_committer(sig)
                    .write()
                    .block_on()
                    .map_err(|e| err("rewrite_commit().write()", e))?;
                edges.insert(new.id().clone(), vec![prev.id().clone()]);
                prev = new;
            }
            world.stats.multi += 1;
        }
    }
    let mut rebased: Vec<(CommitId, CommitId)> = vec![];
    mut_repo
        .rebase_descendants_with_options(
            &RevsetExpression::none(),
            &RebaseOptions::default(),
            |old, new| {
                if let RebasedCommit::Rewritten(new) = new {
                    rebased.push((new.id().clone(), old.id().clone()));
                }
            },
        )
        .block_on()
        .map_err(|e| err("rebase_descendants", e))?;
    for (new, old) in rebased {
        // squash_commits may already have rebased descendants internally; a
        // later callback for the same new id cannot happen (ids are unique).
        edges.insert(new, vec![old]);
    }
    Ok(Some(edges))
}

/// Operands of a `Rebase` action: (commit to move, new parent).
fn rebase_operands(
    store: &Arc<jj_lib::store::Store>,
    visible: &[Commit],
    target: u16,
    dest: u16,
) -> Option<(Commit, Commit)> {
    if visible.is_empty() {
        return None;
    }
    let c = visible[pick(target, visible.len())].clone();
    let k = pick(dest, visible.len() + 1);
    let d = if k == 0 { store.root_commit() } else { visible[k - 1].clone() };
    Some((c, d))
}

/// Known jj defect outside this property (found by this check, see the
/// `witnesses/` file): when one operation rebases X onto (a descendant of) Y
/// and a concurrent one rebases Y onto (a descendant of) X, the merge of the
/// two operations in `load_at_head` either panics with "graph has cycle"
/// (`order_commits_for_rebase`) or leaves a rewritten commit visible. Such
/// pairs are excluded by construction: the second action becomes a describe.
fn is_rebase_cycle_pair(
    store: &Arc<jj_lib::store::Store>,
    graph: &CommitGraph,
    visible: &[Commit],
    a: &Act,
    b: &Act,
) -> bool {
    let (Act::Rebase { target: ta, dest: da }, Act::Rebase { target: tb, dest: db }) = (a, b) else {
        return false;
    };
    let (Some((xa, ya)), Some((xb, yb))) = (
        rebase_operands(store, visible, *ta, *da),
        rebase_operands(store, visible, *tb, *db),
    ) else {
        return false;
    };
    // dest of A is B's target or below it, and dest of B is A's target or below it
    graph.ancestors([ya.id()]).contains(xb.id()) && graph.ancestors([yb.id()]).contains(xa.id())
}

fn visible_commits(repo: &ReadonlyRepo, world: &mut World) -> Result<Vec<Commit>, Violation> {
    world.graph.ensure(repo.store(), repo.view().heads())?;
    let ids = world.graph.ancestors(repo.view().heads());
    Ok(world
        .commits
        .iter()
        .filter(|c| ids.contains(c.id()))
        .cloned()
        .collect())
}

fn run_tx(
    repo: &Arc<ReadonlyRepo>,
    base_idx: usize,
    act: &Act,
    world: &mut World,
) -> Result<Option<(Arc<ReadonlyRepo>, usize)>, Violation> {
    let visible = visible_commits(repo, world)?;
    let ts = world.tick();
    let repo_t = repo_with(repo, reclocked(&world.base_settings, ts))?;
    let mut tx = repo_t.start_transaction();
    let Some(edges) = apply(act, tx.repo_mut(), world, &visible)? else {
        world.stats.skipped += 1;
        return Ok(None);
    };
    world.stats.applied += 1;
    if world.restored_since && !edges.is_empty() {
        world.stats.restore_then_rewrite = true;
    }
    let new_repo = tx
        .commit(format!("{act:?}"))
        .block_on()
        .map_err(|e| err("Transaction::commit", e))?;
    let idx = world.absorb(&new_repo, vec![base_idx], edges)?;
    Ok(Some((new_repo, idx)))
}

struct Closures {
    /// Union of the edges of the ancestor operations.
    edges: Edges,
    /// Operation (model index) that recorded each commit.
    recorded_in: BTreeMap<CommitId, usize>,
}

impl Closures {
    fn new(world: &World, op_idx: usize) -> Result<Self, Violation> {
        let mut edges = Edges::new();
        let mut recorded_in = BTreeMap::new();
        for i in world.op_ancestors(op_idx) {
            for (id, preds) in &world.ops[i].edges {
                if edges.insert(id.clone(), preds.clone()).is_some() {
                    return Err(Violation::known(
                        "c46-id-reuse",
                        format!("commit id {id} was created in two operations (outside the domain)"),
                    ));
                }
                recorded_in.insert(id.clone(), i);
            }
        }
        Ok(Self { edges, recorded_in })
    }

    /// Transitive closure from `start` (inclusive); also reports whether some
    /// commit is reached over two different edges.
    fn closure(&self, start: &[CommitId]) -> (BTreeSet<CommitId>, bool) {
        let mut seen = BTreeSet::new();
        let mut diamond = false;
        let mut stack: Vec<CommitId> = start.to_vec();
        while let Some(id) = stack.pop() {
            if !seen.insert(id.clone()) {
                continue;
            }
            for p in self.edges.get(&id).into_iter().flatten() {
                if seen.contains(p) || stack.contains(p) {
                    diamond = true;
                }
                stack.push(p.clone());
            }
        }
        (seen, diamond)
    }
}

/// The property for one walk.
fn check_walk(
    repo: &ReadonlyRepo,
    world: &World,
    closures: &Closures,
    start: &[CommitId],
    ctx: &str,
) -> Result<(usize, bool, bool), Violation> {
    let (expected, diamond) = closures.closure(start);
    let bound = world.commits.len() + 2;
    let items: Vec<_> = walk_predecessors(repo, start).take(bound).collect().block_on();
    let mut ids: Vec<CommitId> = vec![];
    for item in &items {
        match item {
            Ok(entry) => ids.push(entry.commit.id().clone()),
            Err(WalkPredecessorsError::CycleDetected(id)) => {
                return Err(Violation::new(format!(
                    "{ctx}: walk_predecessors({start:?}) reports a cycle around {id} but the recorded history is acyclic"
                )));
            }
            Err(e) => return Err(err(&format!("{ctx}: walk_predecessors({start:?})"), e)),
        }
    }
    ensure!(
        ids.len() <= world.commits.len() + 1,
        "{ctx}: walk_predecessors({start:?}) yields more than {} entries although only {} commits exist (no termination / repeats): {ids:?}",
        world.commits.len() + 1,
        world.commits.len()
    );
    let set: BTreeSet<CommitId> = ids.iter().cloned().collect();
    ensure!(
        set.len() == ids.len(),
        "{ctx}: walk_predecessors({start:?}) lists a commit more than once: {ids:?}"
    );
    ensure!(
        set == expected,
        "{ctx}: walk_predecessors({start:?}) = {ids:?}, but the recorded rewrites give the closure {expected:?} (missing {:?}, extra {:?}); commits: {}",
        expected.difference(&set).collect::<Vec<_>>(),
        set.difference(&expected).collect::<Vec<_>>(),
        world
            .commits
            .iter()
            .map(|c| format!(
                "{}={:?}<-{:?}",
                c.id(),
                c.description(),
                closures.edges.get(c.id())
            ))
            .collect::<Vec<_>>()
            .join("; ")
    );
    // successors before predecessors
    for (i, a) in ids.iter().enumerate() {
        for b in &ids[i + 1..] {
            let (cl, _) = closures.closure(std::slice::from_ref(b));
            ensure!(
                !cl.contains(a),
                "{ctx}: walk_predecessors({start:?}) lists {a} before {b}, which was (transitively) rewritten from it: {ids:?}"
            );
        }
    }
    let mut multi = false;
    for entry in items.iter().flatten() {
        let id = entry.commit.id();
        match closures.edges.get(id) {
            Some(preds) => {
                ensure!(
                    entry.predecessor_ids() == preds.as_slice(),
                    "{ctx}: entry for {id} has predecessors {:?}, recorded edge is {preds:?}",
                    entry.predecessor_ids()
                );
                let op = &world.ops[closures.recorded_in[id]].op;
                ensure!(
                    entry.operation.as_ref().map(|o| o.id()) == Some(op.id()),
                    "{ctx}: entry for {id} names operation {:?}, it was recorded in {}",
                    entry.operation.as_ref().map(|o| o.id().hex()),
                    op.id().hex()
                );
                multi |= preds.len() > 1;
            }
            None => {
                ensure!(
                    entry.predecessor_ids().is_empty() && entry.operation.is_none(),
                    "{ctx}: entry for {id} (not recorded in any ancestor operation) has predecessors {:?} / operation {:?}",
                    entry.predecessor_ids(),
                    entry.operation.as_ref().map(|o| o.id().hex())
                );
            }
        }
    }
    Ok((expected.len(), diamond, multi))
}

fn check_all_walks(
    repo: &ReadonlyRepo,
    op_idx: usize,
    world: &mut World,
    ctx: &str,
) -> Result<(), Violation> {
    let closures = Closures::new(world, op_idx)?;
    let interesting_ctx = world.stats.merges > 0 || world.stats.restores > 0;
    let mut successors: BTreeMap<&CommitId, usize> = BTreeMap::new();
    for preds in closures.edges.values() {
        for p in preds {
            *successors.entry(p).or_default() += 1;
        }
    }
    let forked = successors.values().any(|n| *n > 1);
    let starts: Vec<CommitId> = world.commits.iter().map(|c| c.id().clone()).collect();
    for id in &starts {
        let (size, diamond, multi) =
            check_walk(repo, world, &closures, std::slice::from_ref(id), ctx)?;
        world.stats.walks += 1;
        world.stats.max_closure = world.stats.max_closure.max(size);
        if multi || interesting_ctx {
            world.stats.max_closure_interesting = world.stats.max_closure_interesting.max(size);
        }
        world.stats.diamond |= diamond;
    }
    world.stats.forked |= forked;
    Ok(())
}

fn check(case: &Case) -> CheckResult {
    match check_inner(case) {
        // Not reachable with strictly increasing clocks; kept as a guard so that
        // an id collision (outside the domain) can never be reported as a defect.
        Err(v) if v.signature == Some("c46-id-reuse") => Ok(Outcome::trivial().class("id-reuse (out of domain)")),
        other => other,
    }
}

fn check_inner(case: &Case) -> CheckResult {
    let base_settings = pinned_settings(BASE_TS, 11);
    let test_repo = TestRepo::init_with_settings(&base_settings);
    let mut world = World {
        base_settings: base_settings.clone(),
        clock: BASE_TS + 1_000_000,
        counter: 0,
        ops: vec![],
        commits: vec![],
        graph: CommitGraph::default(),
        stats: Stats::default(),
        restored_since: false,
    };
    // operation 0: the (empty) repo as initialised
    let repo0 = test_repo.repo.clone();
    world.absorb(&repo0, vec![], Edges::new())?;
    // operation 1: the base DAG, every commit with its own file
    let dag = Dag::from_spec(&case.dag);
    let mut repo;
    let mut cur;
    {
        let ts = world.tick();
        let repo_t = repo_with(&repo0, reclocked(&base_settings, ts))?;
        let mut tx = repo_t.start_transaction();
        let store = repo_t.store().clone();
        let mut commits: Vec<Commit> = vec![store.root_commit()];
        let mut edges = Edges::new();
        for i in 1..dag.len() {
            let parents: Vec<Commit> = dag.parents[i].iter().map(|p| commits[*p].clone()).collect();
            let base = jj_lib::rewrite::merge_commit_trees(tx.repo(), &parents)
                .block_on()
                .map_err(|e| err("merge_commit_trees", e))?;
            let tree = tree_with_file(&store, base, &format!("c{i}"), &format!("{i}\n"));
            let sig = signature(world.tick());
            let c = tx
                .repo_mut()
                .new_commit(parents.iter().map(|p| p.id().clone()).collect(), tree)
                .set_change_id(change_id(i as u64))
                .set_description(format!("c{i}"))
                .set_author(sig.clone())
                .set_committer(sig)
                .write()
                .block_on()
                .map_err(|e| err("new_commit().write()", e))?;
            edges.insert(c.id().clone(), vec![]);
            commits.push(c);
        }
        repo = tx
            .commit("build dag")
            .block_on()
            .map_err(|e| err("Transaction::commit", e))?;
        cur = world.absorb(&repo, vec![0], edges)?;
    }
    check_all_walks(&repo, cur, &mut world, "after building the base DAG")?;

    for (k, step) in case.steps.iter().enumerate() {
        match step {
            Step::One(act) => {
                if let Some((r, idx)) = run_tx(&repo, cur, act, &mut world)? {
                    repo = r;
                    cur = idx;
                    check_all_walks(&repo, cur, &mut world, &format!("step {k} {act:?}"))?;
                }
            }
            Step::Two(a, b) | Step::TwoRaw(a, b) => {
                let ctx = format!("step {k} concurrent {a:?} | {b:?}");
                let visible = visible_commits(&repo, &mut world)?;
                let replaced;
                let b = if matches!(step, Step::Two(..))
                    && is_rebase_cycle_pair(repo.store(), &world.graph, &visible, a, b)
                {
                    world.stats.excluded_cycle_pairs += 1;
                    let Act::Rebase { target, .. } = b else { unreachable!() };
                    replaced = Act::Describe { target: *target };
                    &replaced
                } else {
                    b
                };
                let ra = run_tx(&repo, cur, a, &mut world)?;
                let rb = run_tx(&repo, cur, b, &mut world)?;
                for (r, idx) in [&ra, &rb].into_iter().flatten() {
                    // from one side, the other side's records are not ancestors
                    check_all_walks(r, *idx, &mut world, &format!("{ctx}: one side"))?;
                }
                if ra.is_none() && rb.is_none() {
                    continue;
                }
                let ts = world.tick();
                let merged = crate::engine::runner::catch(|| {
                    loader_with(&repo, reclocked(&world.base_settings, ts))
                        .load_at_head()
                        .block_on()
                        .map_err(|e| err("load_at_head (merge of concurrent operations)", e))
                })
                .map_err(|v| {
                    if v.msg.contains("graph has cycle") {
                        Violation::known("c46-concurrent-rebase-cycle", format!("{ctx}: {}", v.msg))
                    } else {
                        v
                    }
                })?;
                cur = match world.op_index(merged.op_id()) {
                    Some(idx) => idx,
                    None => {
                        let mut parents = vec![];
                        for pid in merged.operation().parent_ids() {
                            let Some(p) = world.op_index(pid) else {
                                return Err(Violation::new(format!(
                                    "{ctx}: the operation at head has an unknown parent {}",
                                    pid.hex()
                                )));
                            };
                            parents.push(p);
                        }
                        ensure!(parents.len() == 2, "{ctx}: merge operation with {} parents", parents.len());
                        world.stats.merges += 1;
                        world.absorb(&merged, parents, Edges::new())?
                    }
                };
                repo = merged;
                check_all_walks(&repo, cur, &mut world, &format!("{ctx}: merged at head"))?;
            }
            Step::Restore { op } => {
                let anc: Vec<usize> = world.op_ancestors(cur).into_iter().filter(|i| *i != cur).collect();
                if anc.is_empty() {
                    continue;
                }
                let target = anc[pick(*op, anc.len())];
                let old_repo = repo
                    .loader()
                    .load_at(&world.ops[target].op)
                    .block_on()
                    .map_err(|e| err("load_at(old operation)", e))?;
                let ts = world.tick();
                let repo_t = repo_with(&repo, reclocked(&world.base_settings, ts))?;
                let mut tx = repo_t.start_transaction();
                tx.repo_mut().set_view(old_repo.view().store_view().clone());
                repo = tx
                    .commit(format!("restore to operation {target}"))
                    .block_on()
                    .map_err(|e| err("Transaction::commit (restore)", e))?;
                cur = world.absorb(&repo, vec![cur], Edges::new())?;
                world.stats.restores += 1;
                world.restored_since = true;
                check_all_walks(&repo, cur, &mut world, &format!("step {k} restore to op #{target}"))?;
            }
        }
    }
    // one multi-start walk
    if world.commits.len() >= 2 {
        let i = pick(case.pair.0, world.commits.len());
        let mut j = pick(case.pair.1, world.commits.len() - 1);
        if j >= i {
            j += 1;
        }
        let start = [world.commits[i].id().clone(), world.commits[j].id().clone()];
        let closures = Closures::new(&world, cur)?;
        check_walk(&repo, &world, &closures, &start, "final two-start walk")?;
    }
    let s = &world.stats;
    let nontrivial = s.max_closure_interesting >= 3 && (s.squash > 0 || s.merges > 0 || s.restores > 0);
    Ok(Outcome::new(nontrivial)
        .class_if(s.squash > 0, "squash (multi-predecessor)")
        .class_if(s.split > 0, "split")
        .class_if(s.multi > 0, "several-rewrites-in-one-tx")
        .class_if(s.merges > 0, "concurrent-merge")
        .class_if(s.restores > 0, "restore")
        .class_if(s.restore_then_rewrite, "rewrite-after-restore")
        .class_if(s.diamond, "diamond-in-closure")
        .class_if(s.forked, "commit-with-2-successors")
        .class_if(s.max_closure >= 5, "closure>=5")
        .class_if(s.max_closure >= 8, "closure>=8")
        .class_if(s.discovered > 0, "commits-created-inside-jj")
        .class_if(s.excluded_cycle_pairs > 0, "excluded: concurrent rebases forming a cycle")
        .class_if(s.skipped > s.applied, "mostly-skipped"))
}

pub fn run(report: &mut Report) {
    report.set_rule(
        "case = base DAG (2..6 commits, own file each) + up to 12 steps: new commit, describe-like \
         rewrite, rebase-like rewrite, squash_commits (two predecessors), split-like (second commit with \
         a new change id), abandon, 2-3 rewrites of one commit in one transaction; each followed by \
         rebase_descendants and committed as its own operation; two transactions from one base merged \
         by load_at_head; restore (transaction whose view is an earlier operation's view) followed by \
         more rewrites. Every transaction runs with a later commit/operation clock and every explicit \
         write has a later committer timestamp and a fresh description, so no commit id can be \
         recreated. After every committed operation, walk_predecessors from every known commit (visible \
         or hidden) is compared with the closure of the edges the harness recorded for the ancestor \
         operations (for commits jj creates internally, e.g. in the merge operation, the edge is the \
         predecessor list stored in the commit object). non-trivial = some walked closure has >= 3 \
         commits with a multi-predecessor edge in it or after a merge/restore, and the history has a \
         squash, a concurrent merge or a restore.",
    );
    report.assume("experimental.record-predecessors-in-commit keeps its default (true): commit objects carry the predecessor list used as model edge for commits created inside jj");
    report.assume("operation parent ids of the merge operation are read from jj (plumbing, not under test)");
    let cases = report.tier.pick(200, 10_000);
    report.prop("histories", cases, || case(12), check);
}
