//! C09 Moving changes down a stack never alters the snapshots above it.
//!
//! Engine `cli`: a generated stack (linear, with optional side branch and merge
//! child, working-copy commit on top) is built through the real CLI; then one of
//! `jj squash -r X` (whole commit into its parent), `jj absorb --from X`,
//! `jj split -r X -m msg <paths>` runs on a random X. Commit graphs before and
//! after are read in-process and compared by change id.

use std::collections::BTreeMap;
use std::collections::BTreeSet;
use std::path::Path;

use jj_lib::object_id::ObjectId as _;
use jj_lib::repo::Repo as _;
use proptest::prelude::*;
use serde::Deserialize;
use serde::Serialize;

use crate::engine::cli::load_at_op;
use crate::engine::cli::loader_for;
use crate::engine::cli::op_head_ids;
use crate::engine::clihist::PATHS;
use crate::engine::runner::CheckResult;
use crate::engine::runner::Outcome;
use crate::engine::runner::Report;
use crate::engine::runner::Violation;
use crate::engine::runner::pick;
use crate::props::c40::World;

/// Line-structured contents so that absorb has hunks to distribute.
const LINES: &[&str] = &["alpha", "beta", "gamma", "delta", "epsilon", "zeta", "eta", "theta"];

#[derive(Debug, Clone, Serialize, Deserialize)]
pub enum FileEdit {
    /// Replace line `line` of file `path` (created with all LINES if missing).
    ChangeLine { path: u16, line: u16, tag: u8 },
    /// Insert a new line after `line`.
    InsertLine { path: u16, line: u16, tag: u8 },
    DeleteFile { path: u16 },
    Chmod { path: u16 },
}

#[derive(Debug, Clone, Serialize, Deserialize)]
pub enum Action {
    Squash,
    Absorb,
    Split(Vec<u16>),
}

#[derive(Debug, Clone, Serialize, Deserialize)]
pub struct Case {
    /// One entry per commit of the stack: the edits made before `jj commit`.
    pub stack: Vec<Vec<FileEdit>>,
    /// Create a side branch + merge child above this stack position.
    pub merge_at: Option<u16>,
    /// Edits left in the working-copy commit.
    pub wc_edits: Vec<FileEdit>,
    /// Which commit of the stack (raw) the action targets.
    pub target: u16,
    pub action: Action,
}

fn file_edit() -> impl Strategy<Value = FileEdit> {
    prop_oneof![
        8 => (any::<u16>(), any::<u16>(), any::<u8>())
            .prop_map(|(path, line, tag)| FileEdit::ChangeLine { path, line, tag }),
        3 => (any::<u16>(), any::<u16>(), any::<u8>())
            .prop_map(|(path, line, tag)| FileEdit::InsertLine { path, line, tag }),
        1 => any::<u16>().prop_map(|path| FileEdit::DeleteFile { path }),
        1 => any::<u16>().prop_map(|path| FileEdit::Chmod { path }),
    ]
}

const C09_PATHS: usize = 4; // keep edits concentrated on few files

fn apply(ws: &Path, e: &FileEdit) {
    let path_of = |p: u16| ws.join(PATHS[pick(p, C09_PATHS)]);
    let read_lines = |p: &Path| -> Vec<String> {
        match std::fs::read_to_string(p) {
            Ok(s) => s.lines().map(|l| l.to_string()).collect(),
            Err(_) => LINES.iter().map(|l| l.to_string()).collect(),
        }
    };
    let write_lines = |p: &Path, lines: &[String]| {
        if let Some(parent) = p.parent() {
            std::fs::create_dir_all(parent).ok();
        }
        let mut s = lines.join("\n");
        s.push('\n');
        std::fs::write(p, s).ok();
    };
    match e {
        FileEdit::ChangeLine { path, line, tag } => {
            let p = path_of(*path);
            let mut lines = read_lines(&p);
            if lines.is_empty() {
                lines.push(String::new());
            }
            let i = pick(*line, lines.len());
            lines[i] = format!("{} v{}", LINES[i % LINES.len()], tag % 7);
            write_lines(&p, &lines);
        }
        FileEdit::InsertLine { path, line, tag } => {
            let p = path_of(*path);
            let mut lines = read_lines(&p);
            let i = pick(*line, lines.len() + 1);
            lines.insert(i, format!("inserted {}", tag % 5));
            write_lines(&p, &lines);
        }
        FileEdit::DeleteFile { path } => {
            std::fs::remove_file(path_of(*path)).ok();
        }
        FileEdit::Chmod { path } => {
            use std::os::unix::fs::PermissionsExt as _;
            let p = path_of(*path);
            if let Ok(meta) = std::fs::metadata(&p) {
                let mode = meta.permissions().mode();
                std::fs::set_permissions(&p, std::fs::Permissions::from_mode(mode ^ 0o111)).ok();
            }
        }
    }
}

#[derive(Debug, Clone)]
struct CommitInfo {
    commit_id: String,
    change_id: String,
    parents: Vec<String>,
    tree: String,
    description: String,
}

/// All visible commits at the current head operation, keyed by commit id.
fn graph(repo_dir: &Path) -> Result<(BTreeMap<String, CommitInfo>, String), String> {
    let loader = loader_for(repo_dir)?;
    let heads = op_head_ids(repo_dir);
    if heads.len() != 1 {
        return Err(format!("expected one op head: {heads:?}"));
    }
    let repo = load_at_op(&loader, &heads[0])?;
    let store = repo.store().clone();
    let mut out = BTreeMap::new();
    let mut stack: Vec<jj_lib::backend::CommitId> = repo.view().heads().iter().cloned().collect();
    while let Some(id) = stack.pop() {
        if out.contains_key(&id.hex()) {
            continue;
        }
        let c = store.get_commit(&id).map_err(|e| e.to_string())?;
        out.insert(
            id.hex(),
            CommitInfo {
                commit_id: id.hex(),
                change_id: c.change_id().hex(),
                parents: c.parent_ids().iter().map(|p| p.hex()).collect(),
                tree: format!("{:?}", c.tree_ids()),
                description: c.description().to_string(),
            },
        );
        stack.extend(c.parent_ids().iter().cloned());
    }
    let wc = repo
        .view()
        .wc_commit_ids()
        .values()
        .next()
        .map(|id| id.hex())
        .unwrap_or_default();
    Ok((out, wc))
}

fn descendants(g: &BTreeMap<String, CommitInfo>, of: &str) -> BTreeSet<String> {
    let mut out = BTreeSet::new();
    out.insert(of.to_string());
    loop {
        let before = out.len();
        for c in g.values() {
            if c.parents.iter().any(|p| out.contains(p)) {
                out.insert(c.commit_id.clone());
            }
        }
        if out.len() == before {
            return out;
        }
    }
}

fn ancestors(g: &BTreeMap<String, CommitInfo>, of: &str) -> BTreeSet<String> {
    let mut out = BTreeSet::new();
    let mut stack = vec![of.to_string()];
    while let Some(id) = stack.pop() {
        if out.insert(id.clone())
            && let Some(c) = g.get(&id)
        {
            stack.extend(c.parents.iter().cloned());
        }
    }
    out
}

fn check(case: &Case) -> CheckResult {
    let mut world = World::new("c09-")?;
    let ws = world.ws_dirs[0].clone();
    let run = |world: &mut World, args: &[&str]| {
        let v: Vec<String> = args.iter().map(|s| s.to_string()).collect();
        world.run(0, &v)
    };
    // Build the stack.
    let mut stack_descriptions = vec![];
    for (i, edits) in case.stack.iter().enumerate() {
        for e in edits {
            apply(&ws, e);
        }
        let desc = format!("stack {i}");
        run(&mut world, &["commit", "-m", &desc]);
        stack_descriptions.push(desc.clone());
        if let Some(m) = case.merge_at
            && pick(m, case.stack.len()) == i
        {
            // side branch off the commit just created, then a merge child of both
            run(&mut world, &["new", "@--", "-m", "side"]);
            std::fs::write(ws.join("side-file"), "side\n").ok();
            run(&mut world, &["new", "@", &format!("description(glob:\"{desc}*\")"), "-m", "merge"]);
            run(&mut world, &["new"]);
        }
    }
    for e in &case.wc_edits {
        apply(&ws, e);
    }
    run(&mut world, &["status"]);
    let (before, wc_before) = graph(&world.repo_dir).map_err(Violation::new)?;
    // Pick the target among the stack commits (by description).
    let target_desc = &stack_descriptions[pick(case.target, stack_descriptions.len())];
    let Some(x) = before.values().find(|c| c.description.trim() == target_desc.as_str()).cloned() else {
        return Ok(Outcome::trivial().class("target-not-found"));
    };
    let args: Vec<String> = match &case.action {
        Action::Squash => vec!["squash".into(), "-r".into(), x.commit_id.clone()],
        Action::Absorb => vec!["absorb".into(), "--from".into(), x.commit_id.clone()],
        Action::Split(paths) => {
            let mut a = vec![
                "split".into(),
                "-r".into(),
                x.commit_id.clone(),
                "-m".into(),
                "split first part".into(),
            ];
            let mut chosen: BTreeSet<&str> = BTreeSet::new();
            for p in paths {
                chosen.insert(PATHS[pick(*p, C09_PATHS)]);
            }
            a.extend(chosen.iter().map(|p| p.to_string()));
            a
        }
    };
    let out = world.run(0, &args);
    if out.signal.is_some() {
        return Err(Violation::new(format!("`jj {}` died: {}", args.join(" "), out.brief())));
    }
    if !out.success() {
        return Ok(Outcome::trivial().class("command-refused"));
    }
    let (after, wc_after) = graph(&world.repo_dir).map_err(Violation::new)?;
    let what = format!("`jj {}` on commit {:?}", args.join(" "), x.description.trim());
    let by_change = |g: &BTreeMap<String, CommitInfo>| -> BTreeMap<String, Vec<CommitInfo>> {
        let mut m: BTreeMap<String, Vec<CommitInfo>> = BTreeMap::new();
        for c in g.values() {
            m.entry(c.change_id.clone()).or_default().push(c.clone());
        }
        m
    };
    let after_by_change = by_change(&after);
    let desc_x = descendants(&before, &x.commit_id);
    let anc_x = ancestors(&before, &x.commit_id);
    // (1) trees of every descendant of X (including @) are unchanged.
    for d in &desc_x {
        if d == &x.commit_id {
            continue;
        }
        let c = &before[d];
        let Some(news) = after_by_change.get(&c.change_id) else {
            // The working-copy commit may be replaced when it was discardable.
            if *d == wc_before {
                continue;
            }
            return Err(Violation::new(format!(
                "{what}: descendant {:?} (change {}) disappeared",
                c.description.trim(),
                &c.change_id[..8]
            )));
        };
        if news.len() != 1 || news[0].tree != c.tree {
            return Err(Violation::new(format!(
                "{what}: tree of descendant {:?} changed: {} -> {:?}",
                c.description.trim(),
                c.tree,
                news.iter().map(|n| n.tree.clone()).collect::<Vec<_>>()
            )));
        }
    }
    // (2) the topmost resulting commit has X's tree.
    match &case.action {
        Action::Squash => {
            // parent of X absorbs everything: its new version has X's tree
            let [p] = x.parents.as_slice() else {
                return Err(Violation::new(format!("{what}: squash of a merge commit succeeded")));
            };
            let pc = &before[p];
            let Some([np]) = after_by_change.get(&pc.change_id).map(|v| v.as_slice()) else {
                return Err(Violation::new(format!("{what}: parent change vanished")));
            };
            if np.tree != x.tree {
                return Err(Violation::new(format!(
                    "{what}: after squashing the whole commit, the parent's tree {} is not the squashed \
                     commit's tree {}",
                    np.tree, x.tree
                )));
            }
        }
        Action::Absorb => {
            // the source is reparented: same tree (it may be abandoned if it became empty)
            if let Some([nx]) = after_by_change.get(&x.change_id).map(|v| v.as_slice())
                && nx.tree != x.tree
            {
                return Err(Violation::new(format!(
                    "{what}: absorb changed the source commit's tree {} -> {}",
                    x.tree, nx.tree
                )));
            }
        }
        Action::Split(_) => {
            let Some([x1]) = after_by_change.get(&x.change_id).map(|v| v.as_slice()) else {
                return Err(Violation::new(format!("{what}: split lost the original change id")));
            };
            let before_changes: BTreeSet<&String> = before.values().map(|c| &c.change_id).collect();
            let seconds: Vec<&CommitInfo> = after
                .values()
                .filter(|c| c.parents == vec![x1.commit_id.clone()] && !before_changes.contains(&c.change_id))
                .collect();
            let [x2] = seconds.as_slice() else {
                return Err(Violation::new(format!(
                    "{what}: expected exactly one new second commit on top of the first part, found {}",
                    seconds.len()
                )));
            };
            if x2.tree != x.tree {
                return Err(Violation::new(format!(
                    "{what}: the second commit of the split has tree {} but the original commit had {}",
                    x2.tree, x.tree
                )));
            }
        }
    }
    // (3) commits outside the affected region keep their commit ids: the roots
    // of the set of commits whose id changed lie where the operation may write.
    let changed: BTreeSet<String> = before
        .values()
        .filter(|c| !after.contains_key(&c.commit_id))
        .map(|c| c.commit_id.clone())
        .collect();
    let roots: Vec<&String> = changed
        .iter()
        .filter(|id| !before[*id].parents.iter().any(|p| changed.contains(p)))
        .collect();
    for r in roots {
        let ok = match &case.action {
            Action::Squash => x.parents.contains(r) || *r == x.commit_id,
            Action::Split(_) => *r == x.commit_id,
            Action::Absorb => anc_x.contains(r),
        };
        if !ok {
            return Err(Violation::new(format!(
                "{what}: commit {:?}, which is neither a destination nor between a destination and the source \
                 nor a descendant, was rewritten",
                before[r].description.trim()
            )));
        }
    }
    let n_desc = desc_x.len() - 1;
    let has_merge_child = desc_x.iter().any(|d| before[d].parents.len() > 1);
    let _ = wc_after;
    Ok(Outcome::new(n_desc >= 2 || has_merge_child)
        .class(match case.action {
            Action::Squash => "squash",
            Action::Absorb => "absorb",
            Action::Split(_) => "split",
        })
        .class_if(has_merge_child, "merge-child-above")
        .class_if(!changed.is_empty() && matches!(case.action, Action::Absorb), "absorb-moved-something")
        .class_if(n_desc >= 3, "descendants>=3"))
}

pub fn run(report: &mut Report) {
    report.set_rule(
        "stacks of 3-8 commits of line edits to <=4 files (optionally a side branch and merge child, \
         working-copy commit with edits on top) built through the CLI; one of squash -r X / absorb --from X / \
         split -r X <paths> on a random stack commit; graphs before/after compared by change id (tree ids of \
         all descendants incl. @, tree of the topmost resulting commit, commit ids outside the affected \
         region). Non-trivial = >=2 descendants above X or a merge child; distinct by case",
    );
    let tier = report.tier;
    let action = || {
        prop_oneof![
            2 => Just(Action::Squash),
            3 => Just(Action::Absorb),
            3 => prop::collection::vec(any::<u16>(), 1..3).prop_map(Action::Split),
        ]
    };
    report.prop(
        "stacks",
        tier.pick(40, 2000),
        move || {
            (
                prop::collection::vec(prop::collection::vec(file_edit(), 1..4), 3..8),
                prop::option::weighted(0.4, any::<u16>()),
                prop::collection::vec(file_edit(), 0..3),
                any::<u16>(),
                action(),
            )
                .prop_map(|(stack, merge_at, wc_edits, target, action)| Case {
                    stack,
                    merge_at,
                    wc_edits,
                    target,
                    action,
                })
        },
        check,
    );
}
