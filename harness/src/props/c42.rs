//! C42 Immutable commits are never rewritten.
//!
//! Engine `cli`: generated histories on a repo with a generated
//! `immutable_heads()` configuration; commands (never `--ignore-immutable`)
//! target random revisions, immutable ones included. Before every command the
//! immutable set I is evaluated; after it every commit of I must still be
//! visible with the same id, and no new operation may record a commit of I as
//! the predecessor of a new visible commit with the same change id.

use std::collections::BTreeSet;

use jj_lib::object_id::ObjectId as _;
use jj_lib::repo::Repo as _;
use pollster::FutureExt as _;
use proptest::prelude::*;
use serde::Deserialize;
use serde::Serialize;

use crate::engine::cli::load_at_op;
use crate::engine::cli::loader_for;
use crate::engine::cli::op_head_ids;
use crate::engine::clihist::Edit;
use crate::engine::clihist::apply_edit;
use crate::engine::clihist::edit;
use crate::engine::runner::CheckResult;
use crate::engine::runner::Outcome;
use crate::engine::runner::Report;
use crate::engine::runner::Violation;
use crate::engine::runner::pick;
use crate::props::c40::Cmd;
use crate::props::c40::World;

const IMMUTABLE_CONFIGS: &[&str] = &[
    "present(main)",
    "tags()",
    "present(main) | tags()",
    "bookmarks()",
    "@-",
    "@--",
    "none()",
    "heads(::@- & description(glob:\"commit*\"))",
    "builtin_immutable_heads()",
];

#[derive(Debug, Clone, Serialize, Deserialize)]
pub enum Step {
    Edit(Edit),
    Cmd(Cmd),
}

#[derive(Debug, Clone, Serialize, Deserialize)]
pub struct Case {
    pub immutable: u16,
    pub setup: Vec<Step>,
    pub steps: Vec<Step>,
}

fn setup_cmd() -> impl Strategy<Value = Cmd> {
    prop_oneof![
        4 => Just(Cmd::Commit),
        2 => Just(Cmd::New),
        1 => any::<u16>().prop_map(Cmd::NewRev),
        2 => any::<u16>().prop_map(Cmd::BookmarkSet),
        1 => any::<u16>().prop_map(Cmd::TagSet),
    ]
}

fn attack_cmd() -> impl Strategy<Value = Cmd> {
    prop_oneof![
        3 => any::<u16>().prop_map(Cmd::Describe),
        3 => any::<u16>().prop_map(Cmd::EditRev),
        2 => Just(Cmd::Squash),
        3 => any::<u16>().prop_map(Cmd::SquashInto),
        3 => (any::<u16>(), any::<u16>()).prop_map(|(a, b)| Cmd::SquashFromInto(a, b)),
        3 => (any::<u16>(), any::<u16>()).prop_map(|(a, b)| Cmd::Rebase(a, b)),
        2 => (any::<u16>(), any::<u16>()).prop_map(|(a, b)| Cmd::RebaseSource(a, b)),
        2 => (any::<u16>(), any::<u16>()).prop_map(|(a, b)| Cmd::RebaseBranch(a, b)),
        3 => any::<u16>().prop_map(Cmd::Abandon),
        1 => any::<u16>().prop_map(Cmd::AbandonDescendants),
        2 => any::<u16>().prop_map(Cmd::Split),
        2 => Just(Cmd::Absorb),
        1 => Just(Cmd::Restore),
        2 => any::<u16>().prop_map(Cmd::RestoreFrom),
        3 => any::<u16>().prop_map(Cmd::Metaedit),
        2 => any::<u16>().prop_map(Cmd::Parallelize),
        2 => any::<u16>().prop_map(Cmd::SimplifyParents),
        1 => any::<u16>().prop_map(Cmd::Duplicate),
        2 => Just(Cmd::New),
        2 => any::<u16>().prop_map(Cmd::NewRev),
        2 => Just(Cmd::Commit),
        2 => any::<u16>().prop_map(Cmd::BookmarkSet),
        1 => any::<u16>().prop_map(Cmd::TagSet),
        1 => Just(Cmd::Status),
    ]
}

fn ids_of(world: &World, revset: &str) -> Result<Vec<String>, String> {
    let out = world.env.jj(
        &world.ws_dirs[0],
        &[
            "log",
            "--ignore-working-copy",
            "--no-graph",
            "-r",
            revset,
            "-T",
            "commit_id ++ \" \" ++ change_id ++ \"\\n\"",
        ],
    );
    if !out.success() {
        return Err(format!("`jj log -r {revset}` failed: {}", out.brief()));
    }
    Ok(out.stdout.lines().map(|l| l.trim().to_string()).filter(|l| !l.is_empty()).collect())
}

fn check(case: &Case) -> CheckResult {
    let mut world = World::new("c42-")?;
    let ws = world.ws_dirs[0].clone();
    let immutable_expr = IMMUTABLE_CONFIGS[pick(case.immutable, IMMUTABLE_CONFIGS.len())];
    let loader = loader_for(&world.repo_dir).map_err(Violation::new)?;
    // Build the graph first with the default configuration.
    for (i, step) in case.setup.iter().enumerate() {
        match step {
            Step::Edit(e) => apply_edit(&ws, e),
            Step::Cmd(cmd) => {
                let args = world.args_for(0, cmd, 1000 + i);
                world.run(0, &args);
            }
        }
    }
    world.env.add_config(
        "immutable",
        &format!("[revset-aliases]\n'immutable_heads()' = '''{immutable_expr}'''\n"),
    );
    let mut targeted_immutable = 0usize;
    let mut refused = 0usize;
    let mut wc_on_immutable = false;
    let mut classes: BTreeSet<&'static str> = BTreeSet::new();
    for (step_no, step) in case.steps.iter().enumerate() {
        let cmd = match step {
            Step::Edit(e) => {
                apply_edit(&ws, e);
                continue;
            }
            Step::Cmd(cmd) => cmd,
        };
        // Snapshot first so that I is evaluated on the state the command sees
        // (the snapshot itself is subject to the same oracle on the next round).
        let immutable_before = match ids_of(&world, "immutable()") {
            Ok(v) => v,
            // The alias may be unevaluable in this state (e.g. `@--` does not
            // exist): then every command fails the same way; nothing to judge.
            Err(_) => continue,
        };
        let wc_before = ids_of(&world, "@").unwrap_or_default();
        let ops_before = op_head_ids(&world.repo_dir);
        let args = world.args_for(0, cmd, step_no);
        let out = world.run(0, &args);
        if out.signal.is_some() {
            return Err(Violation::new(format!(
                "step {step_no}: `jj {}` died: {}",
                args.join(" "),
                out.brief()
            )));
        }
        let what = format!(
            "step {step_no}: `jj {}` with immutable_heads()={immutable_expr} (exit {:?})",
            args.join(" "),
            out.code
        );
        if out.stderr.contains("is immutable") || out.stderr.contains("immutable") {
            refused += 1;
        }
        // (1) every immutable commit is still visible with the same id
        let visible: BTreeSet<String> = ids_of(&world, "all()")
            .map_err(|e| Violation::new(format!("{what}: {e}")))?
            .into_iter()
            .collect();
        for line in &immutable_before {
            if !visible.contains(line) {
                return Err(Violation::new(format!(
                    "{what}: immutable commit {line} is no longer visible (rewritten, abandoned or hidden); \
                     stderr={:?}",
                    out.stderr.chars().take(300).collect::<String>()
                )));
            }
        }
        // (2) no new operation records an immutable commit as predecessor of a
        // new visible commit with the same change id
        let immutable_ids: BTreeSet<&str> =
            immutable_before.iter().map(|l| l.split(' ').next().unwrap()).collect();
        let heads_after = op_head_ids(&world.repo_dir);
        if heads_after.len() == 1 && heads_after != ops_before {
            let mut cur = heads_after[0].clone();
            let stop: BTreeSet<String> = ops_before.iter().cloned().collect();
            let head_repo = load_at_op(&loader, &heads_after[0]).map_err(Violation::new)?;
            for _ in 0..8 {
                if stop.contains(&cur) {
                    break;
                }
                let id = jj_lib::op_store::OperationId::try_from_hex(&cur).unwrap();
                if &id == loader.op_store().root_operation_id() {
                    break;
                }
                let op = loader
                    .op_store()
                    .read_operation(&id)
                    .block_on()
                    .map_err(|e| Violation::new(e.to_string()))?;
                if let Some(preds) = &op.commit_predecessors {
                    for (new_id, old_ids) in preds {
                        for old in old_ids {
                            if !immutable_ids.contains(old.hex().as_str()) || old == new_id {
                                continue;
                            }
                            let store = head_repo.store();
                            let (Ok(new_commit), Ok(old_commit)) =
                                (store.get_commit(new_id), store.get_commit(old))
                            else {
                                continue;
                            };
                            let new_visible =
                                visible.iter().any(|l| l.starts_with(new_id.hex().as_str()));
                            if new_visible && new_commit.change_id() == old_commit.change_id() {
                                return Err(Violation::new(format!(
                                    "{what}: operation {} records immutable commit {} as predecessor of new \
                                     visible commit {} with the same change id (a rewrite)",
                                    &cur[..12],
                                    old.hex(),
                                    new_id.hex()
                                )));
                            }
                        }
                    }
                }
                match op.parents.as_slice() {
                    [p] => cur = p.hex(),
                    _ => break,
                }
            }
        }
        // (3) snapshot on an immutable @ creates a child
        if let [wc_line] = wc_before.as_slice()
            && immutable_before.contains(wc_line)
        {
            wc_on_immutable = true;
        }
        // classification: did the command aim at something immutable?
        if out.stderr.contains("immutable") {
            targeted_immutable += 1;
            classes.insert("refused-immutable");
        }
        match cmd {
            Cmd::Metaedit(_) => classes.insert("metaedit"),
            Cmd::Absorb => classes.insert("absorb"),
            Cmd::SquashFromInto(..) | Cmd::SquashInto(_) => classes.insert("squash-into"),
            Cmd::Parallelize(_) => classes.insert("parallelize"),
            Cmd::SimplifyParents(_) => classes.insert("simplify-parents"),
            Cmd::RebaseSource(..) | Cmd::RebaseBranch(..) | Cmd::Rebase(..) => classes.insert("rebase"),
            Cmd::Abandon(_) | Cmd::AbandonDescendants(_) => classes.insert("abandon"),
            _ => false,
        };
    }
    let _ = refused;
    let mut out = Outcome::new(targeted_immutable >= 1);
    for c in classes {
        out = out.class(c);
    }
    Ok(out.class_if(wc_on_immutable, "wc-on-immutable").class_if(targeted_immutable >= 3, "refused>=3"))
}

pub fn run(report: &mut Report) {
    report.set_rule(
        "histories: a set-up phase builds a graph (commits, bookmarks `main`, tag `v1`), then a generated \
         immutable_heads() alias (present(main), tags(), bookmarks(), @-, @--, none(), builtin, unions) is \
         configured and 8-20 commands (describe, edit, squash from/into, rebase -r/-s/-b, abandon, split, absorb, \
         restore, metaedit, parallelize, simplify-parents, duplicate, new, commit, bookmark/tag moves, file edits) \
         target random revisions; immutable() is evaluated before each command. Non-trivial = at least one command \
         was refused because its target was immutable; distinct by history",
    );
    report.assume("`undo`/`op restore` are excluded (they bypass rewritability checks by design; C41 covers them)");
    let tier = report.tier;
    let step = || {
        prop_oneof![
            2 => edit().prop_map(Step::Edit),
            5 => attack_cmd().prop_map(Step::Cmd),
        ]
    };
    let setup_step = || {
        prop_oneof![
            3 => edit().prop_map(Step::Edit),
            3 => setup_cmd().prop_map(Step::Cmd),
        ]
    };
    report.prop(
        "histories",
        tier.pick(24, 1500),
        move || {
            (
                any::<u16>(),
                prop::collection::vec(setup_step(), 6..14),
                prop::collection::vec(step(), 8..20),
            )
                .prop_map(|(immutable, setup, steps)| Case { immutable, setup, steps })
        },
        check,
    );
}
