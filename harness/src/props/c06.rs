//! C06 An unedited conflicted file is snapshotted as the same conflict.
//!
//! Oracle A: `update_from_content(ids, materialize(simplified contents)) == ids`.
//! Oracle B: an edit confined to a resolved region is applied to every side and
//! the unsimplified shape is kept.
//! Oracle C: tree with such a conflict -> `check_out` -> `snapshot` gives the
//! identical tree ids (one marker style per case).

use std::cell::RefCell;
use std::ops::Range;
use std::time::Duration;

use bstr::BString;
use jj_lib::backend::FileId;
use jj_lib::backend::TreeId;
use jj_lib::config::ConfigLayer;
use jj_lib::config::ConfigSource;
use jj_lib::conflict_labels::ConflictLabels;
use jj_lib::conflicts::ConflictMarkerStyle;
use jj_lib::conflicts::ConflictMaterializeOptions;
use jj_lib::conflicts::choose_materialized_conflict_marker_len;
use jj_lib::conflicts::materialize_merge_result_to_bytes;
use jj_lib::conflicts::update_from_content;
use jj_lib::files;
use jj_lib::files::MergeResult;
use jj_lib::merge::Merge;
use jj_lib::merge::SameChange;
use jj_lib::merged_tree::MergedTree;
use jj_lib::repo::Repo as _;
use jj_lib::repo_path::RepoPath;
use jj_lib::settings::UserSettings;
use jj_lib::store::Store;
use pollster::FutureExt as _;
use proptest::prelude::*;
use serde::Deserialize;
use serde::Serialize;
use testutils::TestRepo;
use testutils::TestTreeBuilder;
use testutils::TestWorkspace;
use testutils::repo_path;

use super::c05::STYLES;
use super::c05::style_name;
use crate::engine::runner::CheckResult;
use crate::engine::runner::Outcome;
use crate::engine::runner::Report;
use crate::engine::runner::Violation;
use crate::engine::runner::pick;
use crate::ensure;
use crate::ensure_eq;
use crate::gens::conflict::conflict_terms;
use crate::gens::conflict::label;
use crate::gens::content::Bytes;

/// One term of the file merge.
#[derive(Debug, Clone, Serialize, Deserialize)]
pub struct Term {
    /// `None` = the file is absent in this term.
    pub content: Option<Bytes>,
    pub executable: bool,
}

/// A redundant (add, remove) pair with one file id, inserted as two adjacent
/// terms so the merge keeps its meaning but gains arity.
#[derive(Debug, Clone, Serialize, Deserialize)]
pub struct Pair {
    /// Insert position (mapped onto `0..=len`).
    pub at: u16,
    /// Copy of the content of an existing term (mapped onto the current
    /// terms), or a fresh value.
    pub copy_of: Option<u16>,
    pub fresh: Option<Bytes>,
    pub executable: (bool, bool),
}

/// An edit confined to a resolved region of the materialized file.
#[derive(Debug, Clone, Serialize, Deserialize)]
pub struct Edit {
    /// Which candidate region (mapped onto the candidates).
    pub region: u16,
    /// Which line boundary inside the region.
    pub line: u16,
    /// Inserted bytes: a marker-free line ending in `\n`.
    pub splice: Bytes,
}

#[derive(Debug, Clone, Serialize, Deserialize)]
pub struct Case {
    /// The "real" terms (odd length, adds at even positions).
    pub terms: Vec<Term>,
    pub pairs: Vec<Pair>,
    /// Whether the conflict is labeled; labels are taken from `labels`
    /// (truncated to the unsimplified arity).
    pub labeled: bool,
    pub labels: Vec<String>,
    pub edit: Edit,
    /// Marker style used for the working-copy oracle (index into STYLES).
    pub wc_style: u8,
}

const MAX_TERMS: usize = 7 + 2 * 2;

fn splice_strategy() -> impl Strategy<Value = Bytes> {
    prop::sample::select(vec![
        "inserted\n", "\n", " \n", "\t\n", "x y\r\n", "a\n", "\r\n", "foo\n\n", "  indented  \n",
    ])
    .prop_map(Bytes::from)
}

fn pair_strategy() -> impl Strategy<Value = Pair> {
    (
        any::<u16>(),
        prop_oneof![
            3 => any::<u16>().prop_map(Some),
            1 => Just(None),
        ],
        prop_oneof![
            2 => Just(None),
            1 => Just(Some(Bytes::from(""))),
            3 => prop::sample::select(vec!["a\n", "fresh\n", "fresh", "a\nb\n", "<<<<<<<<<<<<<\n"])
                .prop_map(|s| Some(Bytes::from(s))),
        ],
        any::<(bool, bool)>(),
    )
        .prop_map(|(at, copy_of, fresh, executable)| Pair {
            at,
            copy_of,
            fresh,
            executable,
        })
}

pub fn case_strategy() -> impl Strategy<Value = Case> {
    conflict_terms()
        .prop_flat_map(|contents| {
            let n = contents.len();
            (
                Just(contents),
                // absent terms: rare per term
                prop::collection::vec(prop::bool::weighted(0.12), n),
                // executable bits: all false, all true, or mixed
                prop_oneof![
                    3 => Just(vec![false; n]),
                    1 => Just(vec![true; n]),
                    2 => prop::collection::vec(any::<bool>(), n),
                ],
                prop_oneof![
                    3 => Just(vec![]),
                    4 => prop::collection::vec(pair_strategy(), 1),
                    3 => prop::collection::vec(pair_strategy(), 2),
                ],
                any::<bool>(),
                prop::collection::vec(label(), MAX_TERMS),
                (any::<u16>(), any::<u16>(), splice_strategy()),
                0u8..4,
            )
        })
        .prop_map(
            |(contents, absent, exec, pairs, labeled, labels, (region, line, splice), wc_style)| {
                let terms = contents
                    .into_iter()
                    .zip(absent)
                    .zip(exec)
                    .map(|((content, absent), executable)| Term {
                        content: (!absent).then_some(content),
                        executable,
                    })
                    .collect();
                Case {
                    terms,
                    pairs,
                    labeled,
                    labels,
                    edit: Edit {
                        region,
                        line,
                        splice,
                    },
                    wc_style,
                }
            },
        )
}

/// The unsimplified terms: the real terms with the redundant pairs inserted.
fn unsimplified_terms(case: &Case) -> Vec<Term> {
    let mut terms = case.terms.clone();
    for pair in &case.pairs {
        let content = match pair.copy_of {
            Some(raw) => terms[pick(raw, terms.len())].content.clone(),
            None => pair.fresh.clone(),
        };
        let at = pick(pair.at, terms.len() + 1);
        let (e1, e2) = pair.executable;
        terms.splice(
            at..at,
            [
                Term {
                    content: content.clone(),
                    executable: e1,
                },
                Term {
                    content,
                    executable: e2,
                },
            ],
        );
    }
    terms
}

thread_local! {
    /// One store per worker thread. File ids are content hashes, so reusing the
    /// store across cases does not make a case depend on earlier ones.
    static REPO: RefCell<Option<TestRepo>> = const { RefCell::new(None) };
}

fn with_repo<R>(f: impl FnOnce(&TestRepo) -> R) -> R {
    REPO.with(|cell| {
        let mut slot = cell.borrow_mut();
        let repo = slot.get_or_insert_with(TestRepo::init);
        f(repo)
    })
}

fn write(store: &Store, path: &RepoPath, content: &[u8]) -> Result<FileId, Violation> {
    store
        .write_file(path, &mut &content[..])
        .block_on()
        .map_err(|err| Violation::new(format!("store.write_file failed: {err}")))
}

fn show(bytes: &[u8]) -> String {
    format!("{:?}", bstr::BStr::new(bytes))
}

/// jj's rule for a marker line of at least `len` characters of `ch`.
fn is_marker_line(line: &[u8], ch: u8, len: usize) -> bool {
    let run = line.iter().take_while(|b| **b == ch).count();
    run >= len && line.get(run).is_none_or(|b| b.is_ascii_whitespace())
}

/// Byte ranges of the conflict blocks (start marker line .. end marker line
/// inclusive) of a materialized text.
fn conflict_blocks(text: &[u8], len: usize) -> Vec<Range<usize>> {
    let mut blocks = vec![];
    let mut start = None;
    let mut pos = 0;
    for line in text.split_inclusive(|b| *b == b'\n') {
        if is_marker_line(line, b'<', len) {
            start = Some(pos);
        } else if is_marker_line(line, b'>', len)
            && let Some(s) = start.take()
        {
            blocks.push(s..pos + line.len());
        }
        pos += line.len();
    }
    blocks
}

/// Where an edit may go: a byte range of the text that is a resolved region
/// (possibly empty, at the start or end of the file), plus the index of the
/// hunk it belongs to (`existing == false`: a new resolved hunk before the
/// first / after the last hunk).
struct Region {
    range: Range<usize>,
    /// Index into the merge_hunks list *before which* (for a new hunk) or *at
    /// which* (existing resolved hunk) the edit lands.
    hunk: usize,
    existing: bool,
}

struct Prepared {
    ids: Merge<Option<FileId>>,
    /// `mapping[k]` = index in `ids` of the k-th simplified term.
    mapping: Vec<usize>,
    simplified_contents: Merge<Vec<u8>>,
    simplified_labels: ConflictLabels,
}

fn prepare(
    store: &Store,
    path: &RepoPath,
    terms: &[Term],
    labels: &ConflictLabels,
) -> Result<Prepared, Violation> {
    let mut ids = vec![];
    for term in terms {
        ids.push(match &term.content {
            Some(content) => Some(write(store, path, &content.0)?),
            None => None,
        });
    }
    let ids = Merge::from_vec(ids);
    // Which original positions survive simplification, through the public API.
    let indexed = Merge::from_vec(ids.iter().cloned().enumerate().collect::<Vec<_>>());
    let mapping: Vec<usize> = indexed
        .simplify_by(|(_, id)| id)
        .iter()
        .map(|(i, _)| *i)
        .collect();
    let (simplified_labels, simplified_ids) = labels.simplify_with(&ids);
    ensure_eq!(
        simplified_ids.iter().cloned().collect::<Vec<_>>(),
        mapping.iter().map(|i| ids.iter().nth(*i).unwrap().clone()).collect::<Vec<_>>(),
        "simplify_with and simplify_by disagree"
    );
    let simplified_contents = Merge::from_vec(
        mapping
            .iter()
            .map(|i| terms[*i].content.as_ref().map(|c| c.0.clone()).unwrap_or_default())
            .collect::<Vec<_>>(),
    );
    Ok(Prepared {
        ids,
        mapping,
        simplified_contents,
        simplified_labels,
    })
}

fn block_on_update(
    ids: &Merge<Option<FileId>>,
    store: &Store,
    path: &RepoPath,
    text: &[u8],
    len: usize,
) -> Result<Merge<Option<FileId>>, Violation> {
    update_from_content(ids, store, path, text, len)
        .block_on()
        .map_err(|err| Violation::new(format!("update_from_content failed: {err}")))
}

#[derive(Default)]
struct Seen {
    conflict: bool,
    edit_new_hunk: bool,
    edit_blank: bool,
}

/// Oracles A and B for one marker style.
fn check_style(
    case: &Case,
    store: &Store,
    path: &RepoPath,
    prepared: &Prepared,
    style: ConflictMarkerStyle,
    seen: &mut Seen,
) -> Result<(), Violation> {
    let Prepared {
        ids,
        mapping,
        simplified_contents,
        simplified_labels,
    } = prepared;
    let len = choose_materialized_conflict_marker_len(simplified_contents);
    let options = ConflictMaterializeOptions {
        marker_style: style,
        marker_len: Some(len),
        merge: store.merge_options().clone(),
    };
    let text: Vec<u8> =
        materialize_merge_result_to_bytes(simplified_contents, simplified_labels, &options).into();

    // Oracle A: unchanged text gives back the identical (unsimplified) ids.
    let result = block_on_update(ids, store, path, &text, len)?;
    ensure!(
        result == *ids,
        "oracle A (style {}): unedited text {} (marker length {len}) was recorded as {result:?} \
         instead of {ids:?}",
        style_name(style),
        show(&text)
    );

    // Oracle B needs a conflict in the materialized text.
    let hunks: Vec<Merge<BString>> =
        match files::merge_hunks(simplified_contents, store.merge_options()) {
            MergeResult::Resolved(_) => return Ok(()),
            MergeResult::Conflict(hunks) => hunks,
        };
    seen.conflict = true;
    // Locate the resolved regions of the text with the harness's own scan and
    // cross-check the layout against merge_hunks.
    let blocks = conflict_blocks(&text, len);
    let num_conflicts = hunks.iter().filter(|h| !h.is_resolved()).count();
    ensure_eq!(
        blocks.len(),
        num_conflicts,
        "style {}: number of conflict blocks in {}",
        style_name(style),
        show(&text)
    );
    let mut regions: Vec<Region> = vec![];
    {
        let mut pos = 0;
        let mut block_iter = blocks.iter();
        for (j, hunk) in hunks.iter().enumerate() {
            if let Some(content) = hunk.as_resolved() {
                let range = pos..pos + content.len();
                ensure!(
                    text.get(range.clone()) == Some(&content[..]),
                    "style {}: resolved hunk {j} {} not found at offset {pos} of {}",
                    style_name(style),
                    show(content),
                    show(&text)
                );
                regions.push(Region {
                    range: range.clone(),
                    hunk: j,
                    existing: true,
                });
                pos = range.end;
            } else {
                let block = block_iter.next().unwrap();
                ensure_eq!(
                    block.start,
                    pos,
                    "style {}: conflict block position in {}",
                    style_name(style),
                    show(&text)
                );
                pos = block.end;
            }
        }
        ensure_eq!(pos, text.len(), "style {}: trailing bytes in {}", style_name(style), show(&text));
    }
    // Existing resolved hunks get three times the weight of "before/after".
    let existing = regions.len();
    for _ in 0..2 {
        for i in 0..existing {
            let r = &regions[i];
            regions.push(Region {
                range: r.range.clone(),
                hunk: r.hunk,
                existing: true,
            });
        }
    }
    if !hunks.first().unwrap().is_resolved() {
        regions.push(Region {
            range: 0..0,
            hunk: 0,
            existing: false,
        });
    }
    if !hunks.last().unwrap().is_resolved() && text.ends_with(b"\n") {
        regions.push(Region {
            range: text.len()..text.len(),
            hunk: hunks.len(),
            existing: false,
        });
    }
    // There is always a candidate: the first hunk is resolved or "before".
    let region = &regions[pick(case.edit.region, regions.len())];
    let region_bytes = &text[region.range.clone()];
    let mut boundaries = vec![0];
    {
        let mut off = 0;
        for line in region_bytes.split_inclusive(|b| *b == b'\n') {
            off += line.len();
            boundaries.push(off);
        }
    }
    boundaries.dedup();
    let at = boundaries[pick(case.edit.line, boundaries.len())];
    let splice = &case.edit.splice.0;
    let mut edited_region = region_bytes[..at].to_vec();
    edited_region.extend_from_slice(splice);
    edited_region.extend_from_slice(&region_bytes[at..]);
    let mut new_text = text[..region.range.start].to_vec();
    new_text.extend_from_slice(&edited_region);
    new_text.extend_from_slice(&text[region.range.end..]);
    seen.edit_new_hunk |= !region.existing;
    seen.edit_blank |= splice.iter().all(|b| b.is_ascii_whitespace());

    // Expected contents: every simplified side as the file shows it (resolved
    // regions carry the merged text, conflict regions the side's own text)
    // with the same splice.
    let num_terms = simplified_contents.iter().len();
    let mut expected: Vec<Vec<u8>> = vec![vec![]; num_terms];
    for (j, hunk) in hunks.iter().enumerate() {
        if !region.existing && region.hunk == j {
            for side in &mut expected {
                side.extend_from_slice(&edited_region);
            }
        }
        if let Some(content) = hunk.as_resolved() {
            let bytes: &[u8] = if region.existing && region.hunk == j {
                &edited_region
            } else {
                content
            };
            for side in &mut expected {
                side.extend_from_slice(bytes);
            }
        } else {
            for (side, term) in expected.iter_mut().zip(hunk.iter()) {
                side.extend_from_slice(term);
            }
        }
    }
    if !region.existing && region.hunk == hunks.len() {
        for side in &mut expected {
            side.extend_from_slice(&edited_region);
        }
    }
    let result = block_on_update(ids, store, path, &new_text, len)?;
    let result_vec: Vec<Option<FileId>> = result.iter().cloned().collect();
    let ids_vec: Vec<Option<FileId>> = ids.iter().cloned().collect();
    ensure!(
        result_vec.len() == ids_vec.len(),
        "oracle B (style {}): edit in a resolved region changed the arity from {} to {} terms \
         (edited text {})",
        style_name(style),
        ids_vec.len(),
        result_vec.len(),
        show(&new_text)
    );
    for (k, content) in expected.iter().enumerate() {
        // Every side receives the edit, so every side is non-empty and present.
        let expected_id = Some(write(store, path, content)?);
        let i = mapping[k];
        if result_vec[i] != expected_id {
            let got = match &result_vec[i] {
                Some(id) => show(&testutils::read_file(store, path, id)),
                None => "absent".to_string(),
            };
            return Err(Violation::new(format!(
                "oracle B (style {}): after inserting {} into a resolved region, term {i} \
                 (simplified term {k}) is {got}, expected {}; edited text {}",
                style_name(style),
                show(splice),
                show(content),
                show(&new_text)
            )));
        }
    }
    for i in 0..ids_vec.len() {
        if !mapping.contains(&i) {
            ensure!(
                result_vec[i] == ids_vec[i],
                "oracle B (style {}): redundant term {i} changed from {:?} to {:?}",
                style_name(style),
                ids_vec[i],
                result_vec[i]
            );
        }
    }
    Ok(())
}

fn settings_for(style: ConflictMarkerStyle) -> UserSettings {
    let mut config = testutils::base_user_config();
    let mut layer = ConfigLayer::empty(ConfigSource::User);
    layer
        .set_value("ui.conflict-marker-style", style_name(style))
        .unwrap();
    config.add_layer(layer);
    UserSettings::from_config(config).unwrap()
}

thread_local! {
    /// One workspace per worker thread and marker style (the style is fixed
    /// when the working copy is loaded). Every case starts by checking out the
    /// empty root commit, so the disk is in the same state before each case.
    static WORKSPACES: RefCell<[Option<TestWorkspace>; 4]> =
        const { RefCell::new([None, None, None, None]) };
}

/// Oracle C: through a real working copy. A workspace is reused only after a
/// run in which every jj call succeeded. Returns whether a conflicted file was
/// actually checked out and snapshotted.
fn check_working_copy(
    terms: &[Term],
    labels: &ConflictLabels,
    style_index: usize,
) -> Result<bool, Violation> {
    let style = STYLES[style_index];
    let mut test_workspace = WORKSPACES
        .with(|cell| cell.borrow_mut()[style_index].take())
        .unwrap_or_else(|| TestWorkspace::init_with_settings(&settings_for(style)));
    let mut reusable = false;
    let result = working_copy_round_trip(&mut test_workspace, terms, labels, style, &mut reusable);
    if reusable {
        WORKSPACES.with(|cell| cell.borrow_mut()[style_index] = Some(test_workspace));
    }
    result
}

fn working_copy_round_trip(
    test_workspace: &mut TestWorkspace,
    terms: &[Term],
    labels: &ConflictLabels,
    style: ConflictMarkerStyle,
    reusable: &mut bool,
) -> Result<bool, Violation> {
    let repo = test_workspace.repo.clone();
    let store = repo.store().clone();
    let path = repo_path("file");
    let other = repo_path("other");
    let tree_ids: Vec<TreeId> = terms
        .iter()
        .enumerate()
        .map(|(i, term)| {
            let mut builder = TestTreeBuilder::new(store.clone());
            if let Some(content) = &term.content {
                builder.file(path, &content.0).executable(term.executable);
            }
            // A second, plainly conflicting file keeps the tree-level merge
            // unsimplifiable, as in a real rebase result.
            builder.file(other, format!("other {i}\n"));
            builder.write_single_tree().id().clone()
        })
        .collect();
    // jj only ever stores trees its own merge has gone over (conflicts whose
    // contents merge cleanly are resolved there), and a snapshot re-resolves the
    // tree it writes. So the domain is the fixpoints of `MergedTree::resolve`.
    let tree = MergedTree::new(store.clone(), Merge::from_vec(tree_ids), labels.clone())
        .resolve()
        .block_on()
        .map_err(|err| Violation::new(format!("MergedTree::resolve failed: {err}")))?;
    let value = tree
        .path_value(path)
        .block_on()
        .map_err(|err| Violation::new(format!("path_value failed: {err}")))?;
    if value.is_resolved() {
        // The tree merge resolved the file: nothing conflicted to check out.
        *reusable = true;
        return Ok(false);
    }
    let commit = testutils::commit_with_tree(&store, tree.clone());
    // Canonical start state: an empty working copy.
    test_workspace
        .workspace
        .check_out(repo.op_id().clone(), None, &store.root_commit())
        .block_on()
        .map_err(|err| Violation::new(format!("check_out of the root commit failed: {err}")))?;
    test_workspace
        .workspace
        .check_out(repo.op_id().clone(), None, &commit)
        .block_on()
        .map_err(|err| Violation::new(format!("check_out failed: {err}")))?;
    // Make sure the snapshot re-reads the files instead of trusting the
    // recorded file state.
    let root = test_workspace.workspace.workspace_root().to_owned();
    let mut on_disk = vec![];
    for p in [path, other] {
        let disk_path = p.to_fs_path_unchecked(&root);
        if p == path {
            on_disk = std::fs::read(&disk_path)
                .map_err(|err| Violation::new(format!("conflicted file not on disk: {err}")))?;
        }
        let file = std::fs::File::options()
            .write(true)
            .open(&disk_path)
            .map_err(|err| Violation::new(format!("cannot open checked-out file: {err}")))?;
        let mtime = file
            .metadata()
            .and_then(|m| m.modified())
            .map_err(|err| Violation::new(format!("mtime: {err}")))?;
        file.set_modified(mtime + Duration::from_secs(2))
            .map_err(|err| Violation::new(format!("set mtime: {err}")))?;
    }
    let new_tree = test_workspace
        .snapshot()
        .map_err(|err| Violation::new(format!("snapshot failed: {err}")))?;
    *reusable = true;
    ensure!(
        new_tree.tree_ids() == tree.tree_ids(),
        "oracle C (style {}): check_out then snapshot changed the tree: {:?} -> {:?}; file on \
         disk {}",
        style_name(style),
        tree.tree_ids(),
        new_tree.tree_ids(),
        show(&on_disk)
    );
    ensure!(
        new_tree.labels() == tree.labels(),
        "oracle C (style {}): check_out then snapshot changed the conflict labels",
        style_name(style)
    );
    Ok(true)
}

pub fn check(case: &Case) -> CheckResult {
    ensure!(
        case.terms.len() % 2 == 1 && case.terms.len() >= 3 && case.terms.len() <= 7,
        "malformed case: term count"
    );
    ensure!(case.pairs.len() <= 2, "malformed case: pairs");
    ensure!(case.labels.len() >= MAX_TERMS, "malformed case: labels");
    ensure!(
        case.labels.iter().all(|l| !l.chars().any(char::is_control)),
        "malformed case: control character in label"
    );
    ensure!(
        case.edit.splice.0.ends_with(b"\n"),
        "malformed case: splice must be newline-terminated"
    );
    let terms = unsimplified_terms(case);
    let labels = if case.labeled {
        ConflictLabels::from_vec(case.labels[..terms.len()].to_vec())
    } else {
        ConflictLabels::unlabeled()
    };
    let mut seen = Seen::default();
    let (unsimplified_len, simplified_len, ids_resolved) = with_repo(|test_repo| {
        let store = test_repo.repo.store();
        let path = repo_path("file");
        let prepared = prepare(store, path, &terms, &labels)?;
        for style in STYLES {
            check_style(case, store, path, &prepared, style, &mut seen)?;
        }
        // A merge jj's tree merge would have resolved on its own (single
        // term left, or trivially resolvable) never reaches a working copy as a
        // conflict.
        let ids_resolved = prepared.mapping.len() == 1
            || prepared.ids.resolve_trivial(SameChange::Accept).is_some();
        Ok::<_, Violation>((terms.len(), prepared.mapping.len(), ids_resolved))
    })?;
    // Oracle C only on tree conflicts jj itself would keep.
    let wc_style_index = usize::from(case.wc_style).min(STYLES.len() - 1);
    let wc_style = STYLES[wc_style_index];
    let wc_ran = !ids_resolved && check_working_copy(&terms, &labels, wc_style_index)?;
    let absent = terms.iter().any(|t| t.content.is_none());
    let exec_differs = terms.iter().any(|t| t.executable) && terms.iter().any(|t| !t.executable);
    let redundant = unsimplified_len > simplified_len;
    let nontrivial = !ids_resolved && (redundant || absent || exec_differs);
    Ok(Outcome::new(nontrivial)
        .class_if(redundant, "arity:unsimplified>simplified")
        .class_if(unsimplified_len >= simplified_len + 4, "arity:two-redundant-pairs")
        .class_if(absent, "absent-term")
        .class_if(exec_differs, "exec-bits-differ")
        .class_if(ids_resolved, "ids-resolve-trivially")
        .class_if(seen.conflict, "text-has-conflict(oracle-B-ran)")
        .class_if(!seen.conflict && !ids_resolved, "content-merge-resolves")
        .class_if(seen.edit_new_hunk, "edit:new-hunk-before/after")
        .class_if(seen.edit_blank, "edit:blank-line")
        .class_if(case.labeled, "labeled")
        .class_if(wc_ran, "wc:ran(oracle-C)")
        .class_if(wc_ran && redundant, "wc:ran+redundant-pairs")
        .class_if(wc_ran && wc_style == ConflictMarkerStyle::Diff, "wc:diff")
        .class_if(wc_ran && wc_style == ConflictMarkerStyle::DiffExperimental, "wc:diff-experimental")
        .class_if(wc_ran && wc_style == ConflictMarkerStyle::Snapshot, "wc:snapshot")
        .class_if(wc_ran && wc_style == ConflictMarkerStyle::Git, "wc:git"))
}

pub fn run(report: &mut Report) {
    // testutils creates its repositories with tempfile::tempdir(); keep them
    // under the scratch root instead of /tmp. Done before any worker starts.
    // SAFETY: single-threaded at this point.
    unsafe { std::env::set_var("TMPDIR", crate::engine::runner::scratch_root()) };
    report.set_rule(
        "file merge with 2..4 real sides (contents as C05: look-alikes, CRLF, missing final \
         newline, lone CR, empty) + 0..2 redundant (add, remove) pairs inserted at random \
         positions (copy of an existing term or a fresh value), absent terms, executable bits, \
         optional labels; written through a TestRepo store. A: update_from_content on the \
         unedited materialization (all 4 styles, marker length as the working copy chooses it) \
         returns the identical ids. B: a newline-terminated marker-free line inserted at a line \
         boundary of a resolved region (or before/after the file) lands in every simplified \
         term, other positions and arity unchanged. C: tree conflict -> check_out -> snapshot \
         gives identical tree ids (one generated style per case; the tree is first normalized \
         with MergedTree::resolve, as every tree jj stores is, and the oracle is skipped when \
         that resolves the file). non-trivial = ids do not \
         resolve trivially and (unsimplified arity > simplified, or an absent term, or \
         executable bits differ); distinct by whole case",
    );
    report.assume(
        "the test backend is content-addressed (equal contents <=> equal file id); \
         Merge::simplify_by (C01) gives the positions kept by simplification; \
         files::merge_hunks (C04) gives the resolved/conflict layout the edit is placed in; \
         default merge options of the test settings (hunk-level line, same-change accept)",
    );
    let cases = report.tier.pick(1_500, 60_000);
    report.prop("roundtrip", cases, case_strategy, check);
}
