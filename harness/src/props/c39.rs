//! C39 Log graph edges preserve ancestry.
//!
//! A model DAG (optionally padded so that index positions straddle the 64-bit
//! word boundary of jj's position bit sets, optionally with hidden/rewritten
//! commits) and a shown set (random subset, or a random C19 expression); the
//! graph stream of the default index is compared with BFS facts of the model.

use std::collections::BTreeMap;
use std::collections::BTreeSet;
use std::sync::Arc;

use futures::StreamExt as _;
use futures::TryStreamExt as _;
use jj_lib::backend::CommitId;
use jj_lib::default_index::DefaultReadonlyIndex;
use jj_lib::graph::GraphEdgeType;
use jj_lib::graph::GraphNode;
use jj_lib::graph::TopoGroupedGraph;
use jj_lib::graph::reverse_graph;
use jj_lib::repo::Repo as _;
use jj_lib::revset::ResolvedExpression;
use jj_lib::revset::RevsetEvaluationError;
use jj_lib::revset::RevsetExpression;
use pollster::FutureExt as _;
use proptest::prelude::*;
use serde::Deserialize;
use serde::Serialize;

use crate::engine::runner::CheckResult;
use crate::engine::runner::Outcome;
use crate::engine::runner::Report;
use crate::engine::runner::Violation;
use crate::engine::runner::pick;
use crate::ensure;
use crate::ensure_eq;
use crate::model::revset_ref::Expr;
use crate::model::revset_ref::World;
use crate::model::revset_ref::WorldSpec;
use crate::model::revset_ref::expr_strategy;
use crate::model::revset_ref::world_spec;

#[derive(Debug, Clone, Serialize, Deserialize)]
pub enum Shown {
    /// Commit `i` is shown iff `mask[i]` (false beyond the mask).
    Subset(Vec<bool>),
    /// The (reference) value of a C19 expression.
    Expr(Expr),
}

#[derive(Debug, Clone, Serialize, Deserialize)]
pub struct View {
    pub shown: Shown,
    /// Raw selector of the shown commit whose branch is prioritized in the
    /// topo-grouped pass.
    pub prioritize: u16,
}

#[derive(Debug, Clone, Serialize, Deserialize)]
pub struct Case {
    pub world: WorldSpec,
    pub views: Vec<View>,
}

type Edge = (usize, GraphEdgeType);
/// (node, edges) with commits as model indices; edge targets may be unknown to
/// the model only if jj invents a commit (reported as a violation).
type ModelGraph = Vec<(usize, Vec<Edge>)>;

fn etype_name(t: GraphEdgeType) -> &'static str {
    match t {
        GraphEdgeType::Missing => "missing",
        GraphEdgeType::Direct => "direct",
        GraphEdgeType::Indirect => "indirect",
    }
}

fn to_model(
    world: &World,
    nodes: &[GraphNode<CommitId>],
    what: &str,
) -> Result<ModelGraph, Violation> {
    nodes
        .iter()
        .map(|(id, edges)| {
            let c = world
                .index_of(id)
                .ok_or_else(|| Violation::new(format!("{what}: unknown node {id}")))?;
            let edges = edges
                .iter()
                .map(|e| {
                    world
                        .index_of(&e.target)
                        .map(|t| (t, e.edge_type))
                        .ok_or_else(|| {
                            Violation::new(format!("{what}: unknown edge target {}", e.target))
                        })
                })
                .collect::<Result<Vec<Edge>, Violation>>()?;
            Ok((c, edges))
        })
        .collect()
}

/// There is a path `c -> ... -> t` of length >= 2 whose interior commits are all
/// outside the shown set.
fn hidden_path(world: &World, shown: &BTreeSet<usize>, c: usize, t: usize) -> bool {
    let mut seen = BTreeSet::new();
    let mut stack: Vec<usize> = world.dag.parents[c]
        .iter()
        .copied()
        .filter(|p| !shown.contains(p))
        .collect();
    while let Some(i) = stack.pop() {
        if !seen.insert(i) {
            continue;
        }
        for p in &world.dag.parents[i] {
            if *p == t {
                return true;
            }
            if !shown.contains(p) {
                stack.push(*p);
            }
        }
    }
    false
}

struct GraphStats {
    indirect: usize,
    missing: usize,
    shown_merges: usize,
}

/// The oracle for one produced graph.
fn check_graph(
    world: &World,
    shown: &BTreeSet<usize>,
    graph: &ModelGraph,
    skip_transitive: bool,
    what: &str,
) -> Result<GraphStats, Violation> {
    // nodes = exactly the shown set, once each, every commit before its shown ancestors
    let order: Vec<usize> = graph.iter().map(|(c, _)| *c).collect();
    let node_set: BTreeSet<usize> = order.iter().copied().collect();
    ensure!(node_set.len() == order.len(), "{what}: a node is emitted twice: {order:?}");
    ensure_eq!(&node_set, shown, "{what}: emitted nodes differ from the shown set");
    for (k, c) in order.iter().enumerate() {
        for later in &order[k + 1..] {
            ensure!(
                !world.anc[*later].contains(c),
                "{what}: {c} is emitted before its descendant {later}: {order:?}"
            );
        }
    }
    let mut stats = GraphStats {
        indirect: 0,
        missing: 0,
        shown_merges: 0,
    };
    let mut reach: BTreeMap<usize, BTreeSet<usize>> = BTreeMap::new();
    for (c, edges) in graph {
        let parents = &world.dag.parents[*c];
        if parents.len() >= 2 {
            stats.shown_merges += 1;
        }
        for (t, ty) in edges {
            match ty {
                GraphEdgeType::Direct => {
                    ensure!(
                        parents.contains(t) && shown.contains(t),
                        "{what}: direct edge {c}->{t} but parents({c})={parents:?}, shown={}",
                        shown.contains(t)
                    );
                }
                GraphEdgeType::Indirect => {
                    stats.indirect += 1;
                    ensure!(shown.contains(t), "{what}: indirect edge {c}->{t} to a commit outside the shown set");
                    ensure!(
                        *t != *c && world.anc[*c].contains(t),
                        "{what}: indirect edge {c}->{t} but {t} is not an ancestor of {c}"
                    );
                    ensure!(
                        hidden_path(world, shown, *c, *t),
                        "{what}: indirect edge {c}->{t} but every path passes through a shown commit \
                         (or {t} is only a direct parent); parents={:?} shown={shown:?}",
                        world.dag.parents
                    );
                }
                GraphEdgeType::Missing => {
                    stats.missing += 1;
                    ensure!(!shown.contains(t), "{what}: missing edge {c}->{t} to a shown commit");
                }
            }
        }
        if !skip_transitive {
            // Without the transitive-edge filter every shown parent is a direct edge.
            for p in parents {
                if shown.contains(p) {
                    ensure!(
                        edges.contains(&(*p, GraphEdgeType::Direct)),
                        "{what}: shown parent {p} of {c} has no direct edge: {edges:?}"
                    );
                }
            }
        }
        reach.insert(
            *c,
            edges
                .iter()
                .filter(|(_, ty)| *ty != GraphEdgeType::Missing)
                .map(|(t, _)| *t)
                .collect(),
        );
    }
    // Completeness: the transitive closure of direct+indirect edges is ancestry
    // restricted to the shown set (soundness of every edge was checked above).
    for c in shown {
        let mut closure: BTreeSet<usize> = BTreeSet::new();
        let mut stack: Vec<usize> = reach[c].iter().copied().collect();
        while let Some(i) = stack.pop() {
            if closure.insert(i)
                && let Some(next) = reach.get(&i)
            {
                stack.extend(next.iter().copied());
            }
        }
        let expected: BTreeSet<usize> = world.anc[*c]
            .iter()
            .copied()
            .filter(|a| a != c && shown.contains(a))
            .collect();
        if closure != expected {
            let lost: Vec<_> = expected.difference(&closure).collect();
            let extra: Vec<_> = closure.difference(&expected).collect();
            return Err(Violation::new(format!(
                "{what}: edges from {c} imply ancestors {closure:?} but the shown ancestors are \
                 {expected:?} (lost {lost:?}, extra {extra:?}); parents={:?} shown={shown:?} graph={graph:?}",
                world.dag.parents
            )));
        }
    }
    Ok(stats)
}

fn collect_impl(
    world: &World,
    resolved: &ResolvedExpression,
    skip: bool,
) -> Result<Vec<GraphNode<CommitId>>, Violation> {
    let repo = world.repo();
    let index: &DefaultReadonlyIndex = repo
        .readonly_index()
        .downcast_ref()
        .ok_or_else(|| Violation::new("index is not the default index"))?;
    let revset = index
        .evaluate_revset_impl(resolved, repo.store())
        .map_err(|e| Violation::new(format!("evaluate_revset_impl: {e}")))?;
    revset
        .iter_graph_impl(skip)
        .collect::<Result<Vec<_>, RevsetEvaluationError>>()
        .map_err(|e| Violation::new(format!("iter_graph_impl({skip}): {e}")))
}

fn check_view(world: &World, case: &View) -> CheckResult {
    let repo = world.repo().clone();

    // The shown set and its jj expression.
    let (shown, expr): (BTreeSet<usize>, Arc<jj_lib::revset::ResolvedRevsetExpression>) =
        match &case.shown {
            Shown::Subset(mask) => {
                let shown: BTreeSet<usize> = (0..world.len())
                    .filter(|i| mask.get(*i).copied().unwrap_or(false))
                    .collect();
                // ascending model order: the engine must sort by position itself
                let ids = shown.iter().map(|i| world.id(*i)).collect();
                (shown, RevsetExpression::commits(ids))
            }
            Shown::Expr(e) => {
                let (reference, flags) = world.eval(e);
                match reference {
                    Ok(set) if !flags.ambiguous => (set, world.build_expr(e)),
                    // no definite shown set (has_size error / latest tie): nothing to check
                    _ => return Ok(Outcome::trivial().class("shown:undefined")),
                }
            }
        };

    let resolved = jj_lib::revset::optimize(expr.clone()).to_backend_expression(repo.as_ref());
    let mut out = Outcome::new(false)
        .class_if(matches!(case.shown, Shown::Subset(_)), "shown:subset")
        .class_if(matches!(case.shown, Shown::Expr(_)), "shown:expr");

    let mut graphs: Vec<(bool, Vec<GraphNode<CommitId>>, ModelGraph)> = vec![];
    let mut any_indirect = false;
    let mut any_merge = false;
    for skip in [false, true] {
        let what = if skip { "skip_transitive_edges=true" } else { "skip_transitive_edges=false" };
        let nodes = collect_impl(world, &resolved, skip)?;
        let graph = to_model(world, &nodes, what)?;
        let stats = check_graph(world, &shown, &graph, skip, what)?;
        any_indirect |= stats.indirect > 0;
        any_merge |= stats.shown_merges > 0;
        out = out
            .class_if(stats.indirect > 0, if skip { "skip:indirect-edge" } else { "keep:indirect-edge" })
            .class_if(stats.missing > 0, if skip { "skip:missing-edge" } else { "keep:missing-edge" });
        graphs.push((skip, nodes, graph));
    }
    // The filter only ever removes edges.
    {
        let keep = &graphs[0].2;
        let skipped = &graphs[1].2;
        let mut removed = 0usize;
        for ((c1, e1), (c2, e2)) in keep.iter().zip(skipped.iter()) {
            ensure_eq!(c1, c2, "node order differs between the two modes");
            for e in e2 {
                ensure!(
                    e1.contains(e),
                    "skip_transitive_edges=true has edge {c2}->{e:?} that the unfiltered graph lacks ({e1:?})"
                );
            }
            removed += e1.len().saturating_sub(e2.len());
        }
        out = out.class_if(removed > 0, "transitive-edge-removed");
    }

    // The public API streams the filtered graph.
    let public: Vec<GraphNode<CommitId>> = expr
        .clone()
        .evaluate(repo.as_ref())
        .map_err(|e| Violation::new(format!("evaluate: {e}")))?
        .stream_graph()
        .try_collect()
        .block_on()
        .map_err(|e| Violation::new(format!("stream_graph: {e}")))?;
    ensure!(
        public == graphs[1].1,
        "Revset::stream_graph() differs from iter_graph_impl(true): {:?} vs {:?}",
        to_model(world, &public, "stream_graph")?,
        graphs[1].2
    );

    for (skip, nodes, graph) in &graphs {
        let skip = *skip;
        // reverse_graph: nodes reversed, every edge to an emitted node flipped.
        let reversed = reverse_graph(
            nodes.iter().cloned().map(Ok::<_, RevsetEvaluationError>),
            |id| id,
        )
        .map_err(|e| Violation::new(format!("reverse_graph: {e}")))?;
        let reversed = to_model(world, &reversed, "reverse_graph")?;
        let rev_order: Vec<usize> = reversed.iter().map(|(c, _)| *c).collect();
        let mut expected_order: Vec<usize> = graph.iter().map(|(c, _)| *c).collect();
        expected_order.reverse();
        ensure_eq!(rev_order, expected_order, "reverse_graph(skip={skip}) node order");
        let mut flipped: Vec<(usize, usize, &'static str)> = graph
            .iter()
            .flat_map(|(c, edges)| {
                edges
                    .iter()
                    .filter(|(t, _)| shown.contains(t))
                    .map(|(t, ty)| (*t, *c, etype_name(*ty)))
            })
            .collect();
        let mut got: Vec<(usize, usize, &'static str)> = reversed
            .iter()
            .flat_map(|(c, edges)| edges.iter().map(|(t, ty)| (*c, *t, etype_name(*ty))))
            .collect();
        flipped.sort();
        got.sort();
        ensure_eq!(got, flipped, "reverse_graph(skip={skip}) edges are not the flipped edges");

        // Topo-grouped: a permutation with unchanged edges that keeps children first.
        for prioritized in [false, true] {
            let input = futures::stream::iter(
                nodes.iter().cloned().map(Ok::<_, RevsetEvaluationError>),
            );
            let mut topo = TopoGroupedGraph::new(input, |id: &CommitId| id);
            if prioritized {
                if shown.is_empty() {
                    continue;
                }
                let list: Vec<usize> = shown.iter().copied().collect();
                topo.prioritize_branch(world.id(list[pick(case.prioritize, list.len())]));
            }
            let grouped: Vec<GraphNode<CommitId>> = topo
                .stream()
                .boxed_local()
                .try_collect()
                .block_on()
                .map_err(|e| Violation::new(format!("TopoGroupedGraph: {e}")))?;
            let what = format!("topo-grouped(skip={skip}, prioritized={prioritized})");
            let grouped = to_model(world, &grouped, &what)?;
            let order: Vec<usize> = grouped.iter().map(|(c, _)| *c).collect();
            let set: BTreeSet<usize> = order.iter().copied().collect();
            ensure!(set.len() == order.len(), "{what}: node emitted twice: {order:?}");
            ensure_eq!(&set, &shown, "{what}: not a permutation of the shown set");
            let by_node: BTreeMap<usize, &Vec<Edge>> = graph.iter().map(|(c, e)| (*c, e)).collect();
            for (c, edges) in &grouped {
                ensure_eq!(edges, by_node[c], "{what}: edges of {c} changed");
            }
            for (k, c) in order.iter().enumerate() {
                for later in &order[k + 1..] {
                    ensure!(
                        !world.anc[*later].contains(c),
                        "{what}: {c} is emitted before its descendant {later}: {order:?}"
                    );
                }
            }
        }
    }

    let strict_subset = shown.len() < world.len();
    out.nontrivial = strict_subset && any_indirect && any_merge;
    Ok(out
        .class_if(shown.is_empty(), "shown:empty")
        .class_if(!strict_subset, "shown:everything"))
}

type ViewHashes = std::sync::Mutex<BTreeSet<u64>>;

fn hash_json<T: Serialize>(v: &T) -> u64 {
    use std::hash::Hash as _;
    use std::hash::Hasher as _;
    let mut h = std::collections::hash_map::DefaultHasher::new();
    serde_json::to_string(v).expect("serialise").hash(&mut h);
    h.finish()
}

fn check(case: &Case, seen: &ViewHashes) -> CheckResult {
    let world = World::build_cached(&case.world);
    let world = world.as_ref();
    let mut out = Outcome::new(false)
        .class("world")
        .class_if(case.world.padding > 0, "world:padding")
        .class_if(world.len() > 64, "world:>64-commits")
        .class_if(world.len() > world.n_written, "world:rewritten-commits");
    let world_hash = hash_json(&case.world);
    let mut hashes = vec![];
    for view in &case.views {
        let one = check_view(world, view)?;
        out.nontrivial |= one.nontrivial;
        out.classes.extend(one.classes);
        out.classes.push("graph");
        if one.nontrivial {
            out.classes.push("graph-nontrivial");
            hashes.push(world_hash ^ hash_json(view).rotate_left(17));
        }
    }
    seen.lock().unwrap().extend(hashes);
    Ok(out)
}

pub fn run(report: &mut Report) {
    report.set_rule(
        "case = one model DAG (1..=40 commits, <=4 parents; 40% with 1..=70 padding commits so \
         positions straddle the 64-bit bit-set words; 0..=2 abandon transactions giving hidden and \
         rewritten commits) + a list of shown sets (quick 0..=60 per DAG): random subset (per-commit \
         density 10..90%) or the value of a random C19 expression; each graph is produced by \
         evaluate_revset_impl(..).iter_graph_impl(skip) for skip in {false,true}, by the public \
         Revset::stream_graph(), then passed through reverse_graph and TopoGroupedGraph (with and \
         without a prioritized branch). A graph is non-trivial if the shown set is a strict subset \
         of the indexed commits, >=1 indirect edge was emitted and >=1 shown commit is a merge; a \
         case is non-trivial if one of its graphs is. evaluations/distinct_nontrivial count cases \
         (= DAGs); `graphs`/`distinct_nontrivial_graphs` in the coverage block and the `graph*` \
         classes count single shown sets (each rendered in both modes)",
    );
    report.assume(
        "the commit store returns the parents that were written; the shown set of an expression \
         case is the C19 reference value (C19 checks jj against it)",
    );
    let cases = report.tier.pick(192, 8_000);
    let hi = report.tier.pick_usize(60, 300);
    let seen: ViewHashes = std::sync::Mutex::new(BTreeSet::new());
    let evaluated = std::sync::atomic::AtomicU64::new(0);
    report.prop(
        "graph",
        cases,
        || {
            let shown = prop_oneof![
                7 => (10u32..=90).prop_flat_map(|density| {
                    prop::collection::vec(prop::bool::weighted(f64::from(density) / 100.0), 160)
                        .prop_map(Shown::Subset)
                }),
                3 => expr_strategy(3).prop_map(Shown::Expr),
            ];
            let view = (shown, any::<u16>()).prop_map(|(shown, prioritize)| View { shown, prioritize });
            // views first: they shrink against the memoised world
            (prop::collection::vec(view, 0..=hi), world_spec(40, 70))
                .prop_map(|(views, world)| Case { world, views })
        },
        |case| {
            let r = check(case, &seen);
            if r.is_ok() {
                evaluated.fetch_add(case.views.len() as u64, std::sync::atomic::Ordering::Relaxed);
            }
            r
        },
    );
    if !report.is_replay() {
        report.set_extra(
            "graphs",
            serde_json::json!(evaluated.load(std::sync::atomic::Ordering::Relaxed)),
        );
        report.set_extra(
            "distinct_nontrivial_graphs",
            serde_json::json!(seen.lock().unwrap().len()),
        );
    }
}
