//! C34 Git import and export converge without dropping updates (`repo` engine,
//! Git backend) + the end-to-end half of C33.
//!
//! A history is a list of steps against one jj repo on the Git backend: jj-side
//! bookmark set/delete, git-side branch set/delete (through an *external* gix
//! handle on the backing repository), `import_refs` (+ `rebase_descendants`),
//! `export_refs`, an `import; export` pair ("sync"), and `git pack-refs`. Commits
//! come from a pre-built model DAG; the last few nodes are written by Git only
//! (jj learns about them when an import reaches them).
//!
//! Oracles
//! * **step model** (main variant, `abandon_unreachable_commits = false`): a
//!   reference model of the four per-name values jj's documentation talks about —
//!   `L` local bookmark, `R` the `@git` remote bookmark ("last known state of the
//!   branch"), `GR` `view.git_refs()` ("our last seen view of the Git repo") and
//!   `G` the real branch — is advanced per step and compared with what jj and git
//!   really hold after *every* step, including the import statistics and the
//!   exported `failed_bookmarks` with their reasons.
//! * **sync oracle** (both variants): at every `import; export` pair the property
//!   statement is checked directly on observed values (not on the model): every
//!   unconflicted bookmark equals git's branch, a second import is a no-op,
//!   one-sided changes propagate, two-sided changes give the three-way ref merge
//!   (conflict naming both sides, or the descendant in the fast-forward case) and
//!   git keeps its value while jj is conflicted.
//! * `invariants`: the same histories with the default
//!   `abandon_unreachable_commits = true`; only the convergence invariants.
//! * `c33-e2e`: bookmarks/tags with hostile names are exported; each must appear
//!   under exactly the ref `verif_to_git_ref_name` names (or be reported as
//!   failed for a reason Git itself gives), and importing those refs into a view
//!   that has never seen them gives back the same symbols.

use std::collections::BTreeMap;
use std::collections::BTreeSet;
use std::collections::HashMap;
use std::path::Path;
use std::path::PathBuf;
use std::process::Command;
use std::process::Stdio;
use std::sync::Arc;

use bstr::ByteSlice as _;
use jj_lib::backend::CommitId;
use jj_lib::git;
use jj_lib::git::FailedRefExportReason;
use jj_lib::git::GitExportStats;
use jj_lib::git::GitImportOptions;
use jj_lib::git::GitImportStats;
use jj_lib::git::GitRefKind;
use jj_lib::git_backend::GitBackend;
use jj_lib::object_id::ObjectId as _;
use jj_lib::op_store::RefTarget;
use jj_lib::ref_name::GitRefName;
use jj_lib::ref_name::RefName;
use jj_lib::ref_name::RemoteName;
use jj_lib::ref_name::RemoteRefSymbol;
use jj_lib::repo::MutableRepo;
use jj_lib::repo::ReadonlyRepo;
use jj_lib::repo::Repo;
use jj_lib::signing::Signer;
use jj_lib::transaction::Transaction;
use pollster::FutureExt as _;
use proptest::prelude::*;
use serde::Deserialize;
use serde::Serialize;

use crate::engine::runner::CheckResult;
use crate::engine::runner::Outcome;
use crate::engine::runner::Report;
use crate::engine::runner::Violation;
use crate::engine::runner::new_scratch_dir;
use crate::engine::runner::pick;
use crate::ensure;
use crate::ensure_eq;
use crate::model::dag::BuildOpts;
use crate::model::dag::Dag;
use crate::model::dag::DagSpec;
use crate::model::dag::dag_spec;
use crate::model::dag::write_nodes;

/// Branch names. No name is a directory prefix of another one (a D/F clash is a
/// documented export failure of its own and is exercised by `c33-e2e`).
const NAMES: &[&str] = &["a", "f/x", "f/y", "main"];
const GIT_REMOTE: &str = "git";
/// Name selection is biased (monotone table lookup) so that both sides often
/// touch the same name between two reconciliations.
const NAME_TABLE: &[usize] = &[0, 0, 0, 0, 1, 1, 1, 2, 3];

fn name_index(raw: u16) -> usize {
    NAME_TABLE[pick(raw, NAME_TABLE.len())]
}

// ---------------------------------------------------------------------------
// Case types

#[derive(Debug, Clone, Serialize, Deserialize)]
pub enum Step {
    /// jj side: point bookmark at a commit jj knows (`None` = delete).
    JjSet { name: u16, target: Option<u16> },
    /// jj side: point bookmark at the root commit (which Git does not have).
    JjSetRoot { name: u16 },
    /// git side: point branch at any commit object (`None` = delete).
    GitSet { name: u16, target: Option<u16> },
    /// Both sides change the same name back to back (jj first).
    Race {
        name: u16,
        jj: Option<u16>,
        git: Option<u16>,
    },
    Import,
    Export,
    /// `import; export`
    Sync,
    /// `git pack-refs --all` by the real git binary.
    PackRefs,
}

#[derive(Debug, Clone, Serialize, Deserialize)]
pub struct Case {
    pub dag: DagSpec,
    /// Raw selector: how many DAG nodes are written by jj (the rest by Git).
    pub jj_nodes: u16,
    /// Run the whole history inside one transaction (like test_git.rs) instead
    /// of one committed operation per step.
    pub single_tx: bool,
    pub steps: Vec<Step>,
}

fn step() -> impl Strategy<Value = Step> {
    let target = || prop_oneof![3 => any::<u16>().prop_map(Some), 1 => Just(None)];
    prop_oneof![
        28 => (any::<u16>(), target()).prop_map(|(name, target)| Step::JjSet { name, target }),
        1 => any::<u16>().prop_map(|name| Step::JjSetRoot { name }),
        28 => (any::<u16>(), target()).prop_map(|(name, target)| Step::GitSet { name, target }),
        12 => (any::<u16>(), target(), target())
            .prop_map(|(name, jj, git)| Step::Race { name, jj, git }),
        8 => Just(Step::Import),
        8 => Just(Step::Export),
        10 => Just(Step::Sync),
        2 => Just(Step::PackRefs),
    ]
}

fn case(max_steps: usize) -> impl Strategy<Value = Case> {
    (
        dag_spec(3usize..=8, 2, 40),
        any::<u16>(),
        prop::bool::weighted(0.25),
        prop::collection::vec(step(), 1..=max_steps),
    )
        .prop_map(|(dag, jj_nodes, single_tx, steps)| Case {
            dag,
            jj_nodes,
            single_tx,
            steps,
        })
}

// ---------------------------------------------------------------------------
// Model values

/// A bookmark target over DAG node indices. Conflicts are compared as
/// multisets ("a conflict naming both sides"), not by term order.
#[derive(Debug, Clone, PartialEq, Eq)]
enum MT {
    Absent,
    Normal(usize),
    Conflict {
        adds: Vec<Option<usize>>,
        removes: Vec<Option<usize>>,
    },
}

impl MT {
    fn resolved(v: Option<usize>) -> Self {
        match v {
            None => Self::Absent,
            Some(i) => Self::Normal(i),
        }
    }
    fn as_resolved(&self) -> Option<Option<usize>> {
        match self {
            Self::Absent => Some(None),
            Self::Normal(i) => Some(Some(*i)),
            Self::Conflict { .. } => None,
        }
    }
    fn is_conflict(&self) -> bool {
        matches!(self, Self::Conflict { .. })
    }
    fn conflict(mut adds: Vec<Option<usize>>, mut removes: Vec<Option<usize>>) -> Self {
        adds.sort();
        removes.sort();
        Self::Conflict { adds, removes }
    }
    fn ids(&self) -> BTreeSet<usize> {
        match self {
            Self::Absent => BTreeSet::new(),
            Self::Normal(i) => BTreeSet::from([*i]),
            Self::Conflict { adds, removes } => {
                adds.iter().chain(removes).filter_map(|x| *x).collect()
            }
        }
    }
}

/// Three-way merge of a *resolved* local value with the change `base -> new`
/// (`base != new`): the documented rule of `merge_ref_targets` — trivial cases,
/// then "if a remove is an ancestor of two different adds and one of the adds is
/// an ancestor of the other, pick the descendant" (an absent remove counts as
/// the root) — on the model DAG (ancestry by BFS).
fn ref_merge(dag: &Dag, local: Option<usize>, base: Option<usize>, new: Option<usize>) -> MT {
    if local == base {
        return MT::resolved(new);
    }
    if local == new {
        return MT::resolved(local);
    }
    if let (Some(a1), Some(a2)) = (local, new) {
        let choice = if dag.is_ancestor(a1, a2) {
            Some((a1, new))
        } else if dag.is_ancestor(a2, a1) {
            Some((a2, local))
        } else {
            None
        };
        if let Some((ancestor_add, keep)) = choice {
            let removable = match base {
                None => true,
                Some(b) => dag.is_ancestor(b, ancestor_add),
            };
            if removable {
                return MT::resolved(keep);
            }
        }
    }
    MT::conflict(vec![local, new], vec![base])
}

/// The modelled part of jj's and git's state, per name index.
#[derive(Debug, Clone, PartialEq, Eq)]
struct MState {
    l: Vec<MT>,
    r: Vec<Option<usize>>,
    gr: Vec<Option<usize>>,
    g: Vec<Option<usize>>,
}

impl MState {
    fn new() -> Self {
        let n = NAMES.len();
        Self {
            l: vec![MT::Absent; n],
            r: vec![None; n],
            gr: vec![None; n],
            g: vec![None; n],
        }
    }
}

// ---------------------------------------------------------------------------
// The real thing

struct Host {
    repo: Arc<ReadonlyRepo>,
    tx: Option<Transaction>,
}

fn infra<E: std::fmt::Debug>(what: &str) -> impl Fn(E) -> Violation + '_ {
    move |err| Violation::new(format!("{what}: {err:?}"))
}

impl Host {
    /// Runs `f` on a mutable repo and publishes the result as an operation
    /// (or keeps it in the single long transaction).
    fn mutate<R>(
        &mut self,
        desc: &str,
        f: impl FnOnce(&mut MutableRepo) -> Result<R, Violation>,
    ) -> Result<R, Violation> {
        if let Some(tx) = &mut self.tx {
            f(tx.repo_mut())
        } else {
            let mut tx = self.repo.start_transaction();
            let r = f(tx.repo_mut())?;
            self.repo = tx.commit(desc).block_on().map_err(infra("commit transaction"))?;
            Ok(r)
        }
    }

    /// Runs `f` on a mutable repo whose result is thrown away (per-step mode) or
    /// must leave the view unchanged anyway (single-transaction mode).
    fn probe<R>(
        &mut self,
        f: impl FnOnce(&mut MutableRepo) -> Result<R, Violation>,
    ) -> Result<R, Violation> {
        if let Some(tx) = &mut self.tx {
            f(tx.repo_mut())
        } else {
            let mut tx = self.repo.start_transaction();
            f(tx.repo_mut())
        }
    }

    fn repo(&self) -> &dyn Repo {
        match &self.tx {
            Some(tx) => tx.repo(),
            None => self.repo.as_ref(),
        }
    }
}

struct Env {
    _dir: tempfile::TempDir,
    host: Host,
    /// External handle on the backing Git repository (not jj's own instance).
    ext_git: gix::Repository,
    git_path: PathBuf,
    dag: Dag,
    /// Commit id of DAG node i (0 = jj's root commit, which Git does not have).
    ids: Vec<CommitId>,
    jj_count: usize,
}

fn init_git_repo(dir: &Path) -> Result<Arc<ReadonlyRepo>, Violation> {
    let settings = testutils::user_settings();
    let repo_dir = dir.join("repo");
    std::fs::create_dir(&repo_dir).map_err(infra("create repo dir"))?;
    // Exactly what `TestRepo::init_with_backend(TestRepoBackend::Git)` does, but in a
    // scratch directory of the harness.
    ReadonlyRepo::init(
        &settings,
        &repo_dir,
        &|settings, store_path| {
            Ok(Box::new(GitBackend::init_internal(
                settings,
                store_path,
                gix::hash::Kind::default(),
            )?))
        },
        Signer::from_settings(&settings).map_err(infra("signer"))?,
        ReadonlyRepo::default_op_store_initializer(),
        ReadonlyRepo::default_op_heads_store_initializer(),
        ReadonlyRepo::default_index_store_initializer(),
        ReadonlyRepo::default_submodule_store_initializer(),
    )
    .block_on()
    .map_err(infra("init repo"))
}

fn oid_of(id: &CommitId) -> gix::ObjectId {
    gix::ObjectId::from_bytes_or_panic(id.as_bytes())
}

fn commit_id_of(oid: &gix::oid) -> CommitId {
    CommitId::from_bytes(oid.as_bytes())
}

fn git_signature() -> gix::actor::Signature {
    gix::actor::Signature {
        name: "Git User".into(),
        email: "git@example.com".into(),
        time: gix::date::Time::new(981_147_906, 0),
    }
}

impl Env {
    fn build(dag_spec: &DagSpec, jj_nodes: u16, single_tx: bool) -> Result<Self, Violation> {
        let dir = new_scratch_dir("c34-");
        let repo = init_git_repo(dir.path())?;
        let dag = Dag::from_spec(dag_spec);
        let n = dag.len() - 1;
        let jj_count = 1 + pick(jj_nodes, n);
        // Nodes 1..=jj_count are written through jj.
        let mut tx = repo.start_transaction();
        let mut commits = vec![];
        write_nodes(
            tx.repo_mut(),
            &dag,
            1..jj_count + 1,
            &mut commits,
            &BuildOpts::default(),
        );
        let repo = tx.commit("build dag").block_on().map_err(infra("commit dag"))?;
        let mut ids: Vec<CommitId> = commits.iter().map(|c| c.id().clone()).collect();

        let backend: &GitBackend = repo
            .store()
            .backend_impl()
            .ok_or_else(|| Violation::new("not a git backend"))?;
        let git_path = backend.git_repo_path().to_path_buf();
        let ext_git = testutils::git::open(&git_path);
        // The remaining nodes exist in Git only.
        let tree = ext_git
            .write_object(&gix::objs::Tree::empty())
            .map_err(infra("write empty tree"))?
            .detach();
        for i in jj_count + 1..dag.len() {
            let parents = dag.parents[i]
                .iter()
                .filter(|p| **p != 0)
                .map(|p| oid_of(&ids[*p]))
                .collect();
            let commit = gix::objs::Commit {
                tree,
                parents,
                author: git_signature(),
                committer: git_signature(),
                encoding: None,
                message: format!("g{i}\n").into(),
                extra_headers: vec![],
            };
            let oid = ext_git
                .write_object(&commit)
                .map_err(infra("write git commit"))?
                .detach();
            ids.push(commit_id_of(&oid));
        }
        let tx = single_tx.then(|| repo.start_transaction());
        Ok(Self {
            _dir: dir,
            host: Host { repo, tx },
            ext_git,
            git_path,
            dag,
            ids,
            jj_count,
        })
    }

    fn node_of(&self, id: &CommitId) -> Option<usize> {
        self.ids.iter().position(|x| x == id)
    }

    fn git_set(&self, full_name: &str, target: Option<&CommitId>) -> Result<(), Violation> {
        match target {
            Some(id) => {
                self.ext_git
                    .reference(
                        full_name,
                        oid_of(id),
                        gix::refs::transaction::PreviousValue::Any,
                        "external edit",
                    )
                    .map_err(infra("git-side ref update"))?;
            }
            None => {
                if let Some(r) = self
                    .ext_git
                    .try_find_reference(full_name)
                    .map_err(infra("git-side ref lookup"))?
                {
                    r.delete().map_err(infra("git-side ref delete"))?;
                }
            }
        }
        Ok(())
    }

    /// Ground truth: all refs under refs/heads/ and refs/tags/ as the external
    /// handle sees them (full name -> object id).
    fn git_refs(&self) -> Result<BTreeMap<String, gix::ObjectId>, Violation> {
        let mut out = BTreeMap::new();
        let platform = self.ext_git.references().map_err(infra("git references"))?;
        let heads = platform.local_branches().map_err(infra("git heads"))?;
        let tags = platform.tags().map_err(infra("git tags"))?;
        for r in heads.chain(tags) {
            let r = r.map_err(|e| Violation::new(format!("git ref iteration: {e:?}")))?;
            let name = r.name().as_bstr().to_str_lossy().into_owned();
            match r.target().try_id() {
                Some(id) => {
                    out.insert(name, id.to_owned());
                }
                None => return Err(Violation::new(format!("symbolic ref {name} in refs/"))),
            }
        }
        Ok(out)
    }

    fn git_cmd(&self, args: &[&str]) -> Result<String, Violation> {
        let out = Command::new("git")
            .arg("-C")
            .arg(&self.git_path)
            .args(args)
            .env("GIT_CONFIG_GLOBAL", "/dev/null")
            .env("GIT_CONFIG_SYSTEM", "/dev/null")
            .env_remove("GIT_DIR")
            .env_remove("GIT_WORK_TREE")
            .stdin(Stdio::null())
            .output()
            .map_err(infra("spawn git"))?;
        if !out.status.success() {
            return Err(Violation::new(format!(
                "git {args:?} failed: {}",
                String::from_utf8_lossy(&out.stderr)
            )));
        }
        Ok(String::from_utf8_lossy(&out.stdout).into_owned())
    }

    /// The same ground truth through the real git binary.
    fn git_refs_by_binary(&self) -> Result<BTreeMap<String, String>, Violation> {
        let text = self.git_cmd(&[
            "for-each-ref",
            "--format=%(objectname) %(refname)",
            "refs/heads",
            "refs/tags",
        ])?;
        Ok(text
            .lines()
            .filter_map(|l| l.split_once(' '))
            .map(|(oid, name)| (name.to_string(), oid.to_string()))
            .collect())
    }
}

/// What jj and git hold, in jj's own vocabulary.
#[derive(Debug, Clone, PartialEq, Eq)]
struct Obs {
    l: BTreeMap<String, RefTarget>,
    /// `name@git` target and whether it is tracked.
    r: BTreeMap<String, (RefTarget, bool)>,
    gr: BTreeMap<String, RefTarget>,
    g: BTreeMap<String, CommitId>,
}

fn observe(env: &Env) -> Result<Obs, Violation> {
    let view = env.host.repo().view();
    let l = view
        .local_bookmarks()
        .map(|(n, t)| (n.as_str().to_string(), t.clone()))
        .collect();
    let mut r = BTreeMap::new();
    for (sym, rr) in view.all_remote_bookmarks() {
        ensure!(
            sym.remote.as_str() == GIT_REMOTE,
            "remote bookmark {sym:?} on a remote that does not exist"
        );
        r.insert(
            sym.name.as_str().to_string(),
            (rr.target.clone(), rr.is_tracked()),
        );
    }
    let gr = view
        .git_refs()
        .iter()
        .map(|(n, t)| (n.as_str().to_string(), t.clone()))
        .collect();
    let mut g = BTreeMap::new();
    for (name, oid) in env.git_refs()? {
        g.insert(name, commit_id_of(&oid));
    }
    ensure!(
        view.local_tags().next().is_none() && view.all_remote_tags().next().is_none(),
        "tags appeared out of nowhere"
    );
    Ok(Obs { l, r, gr, g })
}

fn mt_of(env: &Env, t: &RefTarget) -> Result<MT, Violation> {
    let node = |id: &Option<CommitId>| -> Result<Option<usize>, Violation> {
        match id {
            None => Ok(None),
            Some(id) => env
                .node_of(id)
                .map(Some)
                .ok_or_else(|| Violation::new(format!("target {} is not a DAG commit", id.hex()))),
        }
    };
    match t.as_resolved() {
        Some(v) => Ok(MT::resolved(node(v)?)),
        None => {
            let m = t.as_merge();
            let adds = m.adds().map(node).collect::<Result<Vec<_>, _>>()?;
            let removes = m.removes().map(node).collect::<Result<Vec<_>, _>>()?;
            Ok(MT::conflict(adds, removes))
        }
    }
}

/// Converts an observation into model form; anything outside the modelled
/// name set is a violation (a ref that nobody created).
fn mstate_of(env: &Env, obs: &Obs) -> Result<MState, Violation> {
    let mut st = MState::new();
    let idx = |name: &str| NAMES.iter().position(|n| *n == name);
    for (name, t) in &obs.l {
        let i = idx(name).ok_or_else(|| Violation::new(format!("unexpected bookmark {name}")))?;
        st.l[i] = mt_of(env, t)?;
    }
    for (name, (t, tracked)) in &obs.r {
        let i =
            idx(name).ok_or_else(|| Violation::new(format!("unexpected bookmark {name}@git")))?;
        let v = mt_of(env, t)?;
        ensure!(!v.is_conflict(), "{name}@git is conflicted: {t:?}");
        ensure!(*tracked || v == MT::Absent, "{name}@git is present but not tracked");
        st.r[i] = v.as_resolved().unwrap();
    }
    for (full, t) in &obs.gr {
        let name = full
            .strip_prefix("refs/heads/")
            .ok_or_else(|| Violation::new(format!("unexpected entry {full} in view.git_refs")))?;
        let i = idx(name)
            .ok_or_else(|| Violation::new(format!("unexpected entry {full} in view.git_refs")))?;
        let v = mt_of(env, t)?;
        ensure!(!v.is_conflict(), "git_refs[{full}] is conflicted: {t:?}");
        st.gr[i] = v.as_resolved().unwrap();
    }
    for (full, id) in &obs.g {
        let name = full
            .strip_prefix("refs/heads/")
            .ok_or_else(|| Violation::new(format!("unexpected git ref {full}")))?;
        let i = idx(name).ok_or_else(|| Violation::new(format!("unexpected git ref {full}")))?;
        st.g[i] = Some(
            env.node_of(id)
                .ok_or_else(|| Violation::new(format!("git ref {full} -> unknown {}", id.hex())))?,
        );
    }
    Ok(st)
}

fn import_options(abandon: bool) -> GitImportOptions {
    GitImportOptions {
        abandon_unreachable_commits: abandon,
        record_synthetic_predecessors: true,
        remote_auto_track_bookmarks: HashMap::new(),
    }
}

/// Marker for the one legitimate way an import can fail in the `invariants`
/// variant: abandoning a child of the root commit that is a parent of a merge
/// makes `rebase_descendants` ask the Git backend for a merge with the root as
/// a parent, which it documents as unsupported (cli/tests/test_abandon_command.rs
/// `test_bug_2600_rootcommit_special_case` pins the same error for `jj abandon`).
const ROOT_MERGE_LIMIT: &str = "LIMIT root-merge: ";

fn do_import(env: &mut Env, abandon: bool) -> Result<GitImportStats, Violation> {
    let options = import_options(abandon);
    env.host.mutate("import git refs", |mut_repo| {
        let stats = git::import_refs(mut_repo, &options)
            .block_on()
            .map_err(|e| Violation::new(format!("import_refs failed: {e:?}")))?;
        mut_repo.rebase_descendants().block_on().map_err(|e| {
            let text = format!("{e:?}");
            if abandon
                && !stats.abandoned_commits.is_empty()
                && text.contains("does not support creating merge commits with the root commit")
            {
                Violation::new(format!("{ROOT_MERGE_LIMIT}{text}"))
            } else {
                Violation::new(format!("rebase_descendants failed: {text}"))
            }
        })?;
        Ok(stats)
    })
}

fn do_export(env: &mut Env) -> Result<GitExportStats, Violation> {
    env.host.mutate("export git refs", |mut_repo| {
        git::export_refs(mut_repo)
            .map_err(|e| Violation::new(format!("export_refs failed: {e:?}")))
    })
}

fn reason_tag(reason: &FailedRefExportReason) -> &'static str {
    match reason {
        FailedRefExportReason::InvalidGitName => "InvalidGitName",
        FailedRefExportReason::ConflictedOldState => "ConflictedOldState",
        FailedRefExportReason::OnRootCommit => "OnRootCommit",
        FailedRefExportReason::DeletedInJjModifiedInGit => "DeletedInJjModifiedInGit",
        FailedRefExportReason::AddedInJjAddedInGit => "AddedInJjAddedInGit",
        FailedRefExportReason::ModifiedInJjDeletedInGit => "ModifiedInJjDeletedInGit",
        FailedRefExportReason::FailedToDelete(_) => "FailedToDelete",
        FailedRefExportReason::FailedToSet(_) => "FailedToSet",
    }
}

fn failed_list(stats: &GitExportStats) -> Result<Vec<(String, &'static str)>, Violation> {
    ensure!(
        stats.failed_tags.is_empty(),
        "export reported failed tags although no tag exists: {:?}",
        stats.failed_tags
    );
    let mut out = vec![];
    for (sym, reason) in &stats.failed_bookmarks {
        ensure!(
            sym.remote.as_str() == GIT_REMOTE,
            "failed bookmark on unexpected remote: {sym:?}"
        );
        out.push((sym.name.as_str().to_string(), reason_tag(reason)));
    }
    Ok(out)
}

/// A second import right after an `import; export` pair must not change
/// anything: empty statistics and an identical view.
fn check_second_import_is_noop(env: &mut Env, abandon: bool, at: &str) -> Result<(), Violation> {
    let options = import_options(abandon);
    env.host.probe(|mut_repo| {
        let before = mut_repo.view().store_view().clone();
        let stats = git::import_refs(mut_repo, &options)
            .block_on()
            .map_err(|e| Violation::new(format!("{at}: second import_refs failed: {e:?}")))?;
        let rebased = mut_repo
            .rebase_descendants()
            .block_on()
            .map_err(|e| Violation::new(format!("{at}: rebase_descendants failed: {e:?}")))?;
        ensure!(
            stats.changed_remote_bookmarks.is_empty()
                && stats.changed_remote_tags.is_empty()
                && stats.abandoned_commits.is_empty()
                && stats.rewritten_commit_ids.is_empty()
                && stats.failed_ref_names.is_empty()
                && rebased == 0,
            "{at}: second import after import;export is not a no-op: {stats:?}"
        );
        let after = mut_repo.view().store_view().clone();
        ensure!(
            before == after,
            "{at}: second import changed the view:\nbefore={before:?}\nafter={after:?}"
        );
        Ok(())
    })
}

// ---------------------------------------------------------------------------
// Interpreter

#[derive(Default)]
struct Flags {
    two_sided_conflict: bool,
    two_sided_ff: bool,
    two_sided_same: bool,
    delete_vs_move: bool,
    jj_only: bool,
    git_only: bool,
    export_failed: bool,
    conflicted_input_merge: bool,
    root_bookmark: bool,
    git_commit_imported: bool,
    packed: bool,
    abandoned: bool,
    conflict_resolved_in_jj: bool,
    syncs: u32,
}

/// Classification of one name at a reconciliation point, from `(L, S, G)`.
fn classify(flags: &mut Flags, dag: &Dag, l: &MT, s: Option<usize>, g: Option<usize>) {
    let jj_changed = *l != MT::resolved(s);
    let git_changed = g != s;
    match (jj_changed, git_changed) {
        (false, false) => {}
        (true, false) => flags.jj_only = true,
        (false, true) => flags.git_only = true,
        (true, true) => match l.as_resolved() {
            None => flags.conflicted_input_merge = true,
            Some(lv) if lv == g => flags.two_sided_same = true,
            Some(lv) => {
                if lv.is_none() != g.is_none() {
                    flags.delete_vs_move = true;
                }
                if ref_merge(dag, lv, s, g).is_conflict() {
                    flags.two_sided_conflict = true;
                } else {
                    flags.two_sided_ff = true;
                }
            }
        },
    }
}

/// Sync oracle on observed values: `pre` is the state before the `import;
/// export` pair, `post` after it.
fn check_sync(
    dag: &Dag,
    pre: &MState,
    post: &MState,
    failed: &[(String, &'static str)],
    at: &str,
) -> Result<(), Violation> {
    for (i, name) in NAMES.iter().enumerate() {
        let (l0, s0, g0) = (&pre.l[i], pre.r[i], pre.g[i]);
        let (l2, g2) = (&post.l[i], post.g[i]);
        let on_root = *l2 == MT::Normal(0);
        // Convergence.
        if let Some(v) = l2.as_resolved()
            && !on_root
        {
            ensure!(
                g2 == v,
                "{at}: after import;export bookmark {name} is {l2:?} but git's branch is {g2:?}"
            );
        }
        let reported = failed.iter().any(|(n, _)| n == name);
        ensure!(
            reported == on_root,
            "{at}: export after import reported {failed:?}; {name} is {l2:?}"
        );
        let jj_changed = *l0 != MT::resolved(s0);
        let git_changed = g0 != s0;
        let expected: Option<MT> = match (jj_changed, git_changed) {
            (false, false) => Some(l0.clone()),
            // Only jj changed: both sides end with jj's value.
            (true, false) => Some(l0.clone()),
            // Only git changed: both sides end with git's value.
            (false, true) => Some(MT::resolved(g0)),
            (true, true) => l0.as_resolved().map(|lv| {
                if lv == g0 {
                    l0.clone()
                } else {
                    ref_merge(dag, lv, s0, g0)
                }
            }),
        };
        match expected {
            Some(e) => {
                ensure!(
                    *l2 == e,
                    "{at}: {name}: jj had {l0:?}, last synced {s0:?}, git had {g0:?}; after \
                     import;export jj has {l2:?}, expected {e:?}"
                );
                if e.is_conflict() || e == MT::Normal(0) {
                    ensure!(
                        g2 == g0,
                        "{at}: {name}: jj is {l2:?} yet git's branch moved {g0:?} -> {g2:?}"
                    );
                }
            }
            None => {
                // Conflicted jj value merged with a further git change: only
                // "no id out of thin air" (exact shape belongs to C12).
                let mut allowed = l0.ids();
                allowed.extend(g0);
                allowed.extend(s0);
                ensure!(
                    l2.ids().is_subset(&allowed),
                    "{at}: {name}: merge of {l0:?} with git change {s0:?}->{g0:?} gave {l2:?}"
                );
                if l2.is_conflict() {
                    ensure!(
                        g2 == g0,
                        "{at}: {name}: jj is {l2:?} yet git's branch moved {g0:?} -> {g2:?}"
                    );
                }
            }
        }
    }
    Ok(())
}

/// Model of `import_refs` for the `refs/heads/*` ↔ `@git` pair. Returns the
/// expected `changed_remote_bookmarks` as `(name index, old R, new R)`; entries
/// whose local merge had a conflicted input are listed in `fuzzy`.
fn model_import(
    dag: &Dag,
    st: &mut MState,
    fuzzy: &mut Vec<usize>,
) -> Vec<(usize, Option<usize>, Option<usize>)> {
    let mut changes = vec![];
    for i in 0..NAMES.len() {
        let g = st.g[i];
        st.gr[i] = g;
        if g != st.r[i] {
            changes.push((i, st.r[i], g));
            match st.l[i].as_resolved() {
                Some(lv) => st.l[i] = ref_merge(dag, lv, st.r[i], g),
                None => fuzzy.push(i),
            }
            st.r[i] = g;
        }
    }
    changes
}

/// Model of `export_refs`. Returns the expected failures.
fn model_export(st: &mut MState) -> Vec<(String, &'static str)> {
    let mut failed = vec![];
    for (i, name) in NAMES.iter().enumerate() {
        let old = st.gr[i];
        let mut fail = |reason: &'static str| failed.push((name.to_string(), reason));
        let ok = match st.l[i].clone() {
            MT::Conflict { .. } => continue, // skipped, not reported, @git untouched
            new if new == MT::resolved(old) => true,
            MT::Normal(0) => {
                fail("OnRootCommit");
                false
            }
            MT::Normal(b) => {
                let g = st.g[i];
                let outcome = match old {
                    None => match g {
                        None => Ok(()),
                        Some(x) if x == b => Ok(()),
                        Some(_) => Err("AddedInJjAddedInGit"),
                    },
                    Some(a) => match g {
                        Some(x) if x == a || x == b => Ok(()),
                        None => Err("ModifiedInJjDeletedInGit"),
                        Some(_) => Err("FailedToSet"),
                    },
                };
                match outcome {
                    Ok(()) => {
                        st.g[i] = Some(b);
                        st.gr[i] = Some(b);
                        true
                    }
                    Err(reason) => {
                        fail(reason);
                        false
                    }
                }
            }
            MT::Absent => {
                let a = old.expect("old != new and new absent");
                match st.g[i] {
                    None => {
                        st.gr[i] = None;
                        true
                    }
                    Some(x) if x == a => {
                        st.g[i] = None;
                        st.gr[i] = None;
                        true
                    }
                    Some(_) => {
                        fail("DeletedInJjModifiedInGit");
                        false
                    }
                }
            }
        };
        if ok {
            // Successfully exported (or already in sync): the local value becomes the
            // last known state of the branch.
            st.r[i] = st.l[i].as_resolved().unwrap();
        }
    }
    failed
}

struct Run<'a> {
    env: Env,
    case: &'a Case,
    /// Full model comparison (main variant) or invariants only.
    exact: bool,
    abandon: bool,
    model: MState,
    /// DAG nodes jj knows about (may be used as jj-side targets).
    known: BTreeSet<usize>,
    flags: Flags,
    /// The history ended early at a documented Git-backend limitation.
    stopped: bool,
}

impl Run<'_> {
    fn compare(&mut self, at: &str) -> Result<(Obs, Option<MState>), Violation> {
        let obs = observe(&self.env)?;
        if !self.exact {
            return Ok((obs, None));
        }
        let real = mstate_of(&self.env, &obs)?;
        ensure!(
            real == self.model,
            "{at}: state differs from the reference model\n real ={real:?}\n model={:?}",
            self.model
        );
        Ok((obs, Some(real)))
    }

    /// Marks the ancestors of every git branch that is about to be imported
    /// (git's value differs from `@git`) as known to jj.
    fn note_imported(&mut self, obs: &Obs) {
        for name in NAMES {
            let full = format!("refs/heads/{name}");
            let g = obs.g.get(&full);
            let r = obs.r.get(*name).and_then(|(t, _)| t.as_normal());
            if g != r
                && let Some(i) = g.and_then(|id| self.env.node_of(id))
            {
                for a in self.env.dag.ancestors([i]) {
                    if a > self.env.jj_count && self.known.insert(a) {
                        self.flags.git_commit_imported = true;
                    }
                }
            }
        }
    }

    fn import(&mut self, at: &str) -> Result<(), Violation> {
        let pre = observe(&self.env)?;
        self.note_imported(&pre);
        let stats = match do_import(&mut self.env, self.abandon) {
            Ok(stats) => stats,
            Err(v) if v.msg.starts_with(ROOT_MERGE_LIMIT) => {
                self.stopped = true;
                return Ok(());
            }
            Err(v) => return Err(v),
        };
        ensure!(
            stats.changed_remote_tags.is_empty() && stats.failed_ref_names.is_empty(),
            "{at}: import reported tags/failed refs: {stats:?}"
        );
        // Import never writes to Git's refs.
        let g_after = self.env.git_refs()?;
        let g_after: BTreeMap<String, CommitId> = g_after
            .into_iter()
            .map(|(n, oid)| (n, commit_id_of(&oid)))
            .collect();
        ensure!(g_after == pre.g, "{at}: import changed git refs: {:?} -> {g_after:?}", pre.g);
        if !self.exact {
            self.flags.abandoned |= !stats.abandoned_commits.is_empty();
            return Ok(());
        }
        ensure!(
            stats.abandoned_commits.is_empty() && stats.rewritten_commit_ids.is_empty(),
            "{at}: import abandoned/rewrote commits with abandon_unreachable_commits=false: \
             {stats:?}"
        );
        for i in 0..NAMES.len() {
            let (l, s, g) = (&self.model.l[i], self.model.r[i], self.model.g[i]);
            classify(&mut self.flags, &self.env.dag, l, s, g);
        }
        let mut fuzzy = vec![];
        let expected = model_import(&self.env.dag, &mut self.model, &mut fuzzy);
        let mut got = vec![];
        for u in &stats.changed_remote_bookmarks {
            ensure!(
                u.symbol.remote.as_str() == GIT_REMOTE,
                "{at}: import touched remote {:?}",
                u.symbol
            );
            let i = NAMES
                .iter()
                .position(|n| *n == u.symbol.name.as_str())
                .ok_or_else(|| Violation::new(format!("{at}: import of unknown {:?}", u.symbol)))?;
            let old = mt_of(&self.env, &u.old_remote_ref.target)?;
            let new = mt_of(&self.env, &u.new_target)?;
            got.push((i, old, new));
        }
        got.sort_by_key(|(i, _, _)| NAMES[*i]);
        let mut want: Vec<_> = expected
            .iter()
            .map(|(i, o, n)| (*i, MT::resolved(*o), MT::resolved(*n)))
            .collect();
        want.sort_by_key(|(i, _, _)| NAMES[*i]);
        ensure!(
            got == want,
            "{at}: import statistics differ from the model: got {got:?}, want {want:?}"
        );
        // Conflicted local value merged with a git change: adopt jj's result after a
        // sanity check (its exact shape is C12's business).
        if !fuzzy.is_empty() {
            let obs = observe(&self.env)?;
            let real = mstate_of(&self.env, &obs)?;
            for i in fuzzy {
                let (_, old, new) = expected.iter().find(|(j, _, _)| *j == i).unwrap();
                let mut allowed = self.model.l[i].ids();
                allowed.extend(*old);
                allowed.extend(*new);
                ensure!(
                    real.l[i].ids().is_subset(&allowed),
                    "{at}: {}: merge of {:?} with git change {old:?}->{new:?} gave {:?}",
                    NAMES[i],
                    self.model.l[i],
                    real.l[i]
                );
                self.model.l[i] = real.l[i].clone();
            }
        }
        Ok(())
    }

    fn export(&mut self, at: &str) -> Result<Vec<(String, &'static str)>, Violation> {
        let stats = do_export(&mut self.env)?;
        let failed = failed_list(&stats)?;
        if !failed.is_empty() {
            self.flags.export_failed = true;
        }
        if self.exact {
            for i in 0..NAMES.len() {
                // At an export, "last synced" is what jj last saw in git.
                let (l, s, g) = (&self.model.l[i], self.model.gr[i], self.model.g[i]);
                classify(&mut self.flags, &self.env.dag, l, s, g);
            }
            let want = model_export(&mut self.model);
            ensure!(
                failed == want,
                "{at}: export failures differ from the model: got {failed:?}, want {want:?}"
            );
        }
        Ok(failed)
    }

    fn sync(&mut self, at: &str) -> Result<(), Violation> {
        let pre_obs = observe(&self.env)?;
        self.import(&format!("{at} (import)"))?;
        if self.stopped {
            return Ok(());
        }
        let (mid_obs, _) = self.compare(&format!("{at} (after import)"))?;
        let failed = self.export(&format!("{at} (export)"))?;
        let (post_obs, _) = self.compare(&format!("{at} (after export)"))?;
        if self.exact {
            let pre = mstate_of(&self.env, &pre_obs)?;
            let post = mstate_of(&self.env, &post_obs)?;
            check_sync(&self.env.dag, &pre, &post, &failed, at)?;
        } else {
            // Invariants only, on raw ids (commits may have been rewritten).
            let root = self.env.ids[0].clone();
            for name in NAMES {
                let full = format!("refs/heads/{name}");
                let l = post_obs.l.get(*name).cloned().unwrap_or_else(RefTarget::absent);
                let g = post_obs.g.get(&full);
                let on_root = l.as_normal() == Some(&root);
                match l.as_resolved() {
                    Some(v) if !on_root => ensure!(
                        v.as_ref() == g,
                        "{at}: after import;export bookmark {name} is {l:?} but git has {g:?}"
                    ),
                    _ => ensure!(
                        g == mid_obs.g.get(&full),
                        "{at}: {name} is {l:?} yet export moved git's branch to {g:?}"
                    ),
                }
                let reported = failed.iter().any(|(n, _)| n == name);
                ensure!(
                    reported == on_root,
                    "{at}: export after import reported {failed:?}; {name} is {l:?}"
                );
            }
            for name in post_obs.l.keys() {
                ensure!(NAMES.contains(&name.as_str()), "{at}: unexpected bookmark {name}");
            }
        }
        check_second_import_is_noop(&mut self.env, self.abandon, at)?;
        self.flags.syncs += 1;
        Ok(())
    }

    fn jj_set(&mut self, i: usize, target: Option<u16>) -> Result<(), Violation> {
        let candidates: Vec<usize> = self.known.iter().copied().filter(|n| *n != 0).collect();
        let t = target.map(|raw| candidates[pick(raw, candidates.len())]);
        if self.exact && self.model.l[i].is_conflict() {
            self.flags.conflict_resolved_in_jj = true;
        }
        let new = match t {
            Some(n) => RefTarget::normal(self.env.ids[n].clone()),
            None => RefTarget::absent(),
        };
        self.env.host.mutate("set bookmark", |mut_repo| {
            mut_repo.set_local_bookmark_target(RefName::new(NAMES[i]), new);
            Ok(())
        })?;
        self.model.l[i] = MT::resolved(t);
        Ok(())
    }

    fn git_set(&mut self, i: usize, target: Option<u16>) -> Result<(), Violation> {
        let n = self.env.dag.len() - 1;
        let t = target.map(|raw| 1 + pick(raw, n));
        self.env.git_set(
            &format!("refs/heads/{}", NAMES[i]),
            t.map(|n| &self.env.ids[n]),
        )?;
        self.model.g[i] = t;
        Ok(())
    }

    fn run(&mut self) -> Result<(), Violation> {
        let case = self.case;
        let mut prev_was_import = false;
        let mut pre_import: Option<Obs> = None;
        for (k, step) in case.steps.iter().enumerate() {
            let at = format!("step {k} {step:?}");
            let mut this_is_import = false;
            match step {
                Step::JjSet { name, target } => self.jj_set(name_index(*name), *target)?,
                Step::JjSetRoot { name } => {
                    let i = name_index(*name);
                    self.flags.root_bookmark = true;
                    let new = RefTarget::normal(self.env.ids[0].clone());
                    self.env.host.mutate("set bookmark on root", |mut_repo| {
                        mut_repo.set_local_bookmark_target(RefName::new(NAMES[i]), new);
                        Ok(())
                    })?;
                    self.model.l[i] = MT::Normal(0);
                }
                Step::GitSet { name, target } => self.git_set(name_index(*name), *target)?,
                Step::Race { name, jj, git } => {
                    let i = name_index(*name);
                    self.jj_set(i, *jj)?;
                    self.git_set(i, *git)?;
                }
                Step::Import => {
                    pre_import = Some(observe(&self.env)?);
                    self.import(&at)?;
                    this_is_import = true;
                }
                Step::Export => {
                    let failed = self.export(&at)?;
                    if prev_was_import && self.exact {
                        // A naturally occurring `import; export` pair.
                        self.flags.syncs += 1;
                        let (post_obs, _) = self.compare(&at)?;
                        let pre = mstate_of(&self.env, pre_import.as_ref().unwrap())?;
                        let post = mstate_of(&self.env, &post_obs)?;
                        check_sync(&self.env.dag, &pre, &post, &failed, &at)?;
                        check_second_import_is_noop(&mut self.env, self.abandon, &at)?;
                    }
                }
                Step::Sync => self.sync(&at)?,
                Step::PackRefs => {
                    self.flags.packed = true;
                    self.env.git_cmd(&["pack-refs", "--all"])?;
                }
            }
            if self.stopped {
                // The failed transaction is discarded, as the CLI would do.
                self.env.host.tx = None;
                return Ok(());
            }
            prev_was_import = this_is_import;
            self.compare(&at)?;
        }
        // Whatever happened, a final `import; export` must reconcile the two sides.
        self.sync("final sync")?;
        if self.stopped {
            self.env.host.tx = None;
            return Ok(());
        }
        self.compare("final sync")?;
        // Ground truth once more through the real git binary.
        let by_gix: BTreeMap<String, String> = self
            .env
            .git_refs()?
            .into_iter()
            .map(|(n, oid)| (n, oid.to_hex().to_string()))
            .collect();
        let by_git = self.env.git_refs_by_binary()?;
        ensure!(
            by_gix == by_git,
            "gix and `git for-each-ref` disagree on the final refs: {by_gix:?} vs {by_git:?}"
        );
        // The long transaction must still be committable.
        if let Some(tx) = self.env.host.tx.take() {
            tx.commit("whole history")
                .block_on()
                .map_err(|e| Violation::new(format!("final commit failed: {e:?}")))?;
        }
        Ok(())
    }
}

fn check_history(case: &Case, exact: bool, abandon: bool) -> CheckResult {
    let env = Env::build(&case.dag, case.jj_nodes, case.single_tx)?;
    let known = (0..=env.jj_count).collect();
    let mut run = Run {
        env,
        case,
        exact,
        abandon,
        model: MState::new(),
        known,
        flags: Flags::default(),
        stopped: false,
    };
    run.run()?;
    let f = &run.flags;
    let nontrivial = if exact {
        f.two_sided_conflict || f.two_sided_ff || f.delete_vs_move || f.conflicted_input_merge
    } else {
        f.syncs > 0 && f.abandoned
    };
    Ok(Outcome::new(nontrivial)
        .class_if(f.two_sided_conflict, "two-sided-conflict")
        .class_if(f.two_sided_ff, "two-sided-fast-forward")
        .class_if(f.two_sided_same, "two-sided-same-value")
        .class_if(f.delete_vs_move, "delete-vs-move")
        .class_if(f.jj_only, "jj-only-change")
        .class_if(f.git_only, "git-only-change")
        .class_if(f.export_failed, "export-failure-reported")
        .class_if(f.conflicted_input_merge, "conflicted-bookmark-merged-again")
        .class_if(f.conflict_resolved_in_jj, "conflict-resolved-in-jj")
        .class_if(f.root_bookmark, "bookmark-on-root")
        .class_if(f.git_commit_imported, "git-only-commit-imported")
        .class_if(f.packed, "packed-refs")
        .class_if(f.abandoned, "import-abandoned-commits")
        .class_if(case.single_tx, "single-transaction")
        .class_if(f.syncs >= 2, "two-or-more-sync-pairs")
        .class_if(run.stopped, "stopped-at-root-merge-limitation"))
}

// ---------------------------------------------------------------------------
// C33 end to end

#[derive(Debug, Clone, Serialize, Deserialize)]
pub struct E2eEntry {
    pub tag: bool,
    pub name: String,
    /// Raw selector of the target commit (the root commit included).
    pub target: u16,
}

#[derive(Debug, Clone, Serialize, Deserialize)]
pub struct E2eCase {
    pub entries: Vec<E2eEntry>,
}

/// Segments Git accepts inside a ref name.
const OK_SEGMENTS: &[&str] = &[
    "a", "b", "main", "HEAD", "head", "HEADx", "é", "日本", "@", "a@b", "-", "git", "refs", "heads",
    "tags", "remotes", "origin", "v1.0", "x.locked", "\u{1F600}", "e\u{301}", "a.b", "{",
];
/// Segments Git rejects (or that make the whole name unmappable).
const BAD_SEGMENTS: &[&str] = &[
    "x.lock", ".hid", "foo.", "a..b", "a b", "~", "^", ":", "*", "\\", "\u{7f}", "@{", "", ".", "..",
    "[", "?",
];

fn e2e_name() -> impl Strategy<Value = String> {
    let segment = prop_oneof![
        20 => any::<u16>().prop_map(|r| OK_SEGMENTS[pick(r, OK_SEGMENTS.len())].to_string()),
        3 => any::<u16>().prop_map(|r| BAD_SEGMENTS[pick(r, BAD_SEGMENTS.len())].to_string()),
        1 => "\\PC{0,5}",
        1 => "[a-zA-Z0-9._-]{1,5}",
    ];
    prop_oneof![
        12 => prop::collection::vec(segment, 1..=3).prop_map(|segs| segs.join("/")),
        // the names the HEAD exclusion is about
        1 => Just("HEAD".to_string()),
    ]
}

fn e2e_case() -> impl Strategy<Value = E2eCase> {
    prop::collection::vec(
        (
            prop::bool::weighted(0.35),
            e2e_name(),
            any::<u16>(),
            // Some(raw): nest this name under an earlier entry's name (directory/file clash).
            prop_oneof![5 => Just(None), 1 => any::<u16>().prop_map(Some)],
        ),
        1..=6,
    )
    .prop_map(|raw_entries| {
        let mut entries: Vec<E2eEntry> = vec![];
        for (tag, name, target, nest) in raw_entries {
            let entry = match nest {
                Some(raw) if !entries.is_empty() => {
                    let parent = &entries[pick(raw, entries.len())];
                    E2eEntry {
                        tag: parent.tag,
                        name: format!("{}/{name}", parent.name),
                        target,
                    }
                }
                _ => E2eEntry { tag, name, target },
            };
            entries.push(entry);
        }
        E2eCase { entries }
    })
}

fn check_e2e(case: &E2eCase) -> CheckResult {
    // Deduplicate by (kind, name): the last entry wins, as with repeated `set`.
    let mut wanted: BTreeMap<(bool, String), u16> = BTreeMap::new();
    for e in &case.entries {
        wanted.insert((e.tag, e.name.clone()), e.target);
    }
    let spec = DagSpec {
        nodes: (0..3)
            .map(|_| crate::model::dag::NodeSpec {
                parents: vec![u16::MAX],
                aux: 0,
            })
            .collect(),
    };
    let mut env = Env::build(&spec, u16::MAX, false)?;
    let base_repo = env.host.repo.clone();
    let n_nodes = env.dag.len();
    let git_remote = RemoteName::new(GIT_REMOTE);

    struct Entry {
        tag: bool,
        name: String,
        node: usize,
        ref_name: Option<String>,
    }
    let entries: Vec<Entry> = wanted
        .iter()
        .map(|((tag, name), raw)| {
            let kind = if *tag { GitRefKind::Tag } else { GitRefKind::Bookmark };
            let symbol = RemoteRefSymbol {
                name: RefName::new(name),
                remote: git_remote,
            };
            Entry {
                tag: *tag,
                name: name.clone(),
                node: pick(*raw, n_nodes),
                ref_name: git::verif_to_git_ref_name(kind, symbol).map(|r| r.as_str().to_string()),
            }
        })
        .collect();

    let ids = env.ids.clone();
    let stats = env.host.mutate("set and export", |mut_repo| {
        for e in &entries {
            let target = RefTarget::normal(ids[e.node].clone());
            if e.tag {
                mut_repo.set_local_tag_target(RefName::new(&e.name), target);
            } else {
                mut_repo.set_local_bookmark_target(RefName::new(&e.name), target);
            }
        }
        git::export_refs(mut_repo).map_err(|e| Violation::new(format!("export_refs failed: {e:?}")))
    })?;
    let mut failed: BTreeMap<(bool, String), &'static str> = BTreeMap::new();
    for (tag, list) in [(false, &stats.failed_bookmarks), (true, &stats.failed_tags)] {
        for (sym, reason) in list {
            ensure!(sym.remote.as_str() == GIT_REMOTE, "failure on remote {sym:?}");
            let key = (tag, sym.name.as_str().to_string());
            ensure!(wanted.contains_key(&key), "export reports unknown symbol {sym:?}");
            failed.insert(key, reason_tag(reason));
        }
    }
    let git_refs = env.git_refs()?;

    let exported: Vec<&Entry> = entries
        .iter()
        .filter(|e| !failed.contains_key(&(e.tag, e.name.clone())))
        .collect();
    // Forward: every exported symbol sits under exactly the ref the pure function names.
    let mut expected_refs: BTreeMap<String, gix::ObjectId> = BTreeMap::new();
    for e in &exported {
        let Some(r) = &e.ref_name else {
            return Err(Violation::new(format!(
                "{:?} (tag={}) has no Git ref name but export did not report it",
                e.name, e.tag
            )));
        };
        let oid = oid_of(&ids[e.node]);
        ensure!(
            git_refs.get(r) == Some(&oid),
            "{:?} (tag={}) should be exported as {r:?} -> {oid}, git has {:?}",
            e.name,
            e.tag,
            git_refs.get(r)
        );
        // ... and parses back to the same symbol.
        let parsed = git::parse_git_ref(GitRefName::new(r));
        let want_kind = if e.tag { GitRefKind::Tag } else { GitRefKind::Bookmark };
        match parsed {
            Some((kind, sym))
                if kind == want_kind
                    && sym.name.as_str() == e.name
                    && sym.remote.as_str() == GIT_REMOTE => {}
            other => {
                return Err(Violation::new(format!(
                    "exported ref {r:?} parses to {other:?}, not to {:?} (tag={})",
                    e.name, e.tag
                )));
            }
        }
        ensure!(
            expected_refs.insert(r.clone(), oid).is_none(),
            "two exported symbols share the ref {r:?}"
        );
    }
    ensure_eq!(
        git_refs,
        expected_refs,
        "refs in git vs. refs named by verif_to_git_ref_name for the exported symbols"
    );
    // Every reported failure has a reason Git itself gives.
    let mut invalid_names = false;
    let mut df_clash = false;
    for e in &entries {
        let Some(reason) = failed.get(&(e.tag, e.name.clone())) else {
            continue;
        };
        let justified = match &e.ref_name {
            None => true,
            Some(r) => {
                let invalid = gix::validate::reference::name(r.as_bytes().as_bstr()).is_err();
                let clash = expected_refs.keys().any(|other| {
                    other.starts_with(&format!("{r}/")) || r.starts_with(&format!("{other}/"))
                });
                invalid_names |= invalid;
                df_clash |= clash;
                invalid || clash || e.node == 0
            }
        };
        ensure!(
            justified,
            "export of {:?} (tag={}) -> {:?} failed with {reason} although the name is valid, \
             free and not on the root commit",
            e.name,
            e.tag,
            e.ref_name
        );
    }
    // Backward: a view that has never seen these refs imports them as the same symbols.
    let mut tx = base_repo.start_transaction();
    let mut_repo = tx.repo_mut();
    git::import_refs(mut_repo, &import_options(false))
        .block_on()
        .map_err(|e| Violation::new(format!("import of exported refs failed: {e:?}")))?;
    let view = mut_repo.view();
    let mut want_bookmarks = BTreeMap::new();
    let mut want_tags = BTreeMap::new();
    for e in &exported {
        let target = RefTarget::normal(ids[e.node].clone());
        if e.tag {
            want_tags.insert(e.name.clone(), target);
        } else {
            want_bookmarks.insert(e.name.clone(), target);
        }
    }
    let got_bookmarks: BTreeMap<String, RefTarget> = view
        .local_bookmarks()
        .map(|(n, t)| (n.as_str().to_string(), t.clone()))
        .collect();
    let got_tags: BTreeMap<String, RefTarget> = view
        .local_tags()
        .map(|(n, t)| (n.as_str().to_string(), t.clone()))
        .collect();
    ensure_eq!(got_bookmarks, want_bookmarks, "bookmarks after importing the exported refs");
    ensure_eq!(got_tags, want_tags, "tags after importing the exported refs");
    let got_remote: BTreeMap<String, RefTarget> = view
        .all_remote_bookmarks()
        .map(|(s, r)| (format!("{}@{}", s.name.as_str(), s.remote.as_str()), r.target.clone()))
        .collect();
    let want_remote: BTreeMap<String, RefTarget> = want_bookmarks
        .iter()
        .map(|(n, t)| (format!("{n}@{GIT_REMOTE}"), t.clone()))
        .collect();
    ensure_eq!(got_remote, want_remote, "@git bookmarks after importing the exported refs");
    let got_git_refs: BTreeSet<String> =
        view.git_refs().keys().map(|k| k.as_str().to_string()).collect();
    let want_git_refs: BTreeSet<String> = expected_refs.keys().cloned().collect();
    ensure_eq!(got_git_refs, want_git_refs, "view.git_refs after importing the exported refs");

    let tricky = entries
        .iter()
        .any(|e| e.name.contains('/') || e.name.contains("HEAD"));
    Ok(Outcome::new(tricky && !exported.is_empty())
        .class_if(!failed.is_empty(), "e2e-export-failure")
        .class_if(invalid_names, "e2e-git-invalid-name")
        .class_if(df_clash, "e2e-dir-file-clash")
        .class_if(entries.iter().any(|e| e.ref_name.is_none()), "e2e-unmappable-symbol")
        .class_if(exported.iter().any(|e| e.tag), "e2e-tag-exported")
        .class_if(exported.iter().any(|e| e.name.contains('/')), "e2e-slash-name-exported")
        .class_if(
            exported.iter().any(|e| !e.name.is_ascii()),
            "e2e-non-ascii-name-exported",
        ))
}

// ---------------------------------------------------------------------------

pub fn run(report: &mut Report) {
    // Set the hermetic Git environment once, before any worker thread exists.
    testutils::hermetic_git();
    report.set_rule(
        "histories of 1..=20 steps (jj bookmark set/delete/on-root, external git branch \
         set/delete, import+rebase_descendants, export, import;export pair, git pack-refs) over 4 \
         branch names and a 3..=8 node model DAG whose last nodes exist in Git only; 25% run in a \
         single transaction; main: abandon_unreachable_commits=false with an exact per-step \
         reference model plus the sync oracle; invariants: default options, convergence \
         invariants only; c33-e2e: 1..=6 bookmarks/tags with hostile names exported and \
         re-imported. Non-trivial = some name changed on both sides between reconciliations \
         (conflict, fast-forward, delete vs. move, or a conflicted bookmark merged again); \
         invariants: an import that abandoned commits plus a completed import;export pair; c33-e2e: an exported set containing a \
         name with '/' or HEAD",
    );
    report.assume(
        "ground truth for Git's refs is read through an independent gix handle after every step \
         and through `git for-each-ref` at the end of each history; ancestry comes from the model \
         DAG (BFS), never from jj's index",
    );
    report.assume(
        "merges whose local input is already conflicted are only checked for 'no commit id out \
         of thin air' and then adopted into the model (their exact shape is C12's subject)",
    );
    let tier = report.tier;
    report.prop(
        "main",
        tier.pick(120, 6000),
        || case(20),
        |c| check_history(c, true, false),
    );
    report.prop(
        "invariants",
        tier.pick(40, 2000),
        || case(20),
        |c| check_history(c, false, true),
    );
    report.prop("c33-e2e", tier.pick(80, 6000), e2e_case, check_e2e);
}
