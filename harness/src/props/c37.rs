//! C37 Bisection finds the first bad commit.
//!
//! A model DAG is written into a fresh test repo, a range expression is built
//! from generated selectors (`x..y`, `x::y`, `::y`, unions of those) and
//! evaluated *in the model* (BFS ancestry, never jj's index). The bad set `B`
//! is the upward closure inside the range of a generated set of commits, plus
//! every head of the range (the bisector assumes heads bad). The check then
//! drives `Bisector::next_step` / `mark_*` to completion, answering from `B`
//! (or `Skip` for the generated skip set), and compares with the model.
//!
//! Known finding F3 (DESIGN §7): with several independent first-bad commits the
//! bisector may report only some of them. The signature predicate is
//! implemented in `classify_found`: the result is `Found(S)` with `S` a
//! non-empty strict subset of `minimal(B)` and every reported commit minimal.

use std::collections::BTreeSet;
use std::sync::Arc;
use std::sync::atomic::AtomicU64;
use std::sync::atomic::Ordering;

use jj_lib::bisect::BisectionResult;
use jj_lib::bisect::Bisector;
use jj_lib::bisect::NextStep;
use jj_lib::commit::Commit;
use jj_lib::object_id::ObjectId as _;
use jj_lib::repo::Repo;
use jj_lib::transaction::Transaction;
use jj_lib::revset::ResolvedRevsetExpression;
use pollster::FutureExt as _;
use proptest::prelude::*;
use serde::Deserialize;
use serde::Serialize;

use crate::engine::runner::CheckResult;
use crate::engine::runner::Outcome;
use crate::engine::runner::Report;
use crate::engine::runner::Violation;
use crate::engine::runner::pick;
use crate::model::dag::BuildOpts;
use crate::model::dag::Dag;
use crate::model::dag::DagSpec;
use crate::model::dag::NodeSpec;
use crate::model::base_repo::with_base_repo;
use crate::model::dag::write_nodes;
use crate::model::dag::dag_spec;
use crate::model::dag::index_of;

pub const F3_SIGNATURE: &str = "C37-F3-partial-first-bad";
pub const F4_SIGNATURE: &str = "C37-F4-found-despite-skipped-bad-below-gap";

/// One range operand. Selectors are raw `u16`s mapped monotonically with `pick`.
#[derive(Debug, Clone, Serialize, Deserialize)]
pub enum Part {
    /// `x..y`: ancestors of `y` that are not ancestors of `x`; `x` is drawn from
    /// the non-descendants of `y`, so the part is never empty.
    DotDot { x: u16, y: u16 },
    /// `x::y`: descendants of `x` that are ancestors of `y`; `x` is drawn from the
    /// ancestors of `y`.
    DagRange { x: u16, y: u16 },
    /// `::y` (includes the root commit, as in jj's own test).
    Ancestors { y: u16 },
}

#[derive(Debug, Clone, Serialize, Deserialize)]
pub struct Case {
    pub dag: DagSpec,
    /// The range is the union of the parts (1..=3).
    pub parts: Vec<Part>,
    /// Selectors of range commits whose descendants (within the range) are bad.
    /// The heads of the range are always bad.
    pub front: Vec<u16>,
    /// Selectors of range commits answered with `Skip` (empty in the strict subs).
    pub skips: Vec<u16>,
}

/// Case of the exhaustive sub-check: every admissible bad set of the range is
/// enumerated inside the check.
#[derive(Debug, Clone, Serialize, Deserialize)]
pub struct SmallCase {
    pub dag: DagSpec,
    pub parts: Vec<Part>,
}

// ---------------------------------------------------------------- model side

struct Resolved {
    /// (x, y) model indices per part (x unused for `Ancestors`).
    parts: Vec<(Option<usize>, usize, u8)>,
    range: BTreeSet<usize>,
}

fn resolve_parts(dag: &Dag, parts: &[Part]) -> Resolved {
    let n = dag.len();
    assert!(n >= 2, "DAG needs a non-root commit");
    let mut range = BTreeSet::new();
    let mut resolved = vec![];
    for part in parts {
        match part {
            Part::DotDot { x, y } => {
                let y = 1 + pick(*y, n - 1);
                let desc_y = dag.descendants([y]);
                let xs: Vec<usize> = (0..n).filter(|v| !desc_y.contains(v)).collect();
                // The root is never a descendant of y >= 1, so xs is non-empty.
                let x = xs[pick(*x, xs.len())];
                let anc_x = dag.ancestors([x]);
                range.extend(dag.ancestors([y]).into_iter().filter(|v| !anc_x.contains(v)));
                resolved.push((Some(x), y, 0));
            }
            Part::DagRange { x, y } => {
                let y = 1 + pick(*y, n - 1);
                let anc_y = dag.ancestors([y]);
                let xs: Vec<usize> = anc_y.iter().copied().collect();
                let x = xs[pick(*x, xs.len())];
                let desc_x = dag.descendants([x]);
                range.extend(anc_y.into_iter().filter(|v| desc_x.contains(v)));
                resolved.push((Some(x), y, 1));
            }
            Part::Ancestors { y } => {
                let y = 1 + pick(*y, n - 1);
                range.extend(dag.ancestors([y]));
                resolved.push((None, y, 2));
            }
        }
    }
    Resolved {
        parts: resolved,
        range,
    }
}

fn range_expression(resolved: &Resolved, commits: &[Commit]) -> Arc<ResolvedRevsetExpression> {
    let one = |i: usize| ResolvedRevsetExpression::commit(commits[i].id().clone());
    let mut expr: Option<Arc<ResolvedRevsetExpression>> = None;
    for (x, y, kind) in &resolved.parts {
        let part = match kind {
            0 => one(x.unwrap()).range(&one(*y)),
            1 => one(x.unwrap()).dag_range_to(&one(*y)),
            _ => one(*y).ancestors(),
        };
        expr = Some(match expr {
            None => part,
            Some(e) => e.union(&part),
        });
    }
    expr.unwrap_or_else(ResolvedRevsetExpression::none)
}

fn describe_parts(resolved: &Resolved) -> String {
    resolved
        .parts
        .iter()
        .map(|(x, y, kind)| match kind {
            0 => format!("{}..{}", x.unwrap(), y),
            1 => format!("{}::{}", x.unwrap(), y),
            _ => format!("::{y}"),
        })
        .collect::<Vec<_>>()
        .join(" | ")
}

fn select(range: &[usize], raws: &[u16]) -> BTreeSet<usize> {
    raws.iter()
        .map(|raw| range[pick(*raw, range.len())])
        .collect()
}

/// Upward closure of `front` inside the range, plus the heads of the range.
fn bad_set(dag: &Dag, range: &BTreeSet<usize>, heads: &BTreeSet<usize>, front: &BTreeSet<usize>) -> BTreeSet<usize> {
    let mut bad: BTreeSet<usize> = dag
        .descendants(front.iter().copied())
        .into_iter()
        .filter(|v| range.contains(v))
        .collect();
    bad.extend(heads.iter().copied());
    bad
}

/// The range is totally ordered by ancestry (a chain, possibly with gaps).
fn is_chain(dag: &Dag, range: &BTreeSet<usize>) -> bool {
    let v: Vec<usize> = range.iter().copied().collect();
    v.windows(2).all(|w| dag.is_ancestor(w[0], w[1]))
}

/// Some commit of the range has two or more parents whose ancestry reaches the
/// range (a merge the bisector has to deal with).
fn has_merge(dag: &Dag, range: &BTreeSet<usize>) -> bool {
    range.iter().any(|&c| {
        dag.parents[c]
            .iter()
            .filter(|&&p| dag.ancestors([p]).iter().any(|a| range.contains(a)))
            .count()
            >= 2
    })
}

fn is_convex(dag: &Dag, range: &BTreeSet<usize>) -> bool {
    let up = dag.descendants(range.iter().copied());
    let down = dag.ancestors(range.iter().copied());
    up.intersection(&down).all(|v| range.contains(v))
}

fn ceil_log2(n: usize) -> usize {
    let mut k = 0;
    while (1usize << k) < n {
        k += 1;
    }
    k
}

// ------------------------------------------------------------- driving jj

#[derive(Debug, Clone, PartialEq, Eq)]
enum ModelResult {
    Found(Vec<usize>),
    FoundDespiteSkips { bad: Vec<usize>, possibly_bad: Vec<usize> },
    Indeterminate,
    Abort,
}

struct Run {
    asked: Vec<usize>,
    skipped: BTreeSet<usize>,
    result: ModelResult,
}

struct Ctx<'a> {
    repo: &'a dyn Repo,
    commits: &'a [Commit],
    dag: &'a Dag,
    expr: &'a Arc<ResolvedRevsetExpression>,
    range: &'a BTreeSet<usize>,
    heads: &'a BTreeSet<usize>,
    what: String,
}

impl Ctx<'_> {
    fn to_model(&self, commits: &[Commit]) -> Result<Vec<usize>, Violation> {
        commits
            .iter()
            .map(|c| {
                index_of(self.commits, c.id()).ok_or_else(|| {
                    Violation::new(format!(
                        "{}: result names unknown commit {}",
                        self.what,
                        c.id().hex()
                    ))
                })
            })
            .collect()
    }

    /// Drives the bisector to completion with answers taken from `bad` / `skip`
    /// and checks the per-question obligations (in range, asked once, not
    /// already implied by earlier answers, terminates).
    fn drive(&self, bad: &BTreeSet<usize>, skip: &BTreeSet<usize>) -> Result<Run, Violation> {
        let what = &self.what;
        let mut bisector = Bisector::new(self.repo, self.expr.clone())
            .block_on()
            .map_err(|e| Violation::new(format!("{what}: Bisector::new failed: {e}")))?;
        let mut asked: Vec<usize> = vec![];
        let mut known_bad: BTreeSet<usize> = self.heads.clone();
        let mut known_good: BTreeSet<usize> = BTreeSet::new();
        let mut skipped: BTreeSet<usize> = BTreeSet::new();
        loop {
            let step = bisector
                .next_step()
                .block_on()
                .map_err(|e| Violation::new(format!("{what}: next_step failed: {e}")))?;
            match step {
                NextStep::Evaluate(commit) => {
                    let Some(c) = index_of(self.commits, commit.id()) else {
                        return Err(Violation::new(format!(
                            "{what}: asked about unknown commit {}",
                            commit.id().hex()
                        )));
                    };
                    if !self.range.contains(&c) {
                        return Err(Violation::new(format!(
                            "{what}: asked about commit {c} outside the range (asked so far {asked:?})"
                        )));
                    }
                    if asked.contains(&c) {
                        return Err(Violation::new(format!(
                            "{what}: asked about commit {c} twice (asked so far {asked:?})"
                        )));
                    }
                    if self.dag.descendants(known_bad.iter().copied()).contains(&c) {
                        return Err(Violation::new(format!(
                            "{what}: asked about commit {c} which is already implied bad by \
                             {known_bad:?} (asked so far {asked:?})"
                        )));
                    }
                    if self.dag.ancestors(known_good.iter().copied()).contains(&c) {
                        return Err(Violation::new(format!(
                            "{what}: asked about commit {c} which is already implied good by \
                             {known_good:?} (asked so far {asked:?})"
                        )));
                    }
                    asked.push(c);
                    if asked.len() > self.range.len() {
                        return Err(Violation::new(format!(
                            "{what}: more questions than commits in the range: {asked:?}"
                        )));
                    }
                    if skip.contains(&c) {
                        skipped.insert(c);
                        bisector.mark_skipped(commit.id().clone());
                    } else if bad.contains(&c) {
                        known_bad.insert(c);
                        bisector.mark_bad(commit.id().clone());
                    } else {
                        known_good.insert(c);
                        bisector.mark_good(commit.id().clone());
                    }
                }
                NextStep::Done(result) => {
                    let result = match result {
                        BisectionResult::Found(cs) => ModelResult::Found(self.to_model(&cs)?),
                        BisectionResult::FoundDespiteSkips {
                            bad_commits,
                            possibly_bad,
                        } => ModelResult::FoundDespiteSkips {
                            bad: self.to_model(&bad_commits)?,
                            possibly_bad: self.to_model(&possibly_bad)?,
                        },
                        BisectionResult::Indeterminate => ModelResult::Indeterminate,
                        BisectionResult::Abort => ModelResult::Abort,
                    };
                    return Ok(Run {
                        asked,
                        skipped,
                        result,
                    });
                }
            }
        }
    }
}

enum Verdict {
    Exact,
    /// Matches the F3 signature.
    KnownPartial(String),
}

/// Strict oracle for a run without skips. Implements the F3 signature predicate:
/// `Found(S)`, `S` non-empty, `S` a strict subset of `minimal(B)` (hence every
/// reported commit is minimal). Everything else that differs from
/// `Found(minimal(B))` is a plain violation.
fn classify_found(
    what: &str,
    dag: &Dag,
    range: &BTreeSet<usize>,
    bad: &BTreeSet<usize>,
    run: &Run,
    chain: bool,
) -> Result<Verdict, Violation> {
    let minimal = dag.roots(bad);
    let ctx = || {
        format!(
            "{what}, bad={bad:?}, earliest bad={minimal:?}, asked={:?}, result={:?}",
            run.asked, run.result
        )
    };
    if chain {
        let bound = ceil_log2(range.len()) + 2;
        if run.asked.len() > bound {
            return Err(Violation::new(format!(
                "{} questions on a linear range of {} commits (bound {bound}): {}",
                run.asked.len(),
                range.len(),
                ctx()
            )));
        }
    }
    let ModelResult::Found(found) = &run.result else {
        return Err(Violation::new(format!(
            "no skips, but the result is not Found: {}",
            ctx()
        )));
    };
    let set: BTreeSet<usize> = found.iter().copied().collect();
    if set.len() != found.len() {
        return Err(Violation::new(format!("a commit is reported twice: {}", ctx())));
    }
    if set == minimal {
        return Ok(Verdict::Exact);
    }
    if let Some(c) = set.iter().find(|c| !bad.contains(c)) {
        return Err(Violation::new(format!("reported commit {c} is not bad: {}", ctx())));
    }
    if let Some(c) = set.iter().find(|c| !minimal.contains(c)) {
        return Err(Violation::new(format!(
            "reported commit {c} is bad but not an earliest bad commit: {}",
            ctx()
        )));
    }
    if set.is_empty() {
        return Err(Violation::new(format!("Found with no commits: {}", ctx())));
    }
    // Here: set is a non-empty strict subset of minimal(B).
    debug_assert!(set.is_subset(&minimal) && set.len() < minimal.len());
    Ok(Verdict::KnownPartial(format!(
        "bisect reports only some of several independent first-bad commits: {}",
        ctx()
    )))
}

/// Weaker oracle for runs with skips: nothing false is reported.
fn check_with_skips(what: &str, dag: &Dag, bad: &BTreeSet<usize>, run: &Run) -> Result<(), Violation> {
    let minimal = dag.roots(bad);
    let ctx = || {
        format!(
            "{what}, bad={bad:?}, earliest bad={minimal:?}, skipped={:?}, asked={:?}, result={:?}",
            run.skipped, run.asked, run.result
        )
    };
    match &run.result {
        ModelResult::Found(found) => {
            if let Some(c) = found.iter().find(|c| !bad.contains(c)) {
                return Err(Violation::new(format!("reported commit {c} is not bad: {}", ctx())));
            }
            let non_minimal: Vec<usize> =
                found.iter().copied().filter(|c| !minimal.contains(c)).collect();
            if !non_minimal.is_empty() {
                // Signature of the second finding (F4): a definitive `Found` although a
                // bad commit below the reported one was answered Skip. Matches iff every
                // bad proper ancestor of every non-minimal reported commit was skipped
                // (the skipped commit is not a direct parent, i.e. the range has a gap
                // there; otherwise jj answers FoundDespiteSkips).
                let all_below_skipped = non_minimal.iter().all(|&r| {
                    dag.ancestors([r])
                        .into_iter()
                        .filter(|a| *a != r && bad.contains(a))
                        .all(|a| run.skipped.contains(&a))
                });
                let msg = format!(
                    "Found reports {non_minimal:?} as first bad although a skipped bad commit lies \
                     below: {}",
                    ctx()
                );
                return Err(if all_below_skipped {
                    Violation::known(F4_SIGNATURE, msg)
                } else {
                    Violation::new(msg)
                });
            }
            if found.is_empty() {
                return Err(Violation::new(format!("Found with no commits: {}", ctx())));
            }
        }
        ModelResult::FoundDespiteSkips { bad: b, possibly_bad } => {
            if let Some(c) = b.iter().find(|c| !bad.contains(c)) {
                return Err(Violation::new(format!("reported commit {c} is not bad: {}", ctx())));
            }
            if let Some(c) = possibly_bad.iter().find(|c| !run.skipped.contains(c)) {
                return Err(Violation::new(format!(
                    "possibly-bad commit {c} was never answered with Skip: {}",
                    ctx()
                )));
            }
            if run.skipped.is_empty() {
                return Err(Violation::new(format!(
                    "FoundDespiteSkips although nothing was skipped: {}",
                    ctx()
                )));
            }
        }
        ModelResult::Indeterminate => {}
        ModelResult::Abort => {
            return Err(Violation::new(format!("Abort without an abort mark: {}", ctx())));
        }
    }
    Ok(())
}

struct Setup {
    /// Uncommitted transaction on the thread's empty base repo holding the DAG.
    tx: Transaction,
    commits: Vec<Commit>,
    dag: Dag,
    resolved: Resolved,
    heads: BTreeSet<usize>,
    expr: Arc<ResolvedRevsetExpression>,
    what: String,
}

fn setup(dag_spec: &DagSpec, parts: &[Part]) -> Setup {
    let dag = Dag::from_spec(dag_spec);
    let mut tx = with_base_repo(|base| base.start_transaction());
    let mut commits = vec![];
    write_nodes(tx.repo_mut(), &dag, 1..dag.len(), &mut commits, &BuildOpts::default());
    let resolved = resolve_parts(&dag, parts);
    let heads = dag.heads(&resolved.range);
    let expr = range_expression(&resolved, &commits);
    let what = format!(
        "parents={:?}, range {} = {:?}",
        dag.parents,
        describe_parts(&resolved),
        resolved.range
    );
    Setup {
        tx,
        commits,
        dag,
        resolved,
        heads,
        expr,
        what,
    }
}

impl Setup {
    fn ctx(&self) -> Ctx<'_> {
        Ctx {
            repo: self.tx.repo(),
            commits: &self.commits,
            dag: &self.dag,
            expr: &self.expr,
            range: &self.resolved.range,
            heads: &self.heads,
            what: self.what.clone(),
        }
    }
}

fn check(case: &Case) -> CheckResult {
    let s = setup(&case.dag, &case.parts);
    let range = &s.resolved.range;
    let range_vec: Vec<usize> = range.iter().copied().collect();
    let front = select(&range_vec, &case.front);
    let skip = select(&range_vec, &case.skips);
    let bad = bad_set(&s.dag, range, &s.heads, &front);
    let minimal = s.dag.roots(&bad);
    let chain = is_chain(&s.dag, range);
    let merge = has_merge(&s.dag, range);
    let run = s.ctx().drive(&bad, &skip)?;
    let with_skips = !skip.is_empty();
    if with_skips {
        check_with_skips(&s.what, &s.dag, &bad, &run)?;
    } else {
        match classify_found(&s.what, &s.dag, range, &bad, &run, chain)? {
            Verdict::Exact => {}
            Verdict::KnownPartial(msg) => return Err(Violation::known(F3_SIGNATURE, msg)),
        }
    }
    let nontrivial = merge || range.len() >= 8;
    Ok(Outcome::new(nontrivial)
        .class_if(minimal.len() == 1, "unique-minimal")
        .class_if(minimal.len() >= 2, "multi-minimal")
        .class_if(minimal.len() >= 2 && merge && s.heads.len() == 1, "multi-minimal-one-head")
        .class_if(merge, "merge-in-range")
        .class_if(chain, "chain-range")
        .class_if(range.len() >= 8, "range>=8")
        .class_if(range.len() >= 50, "range>=50")
        .class_if(s.heads.len() >= 2, "multi-head")
        .class_if(!is_convex(&s.dag, range), "range-with-gaps")
        .class_if(case.parts.len() >= 2, "union")
        .class_if(run.asked.is_empty(), "no-question")
        .class_if(run.asked.len() >= 4, "questions>=4")
        .class_if(with_skips && !run.skipped.is_empty(), "skip-hit")
        .class_if(
            matches!(run.result, ModelResult::FoundDespiteSkips { .. }),
            "found-despite-skips",
        ))
}

static SMALL_BAD_SETS: AtomicU64 = AtomicU64::new(0);
static SMALL_BAD_SETS_MULTI: AtomicU64 = AtomicU64::new(0);
static SMALL_BAD_SETS_KNOWN: AtomicU64 = AtomicU64::new(0);

/// All admissible bad sets of a small range: upward closed within the range and
/// containing every head.
fn all_bad_sets(dag: &Dag, range: &BTreeSet<usize>, heads: &BTreeSet<usize>) -> Vec<BTreeSet<usize>> {
    let v: Vec<usize> = range.iter().copied().collect();
    assert!(v.len() <= 12);
    let desc_in_range: Vec<u32> = v
        .iter()
        .map(|&c| {
            let d = dag.descendants([c]);
            v.iter()
                .enumerate()
                .filter(|(_, x)| d.contains(x))
                .fold(0u32, |m, (i, _)| m | (1 << i))
        })
        .collect();
    let head_mask = v
        .iter()
        .enumerate()
        .filter(|(_, x)| heads.contains(x))
        .fold(0u32, |m, (i, _)| m | (1 << i));
    let mut out = vec![];
    for mask in 0u32..(1 << v.len()) {
        if mask & head_mask != head_mask {
            continue;
        }
        let closed = (0..v.len()).all(|i| mask & (1 << i) == 0 || desc_in_range[i] & mask == desc_in_range[i]);
        if closed {
            out.push((0..v.len()).filter(|i| mask & (1 << i) != 0).map(|i| v[i]).collect());
        }
    }
    out
}

fn check_small(case: &SmallCase) -> CheckResult {
    let s = setup(&case.dag, &case.parts);
    let range = &s.resolved.range;
    if range.len() > 10 {
        return Ok(Outcome::trivial().class("small-range-too-large"));
    }
    let chain = is_chain(&s.dag, range);
    let merge = has_merge(&s.dag, range);
    let ctx = s.ctx();
    let none = BTreeSet::new();
    let mut known: Option<String> = None;
    let mut n_known = 0u64;
    let mut n_multi = 0u64;
    let sets = all_bad_sets(&s.dag, range, &s.heads);
    for bad in &sets {
        let run = ctx.drive(bad, &none)?;
        if s.dag.roots(bad).len() >= 2 {
            n_multi += 1;
        }
        match classify_found(&s.what, &s.dag, range, bad, &run, chain)? {
            Verdict::Exact => {}
            Verdict::KnownPartial(msg) => {
                n_known += 1;
                known.get_or_insert(msg);
            }
        }
    }
    SMALL_BAD_SETS.fetch_add(sets.len() as u64, Ordering::Relaxed);
    SMALL_BAD_SETS_MULTI.fetch_add(n_multi, Ordering::Relaxed);
    SMALL_BAD_SETS_KNOWN.fetch_add(n_known, Ordering::Relaxed);
    if let Some(msg) = known {
        // Every other bad set of this range satisfied the strict oracle.
        return Err(Violation::known(
            F3_SIGNATURE,
            format!("{n_known} of {} bad sets; first: {msg}", sets.len()),
        ));
    }
    Ok(Outcome::new(merge || range.len() >= 8)
        .class("small:all-bad-sets-exact")
        .class_if(merge, "small:merge-in-range")
        .class_if(sets.len() >= 8, "small:bad-sets>=8")
        .class_if(n_multi > 0, "small:has-multi-minimal-set"))
}

// ---------------------------------------------------------------- generators

/// DAG generator with an explicit merge rate (the shared `dag_spec` fixes it at
/// ~30 %): `merge_pct` % of the nodes get two parent selectors, `linear_pct` % take
/// the preceding node as first parent.
fn bushy_dag(
    size: impl Strategy<Value = usize>,
    merge_pct: u32,
    linear_pct: u32,
) -> impl Strategy<Value = DagSpec> {
    let node = (
        prop::bool::weighted(f64::from(linear_pct) / 100.0),
        prop::bool::weighted(f64::from(merge_pct) / 100.0),
        any::<u16>(),
        any::<u16>(),
    )
        .prop_map(|(linear, merge, a, b)| {
            let first = if linear { u16::MAX } else { a };
            NodeSpec {
                parents: if merge { vec![first, b] } else { vec![first] },
                aux: 0,
            }
        });
    size.prop_flat_map(move |n| prop::collection::vec(node.clone(), n))
        .prop_map(|nodes| DagSpec { nodes })
}

fn any_dag(max_nodes: usize) -> impl Strategy<Value = DagSpec> {
    prop_oneof![
        2 => dag_spec(2..=max_nodes, 3, 35),
        2 => bushy_dag(2..=max_nodes, 45, 50),
        1 => bushy_dag(2..=max_nodes.min(25), 60, 20),
    ]
}

fn part() -> impl Strategy<Value = Part> {
    prop_oneof![
        5 => (any::<u16>(), any::<u16>()).prop_map(|(x, y)| Part::DotDot { x, y }),
        4 => (any::<u16>(), any::<u16>()).prop_map(|(x, y)| Part::DagRange { x, y }),
        1 => any::<u16>().prop_map(|y| Part::Ancestors { y }),
    ]
}

/// Range operands biased towards large ranges: `y` near the newest commits and,
/// for `x..y`, `x` near the root (for `x::y` the root itself).
fn wide_part() -> impl Strategy<Value = Part> {
    prop_oneof![
        4 => (0u16..2000, 60000u16..=u16::MAX).prop_map(|(x, y)| Part::DotDot { x, y }),
        3 => (0u16..6000, 60000u16..=u16::MAX).prop_map(|(x, y)| Part::DagRange { x, y }),
        1 => (60000u16..=u16::MAX).prop_map(|y| Part::Ancestors { y }),
    ]
}

fn parts() -> impl Strategy<Value = Vec<Part>> {
    prop_oneof![
        5 => wide_part().prop_map(|p| vec![p]),
        3 => part().prop_map(|p| vec![p]),
        2 => prop::collection::vec(prop_oneof![wide_part(), part()], 2..=3),
    ]
}

/// The main generator. The `front` length decides the class: one selector on a
/// single-headed range gives a unique earliest bad commit (the strict oracle
/// applies in full, F3 cannot trigger); several selectors give several
/// independent first-bad commits (where F3 lives). Both are counted.
fn main_case(max_nodes: usize) -> impl Strategy<Value = Case> {
    (
        any_dag(max_nodes),
        parts(),
        prop_oneof![
            55 => prop::collection::vec(any::<u16>(), 1),
            10 => prop::collection::vec(any::<u16>(), 0),
            35 => prop::collection::vec(any::<u16>(), 2..=4),
        ],
    )
        .prop_map(|(dag, parts, front)| Case {
            dag,
            parts,
            front,
            skips: vec![],
        })
}

fn linear_case(max_nodes: usize) -> impl Strategy<Value = Case> {
    (
        dag_spec(2..=max_nodes, 1, 100),
        prop_oneof![3 => wide_part(), 1 => part()],
        prop::collection::vec(any::<u16>(), 0..=1),
    )
        .prop_map(|(dag, part, front)| Case {
            dag,
            parts: vec![part],
            front,
            skips: vec![],
        })
}

fn skip_case(max_nodes: usize) -> impl Strategy<Value = Case> {
    (
        any_dag(max_nodes),
        parts(),
        prop::collection::vec(any::<u16>(), 0..=3),
        prop::collection::vec(any::<u16>(), 1..=6),
    )
        .prop_map(|(dag, parts, front, skips)| Case {
            dag,
            parts,
            front,
            skips,
        })
}

fn small_case() -> impl Strategy<Value = SmallCase> {
    (
        prop_oneof![
            1 => dag_spec(2usize..=9, 3, 25),
            2 => bushy_dag(3usize..=9, 50, 40),
            1 => bushy_dag(4usize..=9, 70, 15),
        ],
        prop_oneof![
            6 => wide_part().prop_map(|p| vec![p]),
            2 => part().prop_map(|p| vec![p]),
            2 => prop::collection::vec(prop_oneof![wide_part(), part()], 2..=2),
        ],
    )
        .prop_map(|(dag, parts)| SmallCase { dag, parts })
}

pub fn run(report: &mut Report) {
    report.set_rule(
        "model DAG (<=60 commits, <=3 parents; chains up to 200) written to a test repo; range = union \
         of 1..3 of x..y / x::y / ::y with operands drawn by construction so no operand is empty; \
         bad set = descendants-in-range of 0..4 selected range commits plus all heads of the range; \
         sub `small-all-bad-sets` enumerates every upward-closed bad set containing the heads on \
         ranges of <=10 commits; sub `skips` answers Skip on 1..6 selected commits (weaker oracle). \
         non-trivial = the range contains a merge or >= 8 commits; distinct by whole case. Classes \
         `unique-minimal` / `multi-minimal` count whether the bad set has one or several earliest \
         commits (known finding F3 can only match in the latter).",
    );
    report.assume(
        "the model repo is written through jj's commit builder and the default index; answers are a \
         pure function of the generated bad set (monotone by construction)",
    );
    let tier = report.tier;
    report.prop("dag-ranges", tier.pick(8000, 300_000), || main_case(59), check);
    report.prop("linear", tier.pick(400, 15_000), || linear_case(200), check);
    report.prop("small-all-bad-sets", tier.pick(5000, 200_000), small_case, check_small);
    report.prop("skips", tier.pick(5000, 200_000), || skip_case(40), check);
    if !report.is_replay() {
        report.add_class("small:bad-sets-driven", SMALL_BAD_SETS.load(Ordering::Relaxed));
        report.add_class(
            "small:bad-sets-multi-minimal",
            SMALL_BAD_SETS_MULTI.load(Ordering::Relaxed),
        );
        report.add_class(
            "small:bad-sets-matching-F3",
            SMALL_BAD_SETS_KNOWN.load(Ordering::Relaxed),
        );
    }
}
