//! C12 Bookmark target merges resolve only when safe.
//!
//! `merge_ref_targets(index, left, base, right)` on a real indexed repo against
//! the reference model in `model::refmerge` (ancestry by BFS over the model
//! DAG). For unconflicted inputs the directly stated rule must hold exactly;
//! for conflicted inputs the result must be one of the normal forms reachable
//! with the documented elimination step (the code admits order dependence).

use std::collections::BTreeSet;

use jj_lib::refs::merge_ref_targets;
use jj_lib::repo::Repo as _;
use pollster::FutureExt as _;
use proptest::prelude::*;
use serde::Deserialize;
use serde::Serialize;
use testutils::TestRepo;

use crate::engine::runner::CheckResult;
use crate::engine::runner::Outcome;
use crate::engine::runner::Report;
use crate::engine::runner::Violation;
use crate::engine::runner::pick;
use crate::ensure;
use crate::model::dag::BuildOpts;
use crate::model::dag::Dag;
use crate::model::dag::DagSpec;
use crate::model::dag::build_repo;
use crate::model::dag::dag_spec;
use crate::model::dag::index_of;
use crate::model::refmerge::Ancestry as _;
use crate::model::refmerge::AncestryMatrix;
use crate::model::refmerge::Rule;
use crate::model::refmerge::Target;
use crate::model::refmerge::Term;
use crate::model::refmerge::merge_targets;
use crate::model::refmerge::merge_unconflicted;

/// Generated description of one target; node selectors are mapped onto the
/// DAG's nodes (root included) with `pick`.
#[derive(Debug, Clone, Serialize, Deserialize)]
pub enum TSpec {
    Absent,
    Normal(u16),
    /// Odd number (3 or 5) of terms, `None` = absent term.
    Conflict(Vec<Option<u16>>),
}

impl TSpec {
    fn resolve(&self, n: usize) -> Target {
        match self {
            Self::Absent => Target::absent(),
            Self::Normal(raw) => Target::normal(pick(*raw, n)),
            Self::Conflict(terms) => {
                let mut terms: Vec<Term> =
                    terms.iter().map(|t| t.map(|raw| pick(raw, n))).collect();
                if terms.len() % 2 == 0 {
                    // Only reachable through shrinking of the vector length.
                    terms.pop();
                }
                if terms.is_empty() {
                    terms.push(None);
                }
                Target::from_terms(terms)
            }
        }
    }
}

#[derive(Debug, Clone, Serialize, Deserialize)]
pub struct MergeSpec {
    pub left: TSpec,
    pub base: TSpec,
    pub right: TSpec,
    /// Right side of a second merge `merge(result, right, extra)` (a side that
    /// moved on from `right` while we hold the first result).
    pub extra: TSpec,
    /// 0: left := base, 1: right := base, 2: right := left,
    /// 3: left := base with one term replaced, 4: right := base with one term
    /// replaced, 5: both; anything else: independent inputs.
    pub shape: u8,
    /// Position / replacement selectors for shapes 3–5.
    pub edit: [u16; 4],
}

/// One repository (model DAG) and several merges evaluated on it (building and
/// indexing the repository dominates the cost of a case).
#[derive(Debug, Clone, Serialize, Deserialize)]
pub struct Case {
    pub dag: DagSpec,
    pub merges: Vec<MergeSpec>,
}

fn tspec() -> impl Strategy<Value = TSpec> {
    let term = prop_oneof![
        4 => any::<u16>().prop_map(Some),
        1 => Just(None),
    ];
    prop_oneof![
        10 => Just(TSpec::Absent),
        45 => any::<u16>().prop_map(TSpec::Normal),
        30 => prop::collection::vec(term.clone(), 3).prop_map(TSpec::Conflict),
        15 => prop::collection::vec(term, 5).prop_map(TSpec::Conflict),
    ]
}

fn merge_spec() -> impl Strategy<Value = MergeSpec> {
    (tspec(), tspec(), tspec(), tspec(), 0u8..14, any::<[u16; 4]>()).prop_map(
        |(left, base, right, extra, shape, edit)| MergeSpec { left, base, right, extra, shape, edit },
    )
}

fn case_strategy(max_nodes: usize) -> impl Strategy<Value = Case> {
    (dag_spec(1..=max_nodes, 3, 45), prop::collection::vec(merge_spec(), 8))
        .prop_map(|(dag, merges)| Case { dag, merges })
}

fn replace_term(t: &Target, pos: u16, with: u16, n: usize) -> Target {
    let mut terms = t.terms.clone();
    let p = pick(pos, terms.len());
    // n + 1 choices: a node or "absent"
    let v = pick(with, n + 1);
    terms[p] = if v == n { None } else { Some(v) };
    Target::from_terms(terms)
}

fn inputs(case: &MergeSpec, n: usize) -> (Target, Target, Target, Target) {
    let base = case.base.resolve(n);
    let mut left = case.left.resolve(n);
    let mut right = case.right.resolve(n);
    let extra = case.extra.resolve(n);
    match case.shape {
        0 => left = base.clone(),
        1 => right = base.clone(),
        2 => right = left.clone(),
        3 => left = replace_term(&base, case.edit[0], case.edit[1], n),
        4 => right = replace_term(&base, case.edit[2], case.edit[3], n),
        5 => {
            left = replace_term(&base, case.edit[0], case.edit[1], n);
            right = replace_term(&base, case.edit[2], case.edit[3], n);
        }
        _ => {}
    }
    (left, base, right, extra)
}

struct Env {
    _test_repo: TestRepo,
    repo: std::sync::Arc<jj_lib::repo::ReadonlyRepo>,
    commits: Vec<jj_lib::commit::Commit>,
    ids: Vec<jj_lib::backend::CommitId>,
    anc: AncestryMatrix,
}

fn build_env(dag: &Dag) -> Env {
    let test_repo = TestRepo::init();
    let (repo, commits) = build_repo(&test_repo.repo, dag, &BuildOpts::default());
    let ids = commits.iter().map(|c| c.id().clone()).collect();
    Env {
        _test_repo: test_repo,
        repo,
        commits,
        ids,
        anc: AncestryMatrix::from_dag(dag),
    }
}

#[derive(Default)]
struct Stats {
    rule: Option<Rule>,
    ancestry_relation: bool,
    pairwise_different: bool,
    conflicted_input: bool,
    unsimplified_input: bool,
    several_normal_forms: bool,
    relaxed_only: bool,
    result_conflicted: bool,
    fast_forward: bool,
}

/// One merge against the model. Returns the actual result as a model target.
fn check_merge(env: &Env, left: &Target, base: &Target, right: &Target) -> Result<(Target, Stats), Violation> {
    let l = left.to_ref_target(&env.ids);
    let b = base.to_ref_target(&env.ids);
    let r = right.to_ref_target(&env.ids);
    let actual = merge_ref_targets(env.repo.index(), &l, &b, &r)
        .block_on()
        .map_err(|err| Violation::new(format!("merge_ref_targets failed: {err}")))?;
    let what = || format!("merge(left={:?}, base={:?}, right={:?})", left.terms, base.terms, right.terms);
    let Some(actual) = Target::from_ref_target(&actual, |id| index_of(&env.commits, id)) else {
        return Err(Violation::new(format!("{}: result {actual:?} names an unknown commit", what())));
    };
    // Never names a commit none of the inputs named.
    let input_ids: BTreeSet<usize> = left.ids().into_iter().chain(base.ids()).chain(right.ids()).collect();
    ensure!(
        actual.ids().is_subset(&input_ids),
        "{}: result {:?} names a commit that no input named",
        what(),
        actual.terms
    );
    ensure!(actual.terms.len() % 2 == 1, "{}: even number of terms in {:?}", what(), actual.terms);

    let expected = merge_targets(&env.anc, left, base, right);
    let unconflicted = !left.is_conflicted() && !base.is_conflicted() && !right.is_conflicted();
    if let (Some(l), Some(b), Some(r)) = (left.as_resolved(), base.as_resolved(), right.as_resolved()) {
        // The directly stated rule; must coincide with the general model.
        let direct = merge_unconflicted(&env.anc, l, b, r);
        ensure!(
            expected.forms.len() == 1 && expected.forms.contains(&direct) && expected.relaxed == expected.forms,
            "MODEL INCONSISTENT for {}: direct rule {direct:?} vs general model {:?}",
            what(),
            expected.forms
        );
        ensure!(
            actual.canon() == direct,
            "{}: got {:?}, the rule for unconflicted targets gives +{:?} -{:?}",
            what(),
            actual.terms,
            direct.adds,
            direct.removes
        );
    }
    ensure!(
        expected.admits(&actual),
        "{}: got {:?}; model ({:?}) allows exactly {:?} / normal forms {:?}",
        what(),
        actual.terms,
        expected.rule,
        expected.exact.as_ref().map(|t| &t.terms),
        expected.relaxed
    );
    // A result that resolves must not be a term list of length > 1 in disguise.
    if let Some(exact) = &expected.exact {
        ensure!(&actual == exact, "{}: exact expectation {:?}, got {:?}", what(), exact.terms, actual.terms);
    }

    let all_ids: Vec<usize> = input_ids.iter().copied().collect();
    let ancestry_relation = all_ids
        .iter()
        .any(|a| all_ids.iter().any(|b| a != b && env.anc.is_ancestor(*a, *b)));
    let stats = Stats {
        rule: Some(expected.rule),
        ancestry_relation,
        pairwise_different: left != base && right != base && left != right,
        conflicted_input: !unconflicted,
        unsimplified_input: !(left.is_simplified() && base.is_simplified() && right.is_simplified()),
        several_normal_forms: expected.forms.len() > 1,
        relaxed_only: !expected.admits_strictly(&actual),
        result_conflicted: actual.is_conflicted(),
        fast_forward: unconflicted
            && expected.rule == Rule::Eliminated
            && !actual.is_conflicted(),
    };
    Ok((actual, stats))
}

fn check(case: &Case) -> CheckResult {
    let dag = Dag::from_spec(&case.dag);
    let env = build_env(&dag);
    let n = dag.len();
    let mut all: Vec<(Stats, Stats)> = vec![];
    for spec in &case.merges {
        let (left, base, right, extra) = inputs(spec, n);
        let (result, s1) = check_merge(&env, &left, &base, &right)?;
        // Second merge: we hold `result`, the other side moved `right` → `extra`.
        let (_, s2) = check_merge(&env, &result, &right, &extra)?;
        all.push((s1, s2));
    }
    let nontrivial = |s: &Stats| (s.pairwise_different && s.ancestry_relation) || s.conflicted_input;
    let first = |f: fn(&Stats) -> bool| all.iter().any(|(s1, _)| f(s1));
    let second = |f: fn(&Stats) -> bool| all.iter().any(|(_, s2)| f(s2));
    let any = |f: fn(&Stats) -> bool| all.iter().any(|(s1, s2)| f(s1) || f(s2));
    Ok(Outcome::new(all.iter().any(|(s1, s2)| nontrivial(s1) || nontrivial(s2)))
        .class_if(first(|s| s.rule == Some(Rule::Trivial)), "rule:trivial")
        .class_if(first(|s| s.rule == Some(Rule::Cancelled)), "rule:cancelled")
        .class_if(first(|s| s.rule == Some(Rule::Eliminated)), "rule:eliminated")
        .class_if(first(|s| s.rule == Some(Rule::Conflict)), "rule:conflict")
        .class_if(second(|s| s.rule == Some(Rule::Eliminated)), "second:eliminated")
        .class_if(second(|s| s.rule == Some(Rule::Conflict)), "second:conflict")
        .class_if(any(|s| s.conflicted_input), "conflicted-input")
        .class_if(any(|s| s.conflicted_input && s.rule == Some(Rule::Eliminated)), "conflicted-input+eliminated")
        .class_if(any(|s| s.conflicted_input && s.rule == Some(Rule::Cancelled)), "conflicted-input+cancelled")
        .class_if(any(|s| s.unsimplified_input), "unsimplified-input")
        .class_if(any(|s| s.several_normal_forms), "several-normal-forms")
        .class_if(any(|s| s.relaxed_only), "relaxed-only")
        .class_if(any(|s| s.result_conflicted), "result-conflicted")
        .class_if(any(|s| s.fast_forward), "fast-forward")
        .class_if(first(|s| s.pairwise_different && s.ancestry_relation), "different+ancestry"))
}

/// Exhaustive sub-check: one small DAG, every unconflicted (left, base, right).
#[derive(Debug, Clone, Serialize, Deserialize)]
pub struct SmallDag {
    pub parents: Vec<Vec<usize>>,
}

fn all_small_dags(non_root: usize) -> Vec<SmallDag> {
    // Node i ≥ 1 takes one earlier node, or two earlier non-root nodes, as parents.
    fn options(i: usize) -> Vec<Vec<usize>> {
        let mut out: Vec<Vec<usize>> = (0..i).map(|p| vec![p]).collect();
        for a in 1..i {
            for b in a + 1..i {
                out.push(vec![a, b]);
            }
        }
        out
    }
    let mut dags = vec![vec![vec![]]];
    for i in 1..=non_root {
        let mut next = vec![];
        for d in &dags {
            for o in options(i) {
                let mut d2: Vec<Vec<usize>> = d.clone();
                d2.push(o);
                next.push(d2);
            }
        }
        dags = next;
    }
    dags.into_iter().map(|parents| SmallDag { parents }).collect()
}

fn check_small(case: &SmallDag) -> CheckResult {
    let dag = Dag { parents: case.parents.clone() };
    let env = build_env(&dag);
    let n = dag.len();
    let terms: Vec<Term> = std::iter::once(None).chain((0..n).map(Some)).collect();
    let mut ff = 0;
    let mut conflicts = 0;
    for l in &terms {
        for b in &terms {
            for r in &terms {
                let (_, s) = check_merge(&env, &Target::resolved(*l), &Target::resolved(*b), &Target::resolved(*r))?;
                ff += usize::from(s.fast_forward);
                conflicts += usize::from(s.result_conflicted);
            }
        }
    }
    Ok(Outcome::new(ff > 0 && conflicts > 0).class("small-dag"))
}

pub fn run(report: &mut Report) {
    report.set_rule(
        "exhaustive: every DAG of <=4 (thorough 5) non-root commits (1 parent, or 2 non-root parents) x every \
         unconflicted (left, base, right) over {absent, root, commits}; random: model DAG of <=10 commits \
         indexed in a TestRepo and 8 merges on it, left/base/right/extra each absent | normal | 3- or 5-term conflict (terms may be \
         absent), with forced shapes (equal inputs, one-term edits of base) for 6/14 of the cases, checked for \
         merge(left, base, right) and then merge(result, right, extra); non-trivial = a merge whose inputs are \
         pairwise different with at least one ancestry relation among the named commits, or with a conflicted input",
    );
    report.assume(
        "the reference model: the documented elimination step (drop remove r and add a when a <= a' for another add a' \
         and r <= a or r absent) applied to the cancelled multiset left - base + right; any reachable normal form is \
         accepted, and also its same-change resolution (the re-resolution contemplated by the TODO in merge_ref_targets)",
    );
    report.assume("term order of a conflicted result is not part of the property (compared as multisets)");
    let tier = report.tier;
    let small = all_small_dags(tier.pick_usize(4, 5));
    report.enumerate_par("unconflicted-exhaustive", true, small, check_small);
    let max_nodes = 9;
    report.prop("random", tier.pick(1_200, 60_000), move || case_strategy(max_nodes), check);
}
