//! C10 Visible heads are normalized and cover everything referenced.
//!
//! Stateful check: a generated base DAG plus a generated sequence of
//! repository operations is interpreted against a `TestRepo`; after every
//! committed operation the view invariants are evaluated with ancestry
//! computed by BFS over the commit objects in the store (never by the index),
//! on the in-memory repo and on a fresh load from disk.

use std::collections::BTreeSet;
use std::sync::Arc;

use jj_lib::backend::CommitId;
use jj_lib::commit::Commit;
use jj_lib::object_id::ObjectId as _;
use jj_lib::op_store::RefTarget;
use jj_lib::ref_name::RefName;
use jj_lib::ref_name::WorkspaceNameBuf;
use jj_lib::repo::MutableRepo;
use jj_lib::repo::ReadonlyRepo;
use jj_lib::repo::Repo as _;
use jj_lib::rewrite::merge_commit_trees;
use jj_lib::settings::UserSettings;
use jj_lib::store::Store;
use jj_lib::view::View;
use pollster::FutureExt as _;
use proptest::prelude::*;
use serde::Deserialize;
use serde::Serialize;
use testutils::TestRepo;

use crate::engine::runner::CheckResult;
use crate::engine::runner::Outcome;
use crate::engine::runner::Report;
use crate::engine::runner::Violation;
use crate::engine::runner::pick;
use crate::ensure;
use crate::model::dag::BASE_TS;
use crate::model::dag::BuildOpts;
use crate::model::dag::Dag;
use crate::model::dag::DagSpec;
use crate::model::dag::build_repo;
use crate::model::dag::change_id;
use crate::model::dag::dag_spec;
use crate::model::dag::signature;
use crate::model::hist::fresh_load_at_head;
use crate::model::hist::loader_with;
use crate::model::hist::pinned_settings;
use crate::model::hist::reclocked;
use crate::model::hist::CommitGraph;
use crate::model::hist::tree_with_file;

#[derive(Debug, Clone, Serialize, Deserialize)]
pub enum Act {
    /// New commit on 1–3 known (possibly hidden) parents.
    New {
        parents: Vec<u16>,
        empty_desc: bool,
        with_file: bool,
    },
    /// `rewrite_commit(target).write()` + `rebase_descendants`. The target is
    /// drawn from the visible commits, or from all known ones if `any`.
    Rewrite { target: u16, any: bool },
    /// `record_abandoned_commit(visible target)` + `rebase_descendants`.
    Abandon { target: u16 },
    SetBookmark { name: u8, target: u16 },
    DeleteBookmark { name: u8 },
    ConflictBookmark { name: u8, a: u16, b: u16, base: u16 },
    Edit { ws: u8, target: u16 },
    CheckOut { ws: u8, target: u16 },
    RemoveWorkspace { ws: u8 },
    /// The `snapshot_working_copy` pattern: rewrite the working-copy commit and
    /// point the workspace at the commit just written with raw `set_wc_commit`.
    Snapshot { ws: u8 },
}

#[derive(Debug, Clone, Serialize, Deserialize)]
pub enum Step {
    One(Act),
    /// Two transactions from one base, both committed, then reloaded at head.
    Two(Act, Act),
    /// Continue from a fresh load from disk.
    Reload,
}

#[derive(Debug, Clone, Serialize, Deserialize)]
pub struct Case {
    pub dag: DagSpec,
    pub steps: Vec<Step>,
    /// true: every transaction ends with `rebase_descendants` like the CLI's
    /// finish_transaction (which also re-normalizes the heads); false: only when
    /// something was rewritten, like library callers (then the incremental head
    /// update of `add_heads` is what gets persisted).
    pub cli_style: bool,
}

fn act() -> impl Strategy<Value = Act> {
    let t = any::<u16>;
    prop_oneof![
        24 => (prop::collection::vec(t(), 1..=3), prop::bool::weighted(0.3), prop::bool::weighted(0.3))
            .prop_map(|(parents, empty_desc, with_file)| Act::New { parents, empty_desc, with_file }),
        14 => (t(), prop::bool::weighted(0.25)).prop_map(|(target, any)| Act::Rewrite { target, any }),
        12 => t().prop_map(|target| Act::Abandon { target }),
        10 => (0u8..3, t()).prop_map(|(name, target)| Act::SetBookmark { name, target }),
        3 => (0u8..3).prop_map(|name| Act::DeleteBookmark { name }),
        4 => (0u8..3, t(), t(), t()).prop_map(|(name, a, b, base)| Act::ConflictBookmark { name, a, b, base }),
        8 => (0u8..2, t()).prop_map(|(ws, target)| Act::Edit { ws, target }),
        8 => (0u8..2, t()).prop_map(|(ws, target)| Act::CheckOut { ws, target }),
        3 => (0u8..2).prop_map(|ws| Act::RemoveWorkspace { ws }),
        6 => (0u8..2).prop_map(|ws| Act::Snapshot { ws }),
    ]
}

fn step() -> impl Strategy<Value = Step> {
    prop_oneof![
        78 => act().prop_map(Step::One),
        17 => (act(), act()).prop_map(|(a, b)| Step::Two(a, b)),
        3 => Just(Step::Reload),
    ]
}

pub fn case(max_steps: usize) -> impl Strategy<Value = Case> {
    (
        dag_spec(0usize..=5, 2, 40),
        prop::collection::vec(step(), 1..=max_steps),
        prop::bool::weighted(0.4),
    )
        .prop_map(|(dag, steps, cli_style)| Case { dag, steps, cli_style })
}

fn bookmark_name(n: u8) -> String {
    format!("b{n}")
}

fn ws_name(n: u8) -> WorkspaceNameBuf {
    WorkspaceNameBuf::from(format!("ws{n}"))
}

/// The property, evaluated on one view.
fn check_view(
    graph: &mut CommitGraph,
    store: &Arc<Store>,
    view: &View,
    ctx: &str,
) -> Result<(), Violation> {
    let root = store.root_commit_id();
    let heads: BTreeSet<CommitId> = view.heads().iter().cloned().collect();
    graph.ensure(store, &heads)?;
    ensure!(!heads.is_empty(), "{ctx}: the set of visible heads is empty");
    if heads.contains(root) {
        ensure!(
            heads.len() == 1,
            "{ctx}: the root commit is recorded as a head next to {} other head(s)",
            heads.len() - 1
        );
    }
    for h in &heads {
        let proper = graph.proper_ancestors(h);
        for g in &heads {
            ensure!(
                !proper.contains(g),
                "{ctx}: head {g} is an ancestor of head {h} (heads not normalized)"
            );
        }
    }
    let visible = graph.ancestors(&heads);
    for (name, target) in view.local_bookmarks() {
        for id in target.added_ids() {
            ensure!(
                visible.contains(id),
                "{ctx}: bookmark {} points at {id}, which is not an ancestor of any visible head",
                name.as_str()
            );
        }
    }
    for (ws, id) in view.wc_commit_ids() {
        ensure!(
            visible.contains(id),
            "{ctx}: working-copy commit {id} of workspace {} is not visible",
            ws.as_str()
        );
    }
    Ok(())
}

#[derive(Default)]
struct Stats {
    rewrite_with_descendants: bool,
    ref_change: bool,
    merges: u32,
    new_on_hidden: bool,
    new_merge_head_and_hidden: bool,
    ref_on_hidden: bool,
    conflicted_bookmark: bool,
    wc_commit_abandoned: bool,
    snapshot: bool,
    skipped: u32,
    applied: u32,
}

struct World {
    /// Every commit the harness has seen, index 0 = root.
    known: Vec<Commit>,
    graph: CommitGraph,
    cli_style: bool,
    counter: u64,
    /// Every transaction (also the merge in `load_at_head`) runs at a later
    /// commit/operation clock, like separate `jj` invocations do. With a frozen
    /// clock, abandoning the same parent twice would recreate the id of an
    /// earlier rebased commit, which jj rejects ("already exists").
    base_settings: UserSettings,
    clock: i64,
    stats: Stats,
}

impl World {
    fn next_settings(&mut self) -> UserSettings {
        self.clock += 60_000;
        reclocked(&self.base_settings, self.clock)
    }

    fn learn(&mut self, commit: &Commit) {
        self.graph.add(commit);
        if !self.known.iter().any(|c| c.id() == commit.id()) {
            self.known.push(commit.clone());
        }
    }

    /// Adds everything reachable from the view that is not known yet (commits
    /// jj created on its own: rebased descendants, working-copy commits).
    fn discover(&mut self, repo: &ReadonlyRepo) -> Result<(), Violation> {
        let view = repo.view();
        let mut starts: Vec<CommitId> = view.heads().iter().cloned().collect();
        for (_, target) in view.local_bookmarks() {
            starts.extend(target.added_ids().cloned());
        }
        starts.extend(view.wc_commit_ids().values().cloned());
        let mut new = self.graph.ensure(repo.store(), &starts)?;
        // deterministic order for commits jj created on its own
        new.sort_by(|a, b| a.id().cmp(b.id()));
        for commit in new {
            if !self.known.iter().any(|c| c.id() == commit.id()) {
                self.known.push(commit);
            }
        }
        Ok(())
    }
}

fn err(ctx: &str, e: impl std::fmt::Display) -> Violation {
    Violation::new(format!("unexpected error from {ctx}: {e}"))
}

/// Applies one action to an open transaction. Returns `false` if the action
/// does not apply in the current state (nothing was changed).
fn apply(
    act: &Act,
    mut_repo: &mut MutableRepo,
    world: &mut World,
    known: &[Commit],
    visible: &[Commit],
    visible_ids: &BTreeSet<CommitId>,
    cli_style: bool,
) -> Result<bool, Violation> {
    let store = mut_repo.store().clone();
    let root_id = store.root_commit_id().clone();
    world.counter += 1;
    let n = world.counter;
    let sig = signature(BASE_TS + 1_000_000 + 1000 * n as i64);
    match act {
        Act::New { parents, empty_desc, with_file } => {
            let mut ps: Vec<Commit> = vec![];
            for raw in parents {
                let p = &known[pick(*raw, known.len())];
                if !ps.iter().any(|c| c.id() == p.id()) {
                    ps.push(p.clone());
                }
            }
            if ps.len() > 1 {
                ps.retain(|c| c.id() != &root_id);
            }
            let hidden = ps.iter().filter(|c| !visible_ids.contains(c.id())).count();
            if hidden > 0 {
                world.stats.new_on_hidden = true;
                let heads = mut_repo.view().heads();
                if ps.len() > 1 && ps.iter().any(|c| heads.contains(c.id())) {
                    world.stats.new_merge_head_and_hidden = true;
                }
            }
            let mut tree = merge_commit_trees(mut_repo, &ps)
                .block_on()
                .map_err(|e| err("merge_commit_trees", e))?;
            if *with_file {
                tree = tree_with_file(&store, tree, &format!("f{n}"), &format!("{n}\n"));
            }
            let desc = if *empty_desc { String::new() } else { format!("n{n}") };
            let commit = mut_repo
                .new_commit(ps.iter().map(|c| c.id().clone()).collect(), tree)
                .set_change_id(change_id(1000 + n))
                .set_description(desc)
                .set_author(sig.clone())
                .set_committer(sig)
                .write()
                .block_on()
                .map_err(|e| err("new_commit().write()", e))?;
            world.learn(&commit);
        }
        Act::Rewrite { target, any } => {
            let pool: Vec<&Commit> = if *any { known.iter().collect() } else { visible.iter().collect() };
            let pool: Vec<&Commit> = pool.into_iter().filter(|c| c.id() != &root_id).collect();
            if pool.is_empty() {
                return Ok(false);
            }
            let c = pool[pick(*target, pool.len())].clone();
            if visible_ids.contains(c.id()) && visible.iter().any(|d| d.parent_ids().contains(c.id())) {
                world.stats.rewrite_with_descendants = true;
            }
            let commit = mut_repo
                .rewrite_commit(&c)
                .set_description(format!("r{n}"))
                .set_committer(sig)
                .write()
                .block_on()
                .map_err(|e| err("rewrite_commit().write()", e))?;
            world.learn(&commit);
        }
        Act::Abandon { target } => {
            let pool: Vec<&Commit> = visible.iter().filter(|c| c.id() != &root_id).collect();
            if pool.is_empty() {
                return Ok(false);
            }
            let c = pool[pick(*target, pool.len())].clone();
            if visible.iter().any(|d| d.parent_ids().contains(c.id())) {
                world.stats.rewrite_with_descendants = true;
            }
            if mut_repo.view().is_wc_commit_id(c.id()) {
                world.stats.wc_commit_abandoned = true;
            }
            mut_repo.record_abandoned_commit(&c);
        }
        Act::SetBookmark { name, target } => {
            let c = &known[pick(*target, known.len())];
            if !visible_ids.contains(c.id()) {
                world.stats.ref_on_hidden = true;
            }
            world.stats.ref_change = true;
            let name = bookmark_name(*name);
            mut_repo.set_local_bookmark_target(RefName::new(&name), RefTarget::normal(c.id().clone()));
        }
        Act::DeleteBookmark { name } => {
            let name = bookmark_name(*name);
            if mut_repo.get_local_bookmark(RefName::new(&name)).is_absent() {
                return Ok(false);
            }
            world.stats.ref_change = true;
            mut_repo.set_local_bookmark_target(RefName::new(&name), RefTarget::absent());
        }
        Act::ConflictBookmark { name, a, b, base } => {
            let len = known.len();
            if len < 2 {
                return Ok(false);
            }
            let ia = pick(*a, len);
            let mut ib = pick(*b, len - 1);
            if ib >= ia {
                ib += 1;
            }
            let ibase = pick(*base, len);
            let ids = [ia, ib, ibase].map(|i| known[i].id().clone());
            if [ia, ib].iter().any(|i| !visible_ids.contains(known[*i].id())) {
                world.stats.ref_on_hidden = true;
            }
            world.stats.ref_change = true;
            world.stats.conflicted_bookmark = true;
            let name = bookmark_name(*name);
            mut_repo.set_local_bookmark_target(
                RefName::new(&name),
                RefTarget::from_legacy_form([ids[2].clone()], [ids[0].clone(), ids[1].clone()]),
            );
        }
        Act::Edit { ws, target } => {
            let pool: Vec<&Commit> = known.iter().filter(|c| c.id() != &root_id).collect();
            if pool.is_empty() {
                return Ok(false);
            }
            let c = pool[pick(*target, pool.len())].clone();
            if !visible_ids.contains(c.id()) {
                world.stats.ref_on_hidden = true;
            }
            world.stats.ref_change = true;
            mut_repo
                .edit(ws_name(*ws), &c)
                .block_on()
                .map_err(|e| err("edit", e))?;
        }
        Act::CheckOut { ws, target } => {
            let c = known[pick(*target, known.len())].clone();
            if !visible_ids.contains(c.id()) {
                world.stats.ref_on_hidden = true;
            }
            world.stats.ref_change = true;
            let commit = mut_repo
                .check_out(ws_name(*ws), &c)
                .block_on()
                .map_err(|e| err("check_out", e))?;
            world.learn(&commit);
        }
        Act::RemoveWorkspace { ws } => {
            let name = ws_name(*ws);
            if mut_repo.view().get_wc_commit_id(&name).is_none() {
                return Ok(false);
            }
            world.stats.ref_change = true;
            mut_repo
                .remove_workspace(&name)
                .block_on()
                .map_err(|e| err("remove_workspace", e))?;
        }
        Act::Snapshot { ws } => {
            let name = ws_name(*ws);
            let Some(wc_id) = mut_repo.view().get_wc_commit_id(&name).cloned() else {
                return Ok(false);
            };
            let wc = crate::model::hist::get_commit(&store, &wc_id)?;
            let tree = tree_with_file(&store, wc.tree(), &format!("s{n}"), &format!("{n}\n"));
            let commit = mut_repo
                .rewrite_commit(&wc)
                .set_tree(tree)
                .set_committer(sig)
                .write()
                .block_on()
                .map_err(|e| err("rewrite_commit(wc).write()", e))?;
            mut_repo
                .set_wc_commit(name, commit.id().clone())
                .map_err(|e| err("set_wc_commit", e))?;
            world.stats.ref_change = true;
            world.stats.snapshot = true;
            world.learn(&commit);
        }
    }
    // An unconditional call re-normalizes the heads (update_heads) and would hide
    // defects of the incremental head update in add_heads; see Case::cli_style.
    if cli_style || mut_repo.has_rewrites() {
        mut_repo
            .rebase_descendants()
            .block_on()
            .map_err(|e| err("rebase_descendants", e))?;
    }
    Ok(true)
}

/// Runs one action in its own transaction and commits it. `None` = skipped.
fn run_tx(
    repo: &Arc<ReadonlyRepo>,
    act: &Act,
    world: &mut World,
    known: &[Commit],
    label: &str,
) -> Result<Option<Arc<ReadonlyRepo>>, Violation> {
    // `known` = the commits that exist in `repo` (for the second of two
    // concurrent transactions this excludes what the first one created: a
    // process cannot name a commit its index has never seen).
    world.graph.ensure(repo.store(), repo.view().heads())?;
    let ids = world.graph.ancestors(repo.view().heads());
    let visible: Vec<Commit> = known.iter().filter(|c| ids.contains(c.id())).cloned().collect();
    let visible_ids = ids;
    let mut tx = repo.start_transaction();
    if !apply(act, tx.repo_mut(), world, known, &visible, &visible_ids, world.cli_style)? {
        world.stats.skipped += 1;
        return Ok(None);
    }
    world.stats.applied += 1;
    let new_repo = tx
        .commit(label)
        .block_on()
        .map_err(|e| err("Transaction::commit", e))?;
    Ok(Some(new_repo))
}

/// Reloads at head through a new loader over the same stores whose clock is
/// later (what the next `jj` process would do): operation heads, operation and
/// view are read back from disk (and concurrent operations are merged). The
/// property is checked on the result, which becomes the base of the next step.
fn reload_at_head(
    world: &mut World,
    repo: &Arc<ReadonlyRepo>,
    expect_same_op: bool,
    ctx: &str,
) -> Result<Arc<ReadonlyRepo>, Violation> {
    let reloaded = loader_with(repo, world.next_settings())
        .load_at_head()
        .block_on()
        .map_err(|e| err("load_at_head", e))?;
    if expect_same_op {
        ensure!(
            reloaded.op_id() == repo.op_id(),
            "{ctx}: reloading at head resolves to operation {} instead of {}",
            reloaded.op_id().hex(),
            repo.op_id().hex()
        );
    }
    check_view(&mut world.graph, reloaded.store(), reloaded.view(), &format!("{ctx} (reloaded at head)"))?;
    Ok(reloaded)
}

/// Brand-new loader from the file system (new store objects).
fn check_fresh(test_repo: &TestRepo, world: &mut World, repo: &ReadonlyRepo, ctx: &str) -> Result<(), Violation> {
    let fresh = fresh_load_at_head(test_repo, &world.base_settings)?;
    ensure!(
        fresh.op_id() == repo.op_id(),
        "{ctx}: a fresh load resolves to operation {} instead of {}",
        fresh.op_id().hex(),
        repo.op_id().hex()
    );
    check_view(&mut world.graph, fresh.store(), fresh.view(), &format!("{ctx} (fresh load from disk)"))
}

fn check(case: &Case) -> CheckResult {
    let settings = pinned_settings(BASE_TS, 7);
    let test_repo = TestRepo::init_with_settings(&settings);
    let dag = Dag::from_spec(&case.dag);
    let (mut repo, commits) = build_repo(&test_repo.repo, &dag, &BuildOpts::default());
    let mut world = World {
        known: if commits.is_empty() { vec![repo.store().root_commit()] } else { commits },
        graph: CommitGraph::default(),
        cli_style: case.cli_style,
        counter: 0,
        base_settings: settings.clone(),
        clock: BASE_TS + 100_000_000,
        stats: Stats::default(),
    };
    for c in world.known.clone() {
        world.graph.add(&c);
    }
    check_view(&mut world.graph, repo.store(), repo.view(), "after building the base DAG")?;
    repo = reload_at_head(&mut world, &repo, true, "after building the base DAG")?;
    let last = case.steps.len().saturating_sub(1);
    for (k, step) in case.steps.iter().enumerate() {
        match step {
            Step::One(act) => {
                let ctx = format!("step {k} {act:?}");
                let known = world.known.clone();
                if let Some(new_repo) = run_tx(&repo, act, &mut world, &known, &ctx)? {
                    check_view(&mut world.graph, new_repo.store(), new_repo.view(), &ctx)?;
                    repo = reload_at_head(&mut world, &new_repo, true, &ctx)?;
                }
            }
            Step::Two(a, b) => {
                let ctx = format!("step {k} concurrent {a:?} | {b:?}");
                let known = world.known.clone();
                let ra = run_tx(&repo, a, &mut world, &known, &format!("{ctx} (first)"))?;
                let rb = run_tx(&repo, b, &mut world, &known, &format!("{ctx} (second)"))?;
                for r in [&ra, &rb].into_iter().flatten() {
                    check_view(&mut world.graph, r.store(), r.view(), &format!("{ctx}: one side"))?;
                    world.discover(r)?;
                }
                if ra.is_some() || rb.is_some() {
                    // load_at_head merges the two operation heads
                    let merged = reload_at_head(&mut world, &repo, false, &format!("{ctx}: merged"))?;
                    if merged.operation().parent_ids().len() > 1 {
                        world.stats.merges += 1;
                    }
                    repo = merged;
                }
            }
            Step::Reload => {
                let settings = world.next_settings();
                repo = fresh_load_at_head(&test_repo, &settings)?;
                check_view(&mut world.graph, repo.store(), repo.view(), &format!("step {k} fresh reload"))?;
            }
        }
        if k == last {
            check_fresh(&test_repo, &mut world, &repo, "end of sequence")?;
        }
        world.discover(&repo)?;
    }
    let s = &world.stats;
    let nontrivial = (s.rewrite_with_descendants && s.ref_change) || s.merges > 0;
    Ok(Outcome::new(nontrivial)
        .class_if(s.merges > 0, "concurrent-merge")
        .class_if(s.merges > 1, "concurrent-merge>=2")
        .class_if(s.rewrite_with_descendants, "rewrite/abandon-with-descendants")
        .class_if(s.new_on_hidden, "new-commit-on-hidden-parent")
        .class_if(s.new_merge_head_and_hidden, "new-merge-of-head-and-hidden")
        .class_if(s.ref_on_hidden, "bookmark/wc-on-hidden-commit")
        .class_if(s.conflicted_bookmark, "conflicted-bookmark")
        .class_if(s.wc_commit_abandoned, "wc-commit-abandoned")
        .class_if(s.snapshot, "snapshot-pattern")
        .class_if(case.cli_style, "cli-style (always rebase_descendants)")
        .class_if(s.applied >= 10, "applied>=10")
        .class_if(s.skipped > s.applied, "mostly-skipped"))
}

pub fn run(report: &mut Report) {
    report.set_rule(
        "case = base DAG (0..5 commits) + up to 25 steps (new commit on 1-3 known, possibly hidden, \
         parents; rewrite/abandon + rebase_descendants; set/delete/conflict a local bookmark, also on \
         hidden commits; edit/check_out/remove workspace; snapshot pattern with raw set_wc_commit on a \
         commit written in the same transaction; two transactions from one base committed and merged \
         by load_at_head; reload through a brand-new file-system loader). Each step is its own \
         committed transaction at a later commit/operation clock, ending with rebase_descendants \
         always (40% of cases, CLI style) or only when something was rewritten (library style, so the \
         incremental head update of add_heads is what gets persisted). The view invariants (heads \
         non-empty, pairwise non-ancestors, root only alone, every added bookmark id and every \
         working-copy commit visible) are checked after every committed operation on the in-memory \
         repo, again on the repo reloaded at head from disk through a new loader (this is also where \
         concurrent operations get merged), and through a brand-new file-system loader at the end of \
         the sequence; ancestry by BFS over commit objects. non-trivial = (a rewrite/abandon of a \
         commit with visible children and a bookmark/working-copy change) or a real two-parent \
         operation merge. remove_head, set_view and raw set_wc_commit on pre-existing commits are \
         outside the domain (no real caller uses them that way).",
    );
    report.assume("commit objects read from the store give the true parent relation (TestBackend trusted)");
    report.assume("local tags, remote bookmarks and git refs are not exercised (the statement covers local bookmarks and working copies)");
    report.assume("the second of two concurrent transactions never names a commit created by the first (its index has never seen it)");
    let cases = report.tier.pick(300, 15_000);
    report.prop("ops", cases, || case(25), check);
}
