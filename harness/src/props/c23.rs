//! C23 Snapshots record exactly what is on disk.
//!
//! Stateful model-based check: a random sequence of file-system edits (through the
//! shared disk model, `model::disk`) interleaved with `snapshot()` calls on a
//! `TestWorkspace`. After every snapshot the returned tree is compared, path by path,
//! with the tree the statement prescribes:
//!
//!   for every regular file / symlink on disk outside nested repositories: recorded with
//!   its current content, exec bit and link target iff it was already tracked, or it is
//!   visible (no ancestor directory is ignored), not ignored itself and matched by the
//!   start-tracking matcher; every tracked path that is no longer a file/symlink on disk
//!   is removed.
//!
//! Ignore decisions use `GitIgnoreFile::{chain, matches_dir, matches_file}` top-down
//! (an ignored directory's own `.gitignore` is never read), as documented.

use std::collections::BTreeSet;
use std::path::Path;
use std::sync::Arc;

use jj_lib::gitignore::GitIgnoreFile;
use jj_lib::matchers::EverythingMatcher;
use jj_lib::matchers::FilesMatcher;
use jj_lib::matchers::Matcher;
use jj_lib::matchers::NothingMatcher;
use jj_lib::matchers::PrefixMatcher;
use jj_lib::repo::Repo as _;
use jj_lib::repo_path::RepoPath;
use jj_lib::working_copy::SnapshotOptions;
use pollster::FutureExt as _;
use proptest::prelude::*;
use serde::Deserialize;
use serde::Serialize;
use testutils::TestWorkspace;

use crate::engine::runner::CheckResult;
use crate::engine::runner::Outcome;
use crate::engine::runner::Report;
use crate::engine::runner::Violation;
use crate::engine::runner::pick;
use crate::gens::content::Bytes;
use crate::model::disk::DiskEntry;
use crate::model::disk::DiskModel;
use crate::model::disk::Marker;
use crate::model::disk::ancestors;
use crate::model::disk::is_below;
use crate::model::disk::parent_dir;
use crate::model::disk::to_tree_entry;
use crate::model::disk::tree_to_disk;
use crate::model::tree::Entry;
use crate::model::tree::ModelTree;
use crate::model::tree::put as tree_put;
use crate::model::tree::read_resolved_tree;
use crate::model::tree::repo_path;
use crate::model::tree::small_content;
use crate::model::tree::write_tree;

/// Leaf positions for created files/symlinks: the tree model's tiny alphabet (so that
/// file<->directory swaps are common) plus names that the ignore patterns below match
/// and names below candidate nested repositories.
pub const LEAVES: &[&str] = &[
    "a", "b", "c", "d", "a/b", "a/c", "a/b/c", "a/b/d", "d/e", "d/e/f", "b/x", "ü", "a/ü",
    "c/y z", "t.tmp", "a/t.tmp", "a/b/t.tmp", "d/k.tmp", "keep.tmp", "a/keep.tmp", "ig", "a/ig",
    "d/ig", "d/e/ig", "build/o", "build/sub/p", "a/build/o", "a/build/q.tmp", "n/f", "n/g/h",
    "a/n/f",
];

/// Directories that may receive a `.gitignore` (root twice: it is the common case).
pub const IGNORE_DIRS: &[&str] = &["", "", "a", "a/b", "d", "build", "a/build", "d/e", "n"];

/// Pattern subset of DESIGN: literal, `*.ext`, `dir/`, `/anchored`, `!negation`.
pub const PATTERN_LINES: &[&str] = &[
    "*.tmp", "ig", "build/", "/a", "/b", "/d/e", "b/", "a/", "!keep.tmp", "!ig", "!t.tmp", "c",
    "/c/", "d/", "e/", "ü", "*", "!*.tmp", "/build/sub", "sub/", "o", "# comment", "", "/n", "n/",
    "!/a/b", "/a/b/", "x", "!x", "/t.tmp", "!/a/", "f",
];

pub const MARKER_DIRS: &[&str] = &["n", "a/n", "n/g", "build", "a/build", "d/e", "b", "a/b"];

/// Symlink targets. None of them resolves to a directory through which another path of
/// the alphabet would become reachable, so "the file at path p" is unambiguous.
pub const LINK_TARGETS: &[&str] = &["nowhere", "../outside", "t.tmp", "ü", ".jj/repo", "x"];

pub const TRACK_DIRS: &[&str] = &["a", "a/b", "d", "build", "n", "b", "c", "d/e"];

/// Signature of the known finding: snapshot aborts with ENOTDIR for a tracked file in an
/// ignored directory whose parent directory was replaced by a file.
pub const KNOWN_ENOTDIR: &str = "C23-enotdir-tracked-file-below-file-in-ignored-dir";

fn join(dir: &str, name: &str) -> String {
    if dir.is_empty() {
        name.to_string()
    } else {
        format!("{dir}/{name}")
    }
}

fn is_gitignore(path: &str) -> bool {
    path == ".gitignore" || path.ends_with("/.gitignore")
}

#[derive(Debug, Clone, Serialize, Deserialize)]
pub enum Leaf {
    File { content: Bytes, exec: bool },
    Symlink(u16),
}

impl Leaf {
    fn to_entry(&self) -> Entry {
        match self {
            Self::File { content, exec } => Entry::File {
                content: content.clone(),
                exec: *exec,
            },
            Self::Symlink(t) => {
                Entry::Symlink(LINK_TARGETS[pick(*t, LINK_TARGETS.len())].to_string())
            }
        }
    }
}

#[derive(Debug, Clone, Serialize, Deserialize)]
pub enum Track {
    All,
    Nothing,
    Files(Vec<u16>),
    Prefixes(Vec<u16>),
}

#[derive(Debug, Clone, Serialize, Deserialize)]
pub enum Op {
    /// Create or replace (file<->directory swaps included) the leaf at a position.
    Write { path: u16, leaf: Leaf },
    /// Overwrite one byte of an existing non-empty regular file (size unchanged).
    SameSize { file: u16, at: u16 },
    /// Toggle the exec bit of an existing regular file (content and mtime untouched).
    Chmod { file: u16 },
    /// Delete an existing file or a whole directory.
    Delete { target: u16, prune: bool },
    /// Write, replace or extend a `.gitignore`.
    Ignore { dir: u16, lines: Vec<u16>, append: bool },
    /// Turn a directory without tracked files into a nested repository.
    Nested { dir: u16, kind: u8 },
    /// Remove a nested-repository marker again.
    Unnest { which: u16 },
    Snapshot { track: Track },
}

#[derive(Debug, Clone, Serialize, Deserialize)]
pub struct Case {
    /// Lines of the base ignore file (`SnapshotOptions::base_ignores`).
    pub base_ignores: Vec<u16>,
    /// Tree checked out before the sequence starts (tracked from the beginning).
    pub initial: Vec<(u16, Leaf)>,
    pub ops: Vec<Op>,
}

fn leaf() -> impl Strategy<Value = Leaf> {
    prop_oneof![
        8 => (small_content(), prop::bool::weighted(0.25))
            .prop_map(|(content, exec)| Leaf::File { content, exec }),
        1 => any::<u16>().prop_map(Leaf::Symlink),
    ]
}

fn track() -> impl Strategy<Value = Track> {
    prop_oneof![
        6 => Just(Track::All),
        2 => Just(Track::Nothing),
        1 => prop::collection::vec(any::<u16>(), 1..4).prop_map(Track::Files),
        1 => prop::collection::vec(any::<u16>(), 1..3).prop_map(Track::Prefixes),
    ]
}

fn op() -> impl Strategy<Value = Op> {
    prop_oneof![
        9 => (any::<u16>(), leaf()).prop_map(|(path, leaf)| Op::Write { path, leaf }),
        4 => (any::<u16>(), any::<u16>()).prop_map(|(file, at)| Op::SameSize { file, at }),
        2 => any::<u16>().prop_map(|file| Op::Chmod { file }),
        3 => (any::<u16>(), any::<bool>()).prop_map(|(target, prune)| Op::Delete { target, prune }),
        4 => (any::<u16>(), prop::collection::vec(any::<u16>(), 0..4), prop::bool::weighted(0.3))
            .prop_map(|(dir, lines, append)| Op::Ignore { dir, lines, append }),
        2 => (any::<u16>(), 0u8..3).prop_map(|(dir, kind)| Op::Nested { dir, kind }),
        1 => any::<u16>().prop_map(|which| Op::Unnest { which }),
        6 => track().prop_map(|track| Op::Snapshot { track }),
    ]
}

pub fn case(max_ops: usize) -> impl Strategy<Value = Case> {
    (
        prop_oneof![
            3 => Just(vec![]),
            1 => prop::collection::vec(any::<u16>(), 1..3),
        ],
        prop_oneof![
            1 => Just(vec![]),
            1 => prop::collection::vec((any::<u16>(), leaf()), 1..7),
        ],
        prop::collection::vec(op(), 4..=max_ops),
    )
        .prop_map(|(base_ignores, initial, ops)| Case {
            base_ignores,
            initial,
            ops,
        })
}

fn lines_text(lines: &[u16]) -> String {
    let mut text = String::new();
    for l in lines {
        text.push_str(PATTERN_LINES[pick(*l, PATTERN_LINES.len())]);
        text.push('\n');
    }
    text
}

/// Start-tracking decision of the model (independent of jj's matchers).
fn track_matches(track: &Track, path: &str, all_leaves: &[String]) -> bool {
    match track {
        Track::All => true,
        Track::Nothing => false,
        Track::Files(idx) => idx
            .iter()
            .any(|i| all_leaves[pick(*i, all_leaves.len())] == path),
        Track::Prefixes(idx) => idx.iter().any(|i| {
            let d = TRACK_DIRS[pick(*i, TRACK_DIRS.len())];
            d == path || is_below(d, path)
        }),
    }
}

fn track_matcher(track: &Track, all_leaves: &[String]) -> Box<dyn Matcher> {
    match track {
        Track::All => Box::new(EverythingMatcher),
        Track::Nothing => Box::new(NothingMatcher),
        Track::Files(idx) => Box::new(FilesMatcher::new(
            idx.iter()
                .map(|i| repo_path(&all_leaves[pick(*i, all_leaves.len())])),
        )),
        Track::Prefixes(idx) => Box::new(PrefixMatcher::new(
            idx.iter()
                .map(|i| repo_path(TRACK_DIRS[pick(*i, TRACK_DIRS.len())])),
        )),
    }
}

fn all_leaves() -> Vec<String> {
    let mut v: Vec<String> = LEAVES.iter().map(|s| s.to_string()).collect();
    for d in IGNORE_DIRS {
        let p = join(d, ".gitignore");
        if !v.contains(&p) {
            v.push(p);
        }
    }
    v
}

/// Why an untracked path on disk is not picked up (for the class histogram).
#[derive(Debug, Clone, Copy, PartialEq, Eq)]
enum Hidden {
    No,
    NestedRepo,
    IgnoredDir,
    IgnoredFile,
}

/// Visibility of an untracked leaf, decided top-down exactly as documented: the ignore
/// chain of a directory is the base file plus the `.gitignore` of every directory on the
/// way down; a directory matched by the chain of its parent hides everything below it
/// (and its own `.gitignore` is not read).
fn hidden(disk: &DiskModel, base: &Arc<GitIgnoreFile>, path: &str) -> Result<Hidden, Violation> {
    if disk.marker_above(path).is_some() {
        return Ok(Hidden::NestedRepo);
    }
    let mut chain = base.clone();
    let mut dir = "";
    let chain_dir = |chain: &Arc<GitIgnoreFile>, dir: &str| -> Result<Arc<GitIgnoreFile>, Violation> {
        let file = join(dir, ".gitignore");
        match disk.get(&file) {
            Some(DiskEntry::File { content, .. }) => {
                let prefix = if dir.is_empty() {
                    RepoPath::root().to_owned()
                } else {
                    repo_path(dir)
                };
                chain
                    .chain(&prefix, Path::new(&file), content)
                    .map_err(|e| Violation::new(format!("harness: chain failed: {e}")))
            }
            _ => Ok(chain.clone()),
        }
    };
    for a in ancestors(path) {
        chain = chain_dir(&chain, dir)?;
        if chain.matches_dir(&repo_path(a)) {
            return Ok(Hidden::IgnoredDir);
        }
        dir = a;
    }
    chain = chain_dir(&chain, dir)?;
    debug_assert_eq!(dir, parent_dir(path));
    if chain.matches_file(&repo_path(path)) {
        return Ok(Hidden::IgnoredFile);
    }
    Ok(Hidden::No)
}

#[derive(Default)]
struct Flags {
    snapshots: u32,
    swap_file_to_dir: bool,
    swap_dir_to_file: bool,
    swap_between: bool,
    ignore_edit_between: bool,
    same_size_tracked: bool,
    same_size_checked: bool,
    pending_swap: bool,
    pending_ignore_edit: bool,
    pending_same_size: bool,
    nested_repo_hides: bool,
    tracked_in_ignored_dir: bool,
    ignored_untracked: bool,
    untracked_not_auto: bool,
    deleted_tracked: bool,
    deleted_via_vanished_dir: bool,
    symlink_recorded: bool,
    chmod_only: bool,
    pending_chmod: bool,
    exec_recorded: bool,
    initial_tree: bool,
    base_ignores: bool,
    explicit_track: bool,
    unnest_reveals: bool,
    pending_unnest: bool,
    known_enotdir: Option<String>,
}

struct State {
    ws: TestWorkspace,
    disk: DiskModel,
    /// The tree of the last snapshot (= tracked set with contents).
    tracked: ModelTree,
    base: Arc<GitIgnoreFile>,
    leaves: Vec<String>,
    flags: Flags,
}

fn harness<T>(r: Result<T, String>) -> Result<T, Violation> {
    r.map_err(Violation::new)
}

impl State {
    fn snapshot(&mut self, track: &Track) -> Result<(), Violation> {
        let matcher = track_matcher(track, &self.leaves);
        let options = SnapshotOptions {
            base_ignores: self.base.clone(),
            progress: None,
            start_tracking_matcher: matcher.as_ref(),
            force_tracking_matcher: &NothingMatcher,
            max_new_file_size: u64::MAX,
        };
        let (tree, _stats) = match self.ws.snapshot_with_options(&options) {
            Ok(result) => result,
            Err(e) => {
                let msg = format!("{e:?}");
                if msg.contains("Failed to stat file")
                    && msg.contains("NotADirectory")
                    && let Some(witness) = self.enotdir_witness()?
                {
                    // Known finding: nothing was recorded and nothing was saved, so the
                    // sequence goes on with the tracked set unchanged; the case is
                    // reported under the known signature at its end.
                    self.flags.known_enotdir.get_or_insert(format!(
                        "snapshot #{} fails instead of recording the deletion of {witness}: {msg}",
                        self.flags.snapshots + 1
                    ));
                    return Ok(());
                }
                return Err(Violation::new(format!("snapshot failed: {msg}")));
            }
        };

        // Expected tree.
        let mut expected = ModelTree::new();
        for (path, entry) in &self.disk.entries {
            let was_tracked = self.tracked.contains_key(path);
            let h = hidden(&self.disk, &self.base, path)?;
            if was_tracked {
                // Domain constraint: never a tracked file below a nested repository.
                assert!(h != Hidden::NestedRepo, "generator broke the nested-repo constraint");
                if h == Hidden::IgnoredDir {
                    self.flags.tracked_in_ignored_dir = true;
                }
                expected.insert(path.clone(), to_tree_entry(entry));
                continue;
            }
            match h {
                Hidden::NestedRepo => self.flags.nested_repo_hides = true,
                Hidden::IgnoredDir | Hidden::IgnoredFile => self.flags.ignored_untracked = true,
                Hidden::No => {
                    if track_matches(track, path, &self.leaves) {
                        expected.insert(path.clone(), to_tree_entry(entry));
                    } else {
                        self.flags.untracked_not_auto = true;
                    }
                }
            }
        }
        for path in self.tracked.keys() {
            if !self.disk.is_leaf(path) {
                self.flags.deleted_tracked = true;
                if ancestors(path)
                    .first()
                    .is_some_and(|top| !self.disk.is_dir(top) && !self.disk.is_leaf(top))
                {
                    self.flags.deleted_via_vanished_dir = true;
                }
            }
        }

        let actual = read_resolved_tree(&tree)
            .map_err(|e| Violation::new(format!("snapshot tree unreadable: {e}")))?;
        let paths: BTreeSet<&String> = expected.keys().chain(actual.keys()).collect();
        for path in paths {
            let (want, got) = (expected.get(path), actual.get(path));
            if want != got {
                return Err(Violation::new(format!(
                    "snapshot #{} (track={track:?}) at {path:?}: expected {want:?}, snapshot tree has \
                     {got:?}; previously tracked: {:?}; on disk: {:?}",
                    self.flags.snapshots + 1,
                    self.tracked.get(path),
                    self.disk.get(path),
                )));
            }
        }
        // The snapshot must not touch the directory.
        if let Err(d) = self.disk.compare() {
            return Err(Violation::new(format!("snapshot changed the working directory: {d}")));
        }
        // The persisted working-copy tree is the returned one.
        let persisted = self
            .ws
            .workspace
            .working_copy()
            .tree()
            .map_err(|e| Violation::new(format!("cannot read working-copy tree: {e:?}")))?
            .tree_ids_and_labels();
        if persisted != tree.tree_ids_and_labels() {
            return Err(Violation::new("persisted working-copy tree differs from the snapshot result"));
        }

        let f = &mut self.flags;
        f.snapshots += 1;
        if f.snapshots >= 2 {
            f.swap_between |= f.pending_swap;
            f.ignore_edit_between |= f.pending_ignore_edit;
        }
        f.same_size_checked |= f.pending_same_size;
        f.chmod_only |= f.pending_chmod;
        f.unnest_reveals |= f.pending_unnest;
        f.pending_swap = false;
        f.pending_ignore_edit = false;
        f.pending_same_size = false;
        f.pending_chmod = false;
        f.pending_unnest = false;
        f.explicit_track |= matches!(track, Track::Files(_) | Track::Prefixes(_));
        f.symlink_recorded |= expected.values().any(|e| matches!(e, Entry::Symlink(_)));
        f.exec_recorded |= expected
            .values()
            .any(|e| matches!(e, Entry::File { exec: true, .. }));
        self.tracked = expected;
        Ok(())
    }

    /// Signature predicate of the known finding `KNOWN_ENOTDIR`: a tracked path below an
    /// ignored directory has, between that directory and itself, a component that is now a
    /// regular file (or a symlink to one). jj then stats the tracked path, gets ENOTDIR
    /// instead of ENOENT and aborts the snapshot.
    fn enotdir_witness(&self) -> Result<Option<String>, Violation> {
        for p in self.tracked.keys() {
            for q in ancestors(p) {
                let blocks = match self.disk.get(q) {
                    Some(DiskEntry::File { .. }) => true,
                    Some(DiskEntry::Symlink(_)) => {
                        std::fs::metadata(self.disk.fs_path(q)).is_ok_and(|m| !m.is_dir())
                    }
                    None => false,
                };
                if blocks && hidden(&self.disk, &self.base, q)? == Hidden::IgnoredDir {
                    return Ok(Some(format!(
                        "tracked {p:?} (its ancestor {q:?} is now a file inside an ignored directory)"
                    )));
                }
            }
        }
        Ok(None)
    }

    fn apply(&mut self, op: &Op) -> Result<(), Violation> {
        match op {
            Op::Write { path, leaf } => {
                let path = LEAVES[pick(*path, LEAVES.len())];
                let entry = leaf.to_entry();
                let file_to_dir = ancestors(path).iter().any(|a| self.disk.is_leaf(a));
                let dir_to_file = self.disk.is_dir(path);
                // Domain constraint: nothing tracked may end up below a nested repository;
                // writing below one is fine (it stays untracked), and replacing the nested
                // directory itself removes the marker with it.
                harness(self.disk.put(path, &crate::model::disk::to_disk_entry(&entry)))?;
                if self.flags.snapshots >= 1 && (file_to_dir || dir_to_file) {
                    self.flags.pending_swap = true;
                }
                self.flags.swap_file_to_dir |= file_to_dir;
                self.flags.swap_dir_to_file |= dir_to_file;
            }
            Op::SameSize { file, at } => {
                let mut candidates: Vec<(&String, &Vec<u8>, bool)> = self
                    .disk
                    .entries
                    .iter()
                    .filter_map(|(p, e)| match e {
                        DiskEntry::File { content, exec }
                            if !content.is_empty() && !is_gitignore(p) =>
                        {
                            Some((p, content, *exec))
                        }
                        _ => None,
                    })
                    .collect();
                // Prefer tracked files: that is where a missed edit would show.
                if candidates.iter().any(|(p, _, _)| self.tracked.contains_key(*p)) {
                    candidates.retain(|(p, _, _)| self.tracked.contains_key(*p));
                }
                if candidates.is_empty() {
                    return Ok(());
                }
                let (path, content, exec) = candidates[pick(*file, candidates.len())];
                let path = path.clone();
                let mut content = content.clone();
                let i = pick(*at, content.len());
                content[i] ^= 0x01;
                let tracked = self.tracked.contains_key(&path);
                harness(self.disk.put_file(&path, &content, exec))?;
                if tracked {
                    self.flags.same_size_tracked = true;
                    self.flags.pending_same_size = true;
                }
            }
            Op::Chmod { file } => {
                let candidates: Vec<(String, bool)> = self
                    .disk
                    .entries
                    .iter()
                    .filter_map(|(p, e)| match e {
                        DiskEntry::File { exec, .. } => Some((p.clone(), *exec)),
                        _ => None,
                    })
                    .collect();
                if candidates.is_empty() {
                    return Ok(());
                }
                let (path, exec) = &candidates[pick(*file, candidates.len())];
                harness(self.disk.chmod(path, !exec))?;
                if self.tracked.contains_key(path) {
                    self.flags.pending_chmod = true;
                }
            }
            Op::Delete { target, prune } => {
                let mut targets: Vec<String> = self.disk.entries.keys().cloned().collect();
                targets.extend(self.disk.dirs());
                if targets.is_empty() {
                    return Ok(());
                }
                let t = targets[pick(*target, targets.len())].clone();
                if is_gitignore(&t) && self.flags.snapshots >= 1 {
                    self.flags.pending_ignore_edit = true;
                }
                harness(self.disk.remove(&t, *prune))?;
            }
            Op::Ignore { dir, lines, append } => {
                let dir = IGNORE_DIRS[pick(*dir, IGNORE_DIRS.len())];
                let path = join(dir, ".gitignore");
                let mut text = String::new();
                if *append && let Some(DiskEntry::File { content, .. }) = self.disk.get(&path) {
                    text = String::from_utf8_lossy(content).into_owned();
                }
                text.push_str(&lines_text(lines));
                harness(self.disk.put_file(&path, text.as_bytes(), false))?;
                if self.flags.snapshots >= 1 {
                    self.flags.pending_ignore_edit = true;
                }
            }
            Op::Nested { dir, kind } => {
                // Soundness constraint (DESIGN): only where no tracked file lives. A tracked
                // file *at* the directory position itself is fine (it is replaced by the
                // directory). Directories that already hold (untracked) files are preferred,
                // so that the marker actually hides something.
                let mut candidates: Vec<&str> = MARKER_DIRS
                    .iter()
                    .copied()
                    .filter(|d| !self.tracked.keys().any(|p| is_below(d, p)))
                    .collect();
                if candidates.iter().any(|d| self.disk.entries.keys().any(|p| is_below(d, p))) {
                    candidates.retain(|d| self.disk.entries.keys().any(|p| is_below(d, p)));
                }
                if candidates.is_empty() {
                    return Ok(());
                }
                let dir = candidates[pick(*dir, candidates.len())];
                let marker = match kind {
                    0 => Marker::JjDir,
                    1 => Marker::GitDir,
                    _ => Marker::GitFile,
                };
                harness(self.disk.add_marker(dir, marker))?;
            }
            Op::Unnest { which } => {
                let dirs: Vec<String> = self.disk.markers.keys().cloned().collect();
                if dirs.is_empty() {
                    return Ok(());
                }
                let dir = dirs[pick(*which, dirs.len())].clone();
                harness(self.disk.remove_marker(&dir))?;
                if self.disk.entries.keys().any(|p| is_below(&dir, p)) {
                    self.flags.pending_unnest = true;
                }
            }
            Op::Snapshot { track } => self.snapshot(track)?,
        }
        Ok(())
    }
}

pub fn check(case: &Case) -> CheckResult {
    let ws = TestWorkspace::init();
    let root = ws.workspace.workspace_root().to_owned();
    let base_text = lines_text(&case.base_ignores);
    let base = GitIgnoreFile::empty()
        .chain(RepoPath::root(), Path::new("base-ignores"), base_text.as_bytes())
        .map_err(|e| Violation::new(format!("harness: base ignores: {e}")))?;
    let mut st = State {
        disk: DiskModel::new(&root),
        ws,
        tracked: ModelTree::new(),
        base,
        leaves: all_leaves(),
        flags: Flags::default(),
    };
    st.flags.base_ignores = !base_text.is_empty();

    // Initial tree, checked out by jj (tracked from the start).
    let mut initial = ModelTree::new();
    for (p, leaf) in &case.initial {
        tree_put(&mut initial, LEAVES[pick(*p, LEAVES.len())], leaf.to_entry());
    }
    if !initial.is_empty() {
        let store = st.ws.repo.store().clone();
        let tree = write_tree(&store, &initial);
        let commit = testutils::commit_with_tree(&store, tree);
        let op_id = st.ws.repo.op_id().clone();
        st.ws
            .workspace
            .check_out(op_id, None, &commit)
            .block_on()
            .map_err(|e| Violation::new(format!("initial checkout failed: {e:?}")))?;
        for (p, e) in tree_to_disk(&initial) {
            st.disk.model_set(&p, e);
        }
        if let Err(d) = st.disk.compare() {
            return Err(Violation::new(format!("initial checkout wrote something else: {d}")));
        }
        st.tracked = initial;
        st.flags.initial_tree = true;
    }

    for op in &case.ops {
        st.apply(op)?;
    }
    // Whatever is still pending is checked by a final snapshot.
    st.snapshot(&Track::All)?;

    if let Some(msg) = st.flags.known_enotdir.take() {
        return Err(Violation::known(KNOWN_ENOTDIR, msg));
    }
    let f = &st.flags;
    let nontrivial = (f.swap_between || f.ignore_edit_between) && f.same_size_checked;
    Ok(Outcome::new(nontrivial)
        .class_if(f.swap_file_to_dir, "swap file->dir")
        .class_if(f.swap_dir_to_file, "swap dir->file")
        .class_if(f.swap_between, "swap between snapshots")
        .class_if(f.ignore_edit_between, "ignore-file edit between snapshots")
        .class_if(f.same_size_checked, "same-size edit of tracked file")
        .class_if(f.chmod_only, "chmod of tracked file")
        .class_if(f.nested_repo_hides, "nested repo hides files")
        .class_if(f.unnest_reveals, "nested repo marker removed")
        .class_if(f.tracked_in_ignored_dir, "tracked file in ignored dir")
        .class_if(f.ignored_untracked, "ignored untracked file")
        .class_if(f.untracked_not_auto, "visible file left untracked")
        .class_if(f.explicit_track, "explicit start-tracking matcher")
        .class_if(f.deleted_tracked, "tracked path gone")
        .class_if(f.deleted_via_vanished_dir, "tracked path gone with its top directory")
        .class_if(f.symlink_recorded, "symlink recorded")
        .class_if(f.exec_recorded, "exec file recorded")
        .class_if(f.initial_tree, "initial checkout")
        .class_if(f.base_ignores, "base ignores")
        .class_if(f.snapshots >= 4, "snapshots>=4"))
}

pub fn run(report: &mut Report) {
    report.set_rule(
        "random sequences (4..=25 ops) on a fresh TestWorkspace: optional initial checkout, then \
         write/replace (file<->dir swaps by construction of the path alphabet), same-size byte flip, \
         chmod, symlink, delete (file or directory, with/without pruning empty parents), .gitignore \
         write/append/delete at 8 directory levels (literal, *.ext, dir/, /anchored, !negation), \
         nested .jj/.git markers (only where nothing is tracked), interleaved with snapshot() using \
         auto-track all/none/files/prefixes and optional base ignores; a final snapshot closes each \
         sequence. Every snapshot tree is compared path by path with the disk model + tracked set. \
         non-trivial = (file<->dir swap or ignore-file edit between two snapshots) and >=1 same-size \
         edit of a tracked file that a later snapshot had to pick up",
    );
    report.assume(
        "ignore decisions inside the model use jj's own GitIgnoreFile (compared with git in C28), \
         applied top-down with the documented directory rule",
    );
    report.assume(
        "file mtimes are set by the harness to strictly increasing logical values in the past, so \
         every content write changes the mtime and racy-timestamp handling (C26) is not involved",
    );
    report.assume("nested repositories are only created in directories without tracked files (documented skip)");
    let tier = report.tier;
    let max_ops = 25;
    report.prop("sequences", tier.pick(800, 40_000), || case(max_ops), check);
}
