//! C32 Workspace path conversion is lossless and confined.
//!
//! Oracle: the byte-level lexical path model in `model::fspath` (written without
//! `std::path::Components` and without jj's `file_util`).

use std::path::PathBuf;

use jj_lib::file_util;
use jj_lib::repo_path::RepoPath;
use jj_lib::repo_path::RepoPathBuf;
use jj_lib::repo_path::RepoPathComponent;
use jj_lib::repo_path::RepoPathComponentBuf;
use jj_lib::repo_path::RepoPathUiConverter;
use proptest::prelude::*;
use serde::Deserialize;
use serde::Serialize;

use crate::engine::runner::CheckResult;
use crate::engine::runner::Outcome;
use crate::engine::runner::Report;
use crate::engine::runner::Violation;
use crate::engine::runner::pick;
use crate::ensure;
use crate::ensure_eq;
use crate::model::fspath as m;

// ---------------------------------------------------------------------------
// Case types

/// One `/`-separated piece of a generated path.
#[derive(Debug, Clone, Serialize, Deserialize, PartialEq, Eq)]
pub enum Part {
    Name(String),
    /// Bytes that are not valid UTF-8.
    Raw(Vec<u8>),
    Dot,
    DotDot,
    /// Produces a repeated separator.
    Empty,
}

impl Part {
    fn bytes(&self) -> Vec<u8> {
        match self {
            Self::Name(s) => s.as_bytes().to_vec(),
            Self::Raw(b) => b.clone(),
            Self::Dot => b".".to_vec(),
            Self::DotDot => b"..".to_vec(),
            Self::Empty => vec![],
        }
    }
}

#[derive(Debug, Clone, Serialize, Deserialize)]
pub struct PathSpec {
    pub leading_slash: bool,
    pub parts: Vec<Part>,
    pub trailing_slash: bool,
}

impl PathSpec {
    fn bytes(&self) -> Vec<u8> {
        let mut out = vec![];
        if self.leading_slash {
            out.push(b'/');
        }
        for (i, p) in self.parts.iter().enumerate() {
            if i > 0 {
                out.push(b'/');
            }
            out.extend(p.bytes());
        }
        if self.trailing_slash {
            out.push(b'/');
        }
        out
    }
}

#[derive(Debug, Clone, Serialize, Deserialize)]
pub struct FsCase {
    /// Components of the absolute, normalized workspace root (`[]` is `/`).
    pub base: Vec<String>,
    /// Components of the absolute, normalized current directory.
    pub cwd: Vec<String>,
    pub input: PathSpec,
}

#[derive(Debug, Clone, Serialize, Deserialize)]
pub struct RepoCase {
    /// Joined with `/` to form the internal string; may contain "", ".", "..".
    pub comps: Vec<String>,
    /// `None`: relative empty base.
    pub base: Option<Vec<String>>,
    pub cwd: Vec<String>,
}

#[derive(Debug, Clone, Serialize, Deserialize)]
pub struct PathCase {
    pub path: PathSpec,
}

#[derive(Debug, Clone, Serialize, Deserialize)]
pub struct RelCase {
    pub from: Vec<String>,
    pub to: Vec<String>,
}

// ---------------------------------------------------------------------------
// Generators

const DIRS: &[&str] = &["a", "b", "c", "ws", "é", ".jj", "a b"];
const NAMES: &[&str] = &[
    "a", "b", "c", "ws", "é", ".jj", ".git", "a b", " ", "日本語", "...", "..a", "a..", ".a", "a.",
    "\\", "a\\b", "..\\x", "C:", "\u{0}", "-", "~", "e\u{301}", "\u{1F600}", "\u{202e}x", "*",
];
const RAWS: &[&[u8]] = &[b"\xff", b"a\xc3", b"\xc3\x28", b"\xed\xa0\x80"];

fn dir_name() -> impl Strategy<Value = String> {
    any::<u16>().prop_map(|r| DIRS[pick(r, DIRS.len())].to_string())
}

fn dirs(max: usize) -> impl Strategy<Value = Vec<String>> {
    prop::collection::vec(dir_name(), 0..=max)
}

fn part() -> impl Strategy<Value = Part> {
    prop_oneof![
        10 => any::<u16>().prop_map(|r| Part::Name(NAMES[pick(r, NAMES.len())].to_string())),
        5 => Just(Part::DotDot),
        2 => Just(Part::Dot),
        2 => Just(Part::Empty),
        1 => any::<u16>().prop_map(|r| Part::Raw(RAWS[pick(r, RAWS.len())].to_vec())),
        1 => "\\PC{1,4}".prop_map(|s| {
            // arbitrary printable unicode; a separator would split it, keep it one piece
            Part::Name(s.replace('/', "\u{2215}"))
        }),
    ]
}

fn parts(max: usize) -> impl Strategy<Value = Vec<Part>> {
    prop::collection::vec(part(), 0..=max)
}

fn names_to_parts(names: &[String]) -> Vec<Part> {
    names.iter().map(|n| Part::Name(n.clone())).collect()
}

fn common_len(a: &[String], b: &[String]) -> usize {
    a.iter().zip(b).take_while(|(x, y)| x == y).count()
}

/// base/cwd pair: cwd equal to, inside, beside/above, or unrelated to base.
fn base_and_cwd() -> impl Strategy<Value = (Vec<String>, Vec<String>)> {
    (dirs(3), 0u8..4, dirs(2), dir_name(), any::<u16>()).prop_map(
        |(base, mode, extra, one, k)| {
            let cwd = match mode {
                0 => base.clone(),
                1 => {
                    let mut c = base.clone();
                    c.push(one);
                    c.extend(extra);
                    c
                }
                2 => {
                    let keep = pick(k, base.len() + 1);
                    let mut c = base[..keep].to_vec();
                    c.extend(extra);
                    c
                }
                _ => {
                    let mut c = vec![one];
                    c.extend(extra);
                    c
                }
            };
            (base, cwd)
        },
    )
}

fn fs_case() -> impl Strategy<Value = FsCase> {
    (
        base_and_cwd(),
        0u8..8,
        parts(5),
        any::<bool>(),
        any::<u16>(),
    )
        .prop_map(|((base, cwd), mode, tail, trailing, k)| {
            let trailing_slash = trailing && k & 3 == 0;
            let input = match mode {
                // relative, random
                0..=2 => PathSpec {
                    leading_slash: false,
                    parts: tail,
                    trailing_slash,
                },
                // absolute, starts at base
                3 | 4 => {
                    let mut parts = names_to_parts(&base);
                    parts.extend(tail);
                    PathSpec {
                        leading_slash: true,
                        parts,
                        trailing_slash,
                    }
                }
                // absolute, random
                5 => PathSpec {
                    leading_slash: true,
                    parts: tail,
                    trailing_slash,
                },
                // relative: climb from cwd to the common ancestor and descend into base
                6 => {
                    let common = common_len(&cwd, &base);
                    let mut parts = vec![Part::DotDot; cwd.len() - common];
                    parts.extend(names_to_parts(&base[common..]));
                    parts.extend(tail);
                    PathSpec {
                        leading_slash: false,
                        parts,
                        trailing_slash,
                    }
                }
                // relative: climb a generated number of levels (possibly above the root)
                _ => {
                    let ups = pick(k, cwd.len() + 3);
                    let mut parts = vec![Part::DotDot; ups];
                    let skip = cwd.len().saturating_sub(ups).min(base.len());
                    parts.extend(names_to_parts(&base[skip..]));
                    parts.extend(tail);
                    PathSpec {
                        leading_slash: false,
                        parts,
                        trailing_slash,
                    }
                }
            };
            FsCase { base, cwd, input }
        })
}

const REPO_COMPS: &[&str] = &[
    "a", "b", "c", ".jj", ".git", "é", "日本語", "a b", "..", ".", "", "...", "..a", ".a", "a.",
    "\\", "a\\b", "..\\", "\u{0}", "C:", "-", " ", "e\u{301}", "\u{1F600}",
];

fn repo_case() -> impl Strategy<Value = RepoCase> {
    let comp = prop_oneof![
        12 => any::<u16>().prop_map(|r| REPO_COMPS[pick(r, REPO_COMPS.len())].to_string()),
        1 => "\\PC{0,4}",
        1 => Just("a/b".to_string()),
    ];
    (
        prop::collection::vec(comp, 0..=5),
        prop::option::weighted(0.85, dirs(3)),
        dirs(3),
    )
        .prop_map(|(comps, base, cwd)| RepoCase { comps, base, cwd })
}

fn path_case() -> impl Strategy<Value = PathCase> {
    (any::<bool>(), parts(6), any::<bool>(), any::<u8>()).prop_map(
        |(leading_slash, parts, trailing, k)| PathCase {
            path: PathSpec {
                leading_slash: leading_slash && k & 1 == 0,
                parts,
                trailing_slash: trailing && k & 6 == 0,
            },
        },
    )
}

fn rel_case() -> impl Strategy<Value = RelCase> {
    (dirs(3), dirs(3), dirs(3), 0u8..4).prop_map(|(prefix, a, b, mode)| {
        let (from, to) = match mode {
            0 => (a, b),
            1 => ([prefix.clone(), a].concat(), [prefix, b].concat()),
            2 => (prefix.clone(), [prefix, b].concat()),
            _ => ([prefix.clone(), a].concat(), prefix),
        };
        RelCase { from, to }
    })
}

// ---------------------------------------------------------------------------
// Helpers

fn abs_bytes(comps: &[String]) -> Vec<u8> {
    let mut out = vec![b'/'];
    out.extend(comps.join("/").as_bytes());
    out
}

fn to_byte_comps(comps: &[String]) -> Vec<Vec<u8>> {
    comps.iter().map(|c| c.as_bytes().to_vec()).collect()
}

fn utf8_comps(comps: &[Vec<u8>]) -> Option<Vec<String>> {
    comps
        .iter()
        .map(|c| String::from_utf8(c.clone()).ok())
        .collect()
}

fn is_reserved(c: &[u8]) -> bool {
    c == b".jj" || c == b".git"
}

/// "never produces a repository path with empty, '.' or '..' components"
fn check_repo_path_wellformed(r: &RepoPath, what: &str) -> Result<(), Violation> {
    let s = r.as_internal_file_string();
    if s.is_empty() {
        ensure!(r.is_root(), "{what}: empty string but not root");
        ensure!(r.components().next().is_none(), "{what}: root has components");
        return Ok(());
    }
    for piece in s.split('/') {
        ensure!(
            !piece.is_empty() && piece != "." && piece != "..",
            "{what}: produced repo path {s:?} with component {piece:?}"
        );
    }
    let via_iter: Vec<&str> = r.components().map(|c| c.as_internal_str()).collect();
    let via_split: Vec<&str> = s.split('/').collect();
    ensure_eq!(via_iter, via_split, "{what}: components() disagrees with the internal string");
    Ok(())
}

/// `p` must be exactly `base` followed by `rest`, spelled with ordinary
/// components only.
fn check_fs_path_is(
    p: &std::path::Path,
    base_absolute: bool,
    base: &[Vec<u8>],
    rest: &[Vec<u8>],
    what: &str,
) -> Result<(), Violation> {
    let (abs, comps) = m::std_components(p);
    let mut expected: Vec<Vec<u8>> = base.to_vec();
    expected.extend(rest.iter().cloned());
    if !base_absolute && expected.is_empty() {
        expected.push(b".".to_vec());
    }
    ensure_eq!(abs, base_absolute, "{what}: absoluteness of {p:?}");
    ensure_eq!(
        m::lossy_list(&comps),
        m::lossy_list(&expected),
        "{what}: components of {p:?}"
    );
    ensure_eq!(comps, expected, "{what}: component bytes of {p:?}");
    // Confinement, stated through the independent model on the raw bytes.
    use std::os::unix::ffi::OsStrExt as _;
    let n = m::normalize(p.as_os_str().as_bytes());
    ensure!(
        n.unresolved_parents == 0 && m::strip_base(&n.rest, base).is_some(),
        "{what}: {p:?} is outside base {:?}",
        m::lossy_list(base)
    );
    Ok(())
}

// ---------------------------------------------------------------------------
// (a) file-system path -> repo path

fn check_fs(case: &FsCase) -> CheckResult {
    let base_b = abs_bytes(&case.base);
    let cwd_b = abs_bytes(&case.cwd);
    let input_b = case.input.bytes();
    let base = m::path_from_bytes(&base_b);
    let cwd = m::path_from_bytes(&cwd_b);
    let input = m::path_from_bytes(&input_b);
    let base_comps = to_byte_comps(&case.base);

    let joined = m::join(&cwd_b, &input_b);
    let norm = m::normalize(&joined);
    let above_root = norm.unresolved_parents > 0;
    // Components below base, if the resolved location is base or inside it.
    let below: Option<Vec<Vec<u8>>> = m::strip_base(&norm.rest, &base_comps).map(|r| r.to_vec());
    let below_utf8 = below.as_ref().and_then(|r| utf8_comps(r));

    let result = RepoPathBuf::parse_fs_path(&cwd, &base, &input);
    let shown = m::lossy(&input_b);
    match (&result, above_root) {
        (Ok(r), _) => {
            check_repo_path_wellformed(r, "parse_fs_path")?;
            let Some(expected) = &below_utf8 else {
                return Err(Violation::new(format!(
                    "parse_fs_path(cwd={cwd:?}, base={base:?}, {shown:?}) = Ok({r:?}) but the \
                     input resolves to {:?} (+{} unresolved '..'), which is not inside base",
                    m::lossy_list(&norm.rest),
                    norm.unresolved_parents
                )));
            };
            ensure_eq!(
                r.as_internal_file_string(),
                expected.join("/"),
                "parse_fs_path(cwd={cwd:?}, base={base:?}, {shown:?}) vs lexical model"
            );
            // Back to the file system: same location, inside base.
            let p = r.to_fs_path(&base).map_err(|e| {
                Violation::new(format!("to_fs_path rejects a parsed path {r:?}: {e}"))
            })?;
            check_fs_path_is(&p, true, &base_comps, below.as_ref().unwrap(), "to_fs_path∘parse_fs_path")?;
            // ...and parsing that location again is the identity.
            for from in [&base, &cwd] {
                let again = RepoPathBuf::parse_fs_path(from, &base, &p);
                ensure!(
                    again.as_ref().ok() == Some(r),
                    "parse_fs_path(cwd={from:?}, base, {p:?}) = {again:?}, expected {r:?}"
                );
            }
        }
        (Err(_), true) => {
            // `..` above the root: jj keeps the `..` and reports "not in the repo";
            // the statement allows a conservative rejection.
        }
        (Err(err), false) => {
            ensure!(
                below_utf8.is_none(),
                "parse_fs_path(cwd={cwd:?}, base={base:?}, {shown:?}) failed ({err}) but the input \
                 resolves to {:?} inside base",
                below.as_ref().map(|b| m::lossy_list(b))
            );
        }
    }

    // The UI converter is the same conversion on strings, and formatting a
    // parsed path for display parses back to it from any cwd.
    if let Ok(text) = std::str::from_utf8(&input_b) {
        let conv = RepoPathUiConverter::Fs {
            cwd: cwd.clone(),
            base: base.clone(),
        };
        let via_ui = conv.parse_file_path(text).ok();
        ensure_eq!(via_ui.as_ref(), result.as_ref().ok(), "parse_file_path vs parse_fs_path on {text:?}");
        if let Ok(r) = &result {
            let ui = conv.format_file_path(r);
            let back = conv.parse_file_path(&ui);
            ensure!(
                back.as_ref().ok() == Some(r),
                "format_file_path({r:?}) = {ui:?} (cwd={cwd:?}, base={base:?}) parses back to {back:?}"
            );
        }
    }

    let comps_in = m::split_components(&input_b);
    let has_dotdot = comps_in.iter().any(|c| c == b"..");
    let abs_input = m::is_absolute(&input_b);
    let reserved = comps_in.iter().any(|c| is_reserved(c));
    let cwd_in_base = m::strip_base(&to_byte_comps(&case.cwd), &base_comps).is_some();
    Ok(Outcome::new(has_dotdot || abs_input || reserved)
        .class_if(result.is_ok(), "fs:ok")
        .class_if(result.is_ok() && has_dotdot, "fs:ok-with-dotdot")
        .class_if(result.is_ok() && abs_input, "fs:ok-absolute-input")
        .class_if(result.is_ok() && !cwd_in_base, "fs:ok-cwd-outside-base")
        .class_if(result.is_err(), "fs:err")
        .class_if(result.is_err() && below.is_some() && !above_root, "fs:err-non-utf8-inside")
        .class_if(above_root, "fs:above-root")
        .class_if(above_root && below.is_some(), "fs:above-root-posix-inside")
        .class_if(reserved, "fs:reserved-component")
        .class_if(case.base.is_empty(), "fs:base-is-root")
        .class_if(
            case.input.trailing_slash || case.input.parts.contains(&Part::Empty),
            "fs:repeated-or-trailing-sep",
        )
        .class_if(input_b.iter().any(|b| *b >= 0x80), "fs:non-ascii"))
}

// ---------------------------------------------------------------------------
// (b) repo path -> file-system path

fn model_valid_internal(value: &str) -> bool {
    value.is_empty() || value.split('/').all(|c| !c.is_empty())
}

fn check_repo(case: &RepoCase) -> CheckResult {
    // Component constructors.
    for c in &case.comps {
        let expect_ok = !c.is_empty() && !c.contains('/');
        ensure_eq!(RepoPathComponent::new(c).is_ok(), expect_ok, "RepoPathComponent::new({c:?})");
        ensure_eq!(
            RepoPathComponentBuf::new(c.clone()).is_ok(),
            expect_ok,
            "RepoPathComponentBuf::new({c:?})"
        );
        if let Ok(comp) = RepoPathComponent::new(c) {
            let fs_ok = c != "." && c != "..";
            match comp.to_fs_name() {
                Ok(name) => {
                    ensure!(fs_ok, "to_fs_name accepts {c:?}");
                    ensure_eq!(name, c.as_str(), "to_fs_name changed the name");
                }
                Err(_) => ensure!(!fs_ok, "to_fs_name rejects ordinary name {c:?}"),
            }
        }
    }

    let value = case.comps.join("/");
    let valid = model_valid_internal(&value);
    let parsed = RepoPath::from_internal_string(&value);
    ensure_eq!(parsed.is_ok(), valid, "RepoPath::from_internal_string({value:?})");
    ensure_eq!(
        RepoPathBuf::from_internal_string(value.clone()).is_ok(),
        valid,
        "RepoPathBuf::from_internal_string({value:?})"
    );
    let Ok(repo_path) = parsed else {
        return Ok(Outcome::new(false).class("repo:invalid-internal-string"));
    };
    let comps: Vec<&str> = if value.is_empty() { vec![] } else { value.split('/').collect() };
    let via_iter: Vec<&str> = repo_path.components().map(|c| c.as_internal_str()).collect();
    ensure_eq!(via_iter, comps, "components() of {value:?}");
    let via_back: Vec<&str> = repo_path.components().rev().map(|c| c.as_internal_str()).collect();
    ensure_eq!(
        via_back,
        comps.iter().rev().copied().collect::<Vec<_>>(),
        "components().rev() of {value:?}"
    );

    let (base, base_comps, base_abs): (PathBuf, Vec<Vec<u8>>, bool) = match &case.base {
        Some(b) => (m::path_from_bytes(&abs_bytes(b)), to_byte_comps(b), true),
        None => (PathBuf::new(), vec![], false),
    };
    let dangerous = comps.iter().any(|c| *c == "." || *c == "..");
    let rest: Vec<Vec<u8>> = comps.iter().map(|c| c.as_bytes().to_vec()).collect();
    match repo_path.to_fs_path(&base) {
        Err(err) => {
            ensure!(dangerous, "to_fs_path({value:?}) failed without '.'/'..' component: {err}");
        }
        Ok(p) => {
            ensure!(
                !dangerous,
                "to_fs_path accepted repo path {value:?} and produced {p:?}"
            );
            check_fs_path_is(&p, base_abs, &base_comps, &rest, "to_fs_path")?;
            ensure_eq!(
                repo_path.to_fs_path_unchecked(&base),
                p,
                "to_fs_path_unchecked differs for a valid path"
            );
            if base_abs {
                let cwd = m::path_from_bytes(&abs_bytes(&case.cwd));
                for from in [&base, &cwd] {
                    let back = RepoPathBuf::parse_fs_path(from, &base, &p);
                    ensure!(
                        back.as_deref().ok() == Some(repo_path),
                        "parse_fs_path(cwd={from:?}, base={base:?}, {p:?}) = {back:?}, expected {value:?}"
                    );
                }
            } else {
                let back = RepoPathBuf::from_relative_path(&p);
                ensure!(
                    back.as_deref().ok() == Some(repo_path),
                    "from_relative_path({p:?}) = {back:?}, expected {value:?}"
                );
            }
        }
    }
    let reserved = rest.iter().any(|c| is_reserved(c));
    Ok(Outcome::new(dangerous || reserved)
        .class_if(dangerous, "repo:dot-or-dotdot-rejected")
        .class_if(!dangerous, "repo:roundtrip")
        .class_if(!dangerous && !base_abs, "repo:roundtrip-relative-base")
        .class_if(reserved, "repo:reserved-component")
        .class_if(value.contains('\\'), "repo:backslash")
        .class_if(value.contains('\0'), "repo:nul")
        .class_if(value.is_empty(), "repo:root"))
}

// ---------------------------------------------------------------------------
// from_relative_path

fn check_from_relative(case: &PathCase) -> CheckResult {
    let bytes = case.path.bytes();
    let path = m::path_from_bytes(&bytes);
    let comps = m::split_components(&bytes);
    let absolute = m::is_absolute(&bytes);
    let has_dotdot = comps.iter().any(|c| c == b"..");
    let leading_dot = !absolute && bytes.split(|b| *b == b'/').next() == Some(&b"."[..]);
    let utf8 = utf8_comps(&comps);
    let shown = m::lossy(&bytes);
    let result = RepoPathBuf::from_relative_path(&path);
    match &result {
        Ok(r) => {
            check_repo_path_wellformed(r, "from_relative_path")?;
            ensure!(!absolute, "from_relative_path accepted absolute path {shown:?} as {r:?}");
            ensure!(!has_dotdot, "from_relative_path accepted {shown:?} (contains '..') as {r:?}");
            let Some(expected) = &utf8 else {
                return Err(Violation::new(format!(
                    "from_relative_path accepted non-UTF-8 path {shown:?} as {r:?}"
                )));
            };
            ensure_eq!(
                r.as_internal_file_string(),
                expected.join("/"),
                "from_relative_path({shown:?}) vs lexical model"
            );
            // and back
            let p = r
                .to_fs_path(std::path::Path::new(""))
                .map_err(|e| Violation::new(format!("to_fs_path rejects {r:?}: {e}")))?;
            check_fs_path_is(&p, false, &[], &comps, "to_fs_path∘from_relative_path")?;
        }
        Err(err) => {
            // A leading "./" is "redundant" per the doc comment: rejection allowed.
            ensure!(
                absolute || has_dotdot || utf8.is_none() || leading_dot,
                "from_relative_path rejected clean relative path {shown:?}: {err}"
            );
        }
    }
    Ok(Outcome::new(has_dotdot || absolute || comps.iter().any(|c| is_reserved(c)))
        .class_if(result.is_ok(), "rel:ok")
        .class_if(result.is_ok() && comps.len() != case.path.parts.len(), "rel:ok-collapsed-seps-or-dots")
        .class_if(result.is_err(), "rel:err")
        .class_if(leading_dot, "rel:leading-dot"))
}

// ---------------------------------------------------------------------------
// file_util::normalize_path / relative_path

fn check_normalize(case: &PathCase) -> CheckResult {
    let bytes = case.path.bytes();
    let path = m::path_from_bytes(&bytes);
    let norm = m::normalize(&bytes);
    let got = file_util::normalize_path(&path);
    let (abs, comps) = m::std_components(&got);
    ensure_eq!(abs, norm.absolute, "normalize_path({path:?}) = {got:?}: absoluteness");
    let dot_if_empty = |mut v: Vec<Vec<u8>>| {
        if v.is_empty() && !norm.absolute {
            v.push(b".".to_vec());
        }
        v
    };
    let keep = dot_if_empty(norm.to_components(true));
    let posix = dot_if_empty(norm.to_components(false));
    // "Consumes as much `..` and `.` as possible": relative paths keep the `..`
    // that have nothing to consume; for `/..` both spellings denote `/`.
    let ok = comps == keep || (norm.absolute && comps == posix);
    ensure!(
        ok,
        "normalize_path({path:?}) = {got:?}, expected components {:?}",
        m::lossy_list(&keep)
    );
    ensure_eq!(file_util::normalize_path(&got), got, "normalize_path is not idempotent on {path:?}");
    let above = norm.unresolved_parents > 0;
    Ok(Outcome::new(m::split_components(&bytes).iter().any(|c| c == b".."))
        .class_if(above && !norm.absolute, "norm:relative-leading-dotdot")
        .class_if(above && norm.absolute, "norm:absolute-above-root")
        .class_if(keep == [b".".to_vec()], "norm:collapses-to-dot"))
}

fn check_relative(case: &RelCase) -> CheckResult {
    let from_c = to_byte_comps(&case.from);
    let to_c = to_byte_comps(&case.to);
    let from = m::path_from_bytes(&abs_bytes(&case.from));
    let to = m::path_from_bytes(&abs_bytes(&case.to));
    let got = file_util::relative_path(&from, &to);
    let (abs, comps) = m::std_components(&got);
    let expected = m::relative(&from_c, &to_c);
    ensure!(!abs, "relative_path({from:?}, {to:?}) = {got:?} is absolute");
    ensure_eq!(
        m::lossy_list(&comps),
        m::lossy_list(&expected),
        "relative_path({from:?}, {to:?}) = {got:?}"
    );
    // Meaning: from/<result> is `to`.
    use std::os::unix::ffi::OsStrExt as _;
    let joined = m::join(&abs_bytes(&case.from), got.as_os_str().as_bytes());
    let n = m::normalize(&joined);
    ensure!(
        n.unresolved_parents == 0 && n.rest == to_c,
        "from.join(relative_path(from, to)) resolves to {:?}, not to {to:?}",
        m::lossy_list(&n.rest)
    );
    let ups = expected.iter().filter(|c| *c == b"..").count();
    Ok(Outcome::new(ups > 0)
        .class_if(ups > 0 && expected.len() > ups, "relpath:up-and-down")
        .class_if(expected == [b".".to_vec()], "relpath:same"))
}

pub fn run(report: &mut Report) {
    report.set_rule(
        "fs: input paths built from a 26-name alphabet (unicode, spaces, '.jj'/'.git', backslash, \
         NUL, non-UTF-8 bytes) plus '.', '..', empty pieces, trailing '/', relative or absolute, \
         constructed to start at base / climb out of cwd and back into base / climb above '/'; \
         base and cwd absolute normalized with cwd equal to, inside, beside or unrelated to base. \
         repo: internal strings from components incl. '', '.', '..', backslash, NUL against absolute \
         or empty base. rel/norm/relpath: the same path language fed to from_relative_path, \
         file_util::normalize_path, relative_path. Oracle: byte-level lexical model. Non-trivial = \
         the input contains '..' or is absolute or has a reserved ('.jj'/'.git') component (repo: a \
         '.'/'..' or reserved component; relpath: result climbs); distinct by whole case.",
    );
    report.assume(
        "Unix path semantics (separator '/', no prefixes); `..` directly under '/' may be rejected \
         instead of being treated as '/' (conservative; allowed by the statement); a leading './' \
         may be rejected by from_relative_path (documented as 'should not contain redundant .').",
    );
    let tier = report.tier;
    report.prop("fs", tier.pick(400_000, 8_000_000), fs_case, check_fs);
    report.prop("repo", tier.pick(200_000, 4_000_000), repo_case, check_repo);
    report.prop("rel", tier.pick(150_000, 3_000_000), path_case, check_from_relative);
    report.prop("norm", tier.pick(150_000, 3_000_000), path_case, check_normalize);
    report.prop("relpath", tier.pick(60_000, 1_000_000), rel_case, check_relative);
}
