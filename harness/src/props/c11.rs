//! C11 Rewrites leave no orphans and references follow.
//!
//! Model-based check: a generated DAG with bookmarks and workspaces, a
//! generated set of rewrite / abandon / divergent-rewrite records (with chains)
//! is applied in one transaction, then `rebase_descendants_with_options` runs
//! with generated options and an optional immutable set. The resulting view and
//! commit graph are compared with a model of the recorded mapping; ancestry is
//! BFS over commit objects, never the index.

use std::collections::BTreeMap;
use std::collections::BTreeSet;
use std::sync::Arc;

use jj_lib::backend::ChangeId;
use jj_lib::backend::CommitId;
use jj_lib::commit::Commit;
use jj_lib::op_store::RefTarget;
use jj_lib::ref_name::RefName;
use jj_lib::ref_name::WorkspaceNameBuf;
use jj_lib::repo::Repo as _;
use jj_lib::revset::ResolvedRevsetExpression;
use jj_lib::revset::RevsetExpression;
use jj_lib::rewrite::EmptyBehavior;
use jj_lib::rewrite::RebaseOptions;
use jj_lib::rewrite::RebasedCommit;
use jj_lib::rewrite::RewriteRefsOptions;
use jj_lib::rewrite::merge_commit_trees;
use pollster::FutureExt as _;
use proptest::prelude::*;
use serde::Deserialize;
use serde::Serialize;
use testutils::TestRepo;

use crate::engine::runner::CheckResult;
use crate::engine::runner::Outcome;
use crate::engine::runner::Report;
use crate::engine::runner::Violation;
use crate::engine::runner::pick;
use crate::ensure;
use crate::model::dag::BASE_TS;
use crate::model::dag::Dag;
use crate::model::dag::DagSpec;
use crate::model::dag::change_id;
use crate::model::dag::dag_spec;
use crate::model::dag::signature;
use crate::model::hist::CommitGraph;
use crate::model::hist::get_commit;
use crate::model::hist::pinned_settings;
use crate::model::hist::reclocked;
use crate::model::hist::repo_with;
use crate::model::hist::tree_with_file;

#[derive(Debug, Clone, Serialize, Deserialize)]
pub enum Rec {
    /// `rewrite_commit(target).write()`; optionally taking over the tree of a
    /// child (so that the child becomes empty when rebased).
    Rewrite { target: u16, sel: u8, take_child_tree: bool },
    /// `record_abandoned_commit(target)`.
    Abandon { target: u16, sel: u8 },
    /// `k` rewrites of the target + `set_divergent_rewrite`.
    Divergent { target: u16, sel: u8, k: u8 },
}

#[derive(Debug, Clone, Serialize, Deserialize)]
pub struct Case {
    pub dag: DagSpec,
    /// (bookmark number 0..4, target node)
    pub bookmarks: Vec<(u8, u16)>,
    /// conflicted bookmark: (add, add, remove)
    pub conflict: Option<(u16, u16, u16)>,
    /// working-copy commit of workspace i (non-root node)
    pub workspaces: Vec<u16>,
    pub records: Vec<Rec>,
    /// heads of the immutable set (ancestor-closed)
    pub immutable: Vec<u16>,
    /// 0 Keep, 1 AbandonNewlyEmpty, 2 AbandonAllEmpty
    pub empty: u8,
    pub delete_abandoned_bookmarks: bool,
    pub simplify_ancestor_merge: bool,
    /// Never generated (always false): do not skip records that lead into the
    /// known defect `c11-wc-chain-onto-root`. Used by the stored witness.
    #[serde(default)]
    pub allow_wc_chain_onto_root: bool,
    /// Never generated (always false): run cases with the configuration of the
    /// known defect `c11-chain-order` instead of skipping them. Used by the
    /// stored witness.
    #[serde(default)]
    pub allow_chain_order_hazard: bool,
}

fn rec() -> impl Strategy<Value = Rec> {
    let t = any::<u16>;
    // sel: 0,1 = any live commit; 2 = a commit created in this transaction
    // (chain); 3 = a child of a commit that already has a record
    prop_oneof![
        45 => (t(), 0u8..4, prop::bool::weighted(0.3))
            .prop_map(|(target, sel, take_child_tree)| Rec::Rewrite { target, sel, take_child_tree }),
        35 => (t(), 0u8..4).prop_map(|(target, sel)| Rec::Abandon { target, sel }),
        20 => (t(), 0u8..4, 2u8..=3).prop_map(|(target, sel, k)| Rec::Divergent { target, sel, k }),
    ]
}

pub fn case(max_nodes: usize) -> impl Strategy<Value = Case> {
    (
        dag_spec(1usize..=max_nodes, 3, 50),
        prop::collection::vec((0u8..4, any::<u16>()), 0..=5),
        prop::option::weighted(0.4, (any::<u16>(), any::<u16>(), any::<u16>())),
        prop::collection::vec(any::<u16>(), 1..=3),
        prop::collection::vec(rec(), 1..=6),
        prop_oneof![
            60 => Just(vec![]),
            40 => prop::collection::vec(any::<u16>(), 1..=2),
        ],
        (0u8..3, any::<bool>(), any::<bool>()),
    )
        .prop_map(
            |(dag, bookmarks, conflict, workspaces, records, immutable, (empty, del, simplify))| Case {
                dag,
                bookmarks,
                conflict,
                workspaces,
                records,
                immutable,
                empty,
                delete_abandoned_bookmarks: del,
                simplify_ancestor_merge: simplify,
                allow_wc_chain_onto_root: false,
                allow_chain_order_hazard: false,
            },
        )
}

#[derive(Debug, Clone)]
enum Record {
    Rewritten(CommitId),
    Abandoned(Vec<CommitId>),
    Divergent(Vec<CommitId>),
}

impl Record {
    fn new_ids(&self) -> &[CommitId] {
        match self {
            Self::Rewritten(id) => std::slice::from_ref(id),
            Self::Abandoned(ids) | Self::Divergent(ids) => ids,
        }
    }
}

/// The model of the recorded mapping.
#[derive(Default)]
struct Mapping {
    rec: BTreeMap<CommitId, Record>,
}

impl Mapping {
    /// Transitive resolution; divergent records are followed (references) or
    /// left in place (parents of rebased commits).
    fn resolve(&self, ids: &[CommitId], follow_divergent: bool) -> Vec<CommitId> {
        fn go(m: &Mapping, id: &CommitId, follow: bool, out: &mut Vec<CommitId>, depth: usize) {
            assert!(depth < 1000, "cycle in the model mapping");
            match m.rec.get(id) {
                None => {
                    if !out.contains(id) {
                        out.push(id.clone());
                    }
                }
                Some(Record::Divergent(_)) if !follow => {
                    if !out.contains(id) {
                        out.push(id.clone());
                    }
                }
                Some(r) => {
                    for n in r.new_ids() {
                        go(m, n, follow, out, depth + 1);
                    }
                }
            }
        }
        let mut out = vec![];
        for id in ids {
            go(self, id, follow_divergent, &mut out, 0);
        }
        out
    }

    fn is_strict_key(&self, id: &CommitId) -> bool {
        matches!(self.rec.get(id), Some(Record::Rewritten(_) | Record::Abandoned(_)))
    }

    fn is_divergent_key(&self, id: &CommitId) -> bool {
        matches!(self.rec.get(id), Some(Record::Divergent(_)))
    }
}

/// Known defect found by this check: `update_wc_commits` panics with
/// "unexpected error: RewriteRootCommit" when a workspace's working-copy commit
/// X has a record other than "abandoned" (rewritten / divergent) and the
/// transitive mapping of X starts with the root commit (X -> X', X' abandoned
/// or emptied onto the root): `edit(root)` is refused and the error arm panics.
const KNOWN_WC_CHAIN: &str = "c11-wc-chain-onto-root";

/// Known defect found by this check: `order_commits_for_rebase` looks only one
/// hop into the rewrite mapping when it orders the commits to rebase. If a
/// commit C has a parent K whose mapping needs two or more hops
/// (K -> M -> F, e.g. a rewrite of a rewrite, or a rewrite that is then
/// abandoned) and the final commit F is itself rebased in the same pass
/// (one of F's ancestors was rewritten), C can be rebased first, onto the
/// not-yet-rebased F; F is then rewritten and C's new version stays on the old
/// F: a visible commit descends from a rewritten commit.
const KNOWN_CHAIN_ORDER: &str = "c11-chain-order";

/// Model predicate for the configuration of `KNOWN_CHAIN_ORDER`.
fn chain_order_hazard(
    all: &[Commit],
    mapping: &Mapping,
    immutable: &BTreeSet<CommitId>,
) -> bool {
    let parents: BTreeMap<&CommitId, &[CommitId]> =
        all.iter().map(|c| (c.id(), c.parent_ids())).collect();
    // strict descendants of any commit with a record
    fn below_key<'a>(
        x: &'a CommitId,
        parents: &BTreeMap<&'a CommitId, &'a [CommitId]>,
        mapping: &Mapping,
        memo: &mut BTreeMap<&'a CommitId, bool>,
    ) -> bool {
        if let Some(v) = memo.get(x) {
            return *v;
        }
        let mut v = false;
        for p in parents.get(x).copied().unwrap_or(&[]) {
            if mapping.rec.contains_key(p) || below_key(p, parents, mapping, memo) {
                v = true;
                break;
            }
        }
        memo.insert(x, v);
        v
    }
    let mut memo_below = BTreeMap::new();
    let mut to_visit: BTreeSet<&CommitId> = BTreeSet::new();
    for c in all {
        let id = c.id();
        if !mapping.rec.contains_key(id)
            && !immutable.contains(id)
            && below_key(id, &parents, mapping, &mut memo_below)
        {
            to_visit.insert(id);
        }
    }
    // commits whose parents change in this pass
    fn will_change<'a>(
        x: &'a CommitId,
        parents: &BTreeMap<&'a CommitId, &'a [CommitId]>,
        mapping: &Mapping,
        to_visit: &BTreeSet<&'a CommitId>,
        memo: &mut BTreeMap<&'a CommitId, bool>,
    ) -> bool {
        if !to_visit.contains(x) {
            return false;
        }
        if let Some(v) = memo.get(x) {
            return *v;
        }
        let mut v = false;
        for p in parents.get(x).copied().unwrap_or(&[]) {
            if mapping.is_strict_key(p) || will_change(p, parents, mapping, to_visit, memo) {
                v = true;
                break;
            }
        }
        memo.insert(x, v);
        v
    }
    let mut memo_change = BTreeMap::new();
    for c in all {
        if !to_visit.contains(c.id()) {
            continue;
        }
        for k in c.parent_ids() {
            if !mapping.is_strict_key(k) {
                continue;
            }
            // finals of K reached over >= 2 hops (divergent records are not followed)
            let mut stack: Vec<(&CommitId, usize)> = vec![(k, 0)];
            while let Some((id, depth)) = stack.pop() {
                match mapping.rec.get(id) {
                    Some(r @ (Record::Rewritten(_) | Record::Abandoned(_))) => {
                        for n in r.new_ids() {
                            stack.push((n, depth + 1));
                        }
                    }
                    _ => {
                        if depth >= 2
                            && parents.contains_key(id)
                            && will_change(id, &parents, mapping, &to_visit, &mut memo_change)
                        {
                            return true;
                        }
                    }
                }
            }
        }
    }
    false
}

fn err(ctx: &str, e: impl std::fmt::Display) -> Violation {
    Violation::new(format!("unexpected error from {ctx}: {e}"))
}

fn bookmark_name(n: u8) -> String {
    format!("b{n}")
}

fn ws_name(n: usize) -> WorkspaceNameBuf {
    WorkspaceNameBuf::from(format!("ws{n}"))
}

struct PoolEntry {
    commit: Commit,
    recorded: bool,
    created_here: bool,
}

fn check(case: &Case) -> CheckResult {
    let settings = pinned_settings(BASE_TS, 5);
    let test_repo = TestRepo::init_with_settings(&settings);
    let repo0 = test_repo.repo.clone();
    let store = repo0.store().clone();
    let root_id = store.root_commit_id().clone();
    let dag = Dag::from_spec(&case.dag);
    let n = dag.len();
    let children = dag.children();

    // ---- setup transaction: DAG, bookmarks, workspaces
    let mut tx = repo0.start_transaction();
    let mut nodes: Vec<Commit> = vec![store.root_commit()];
    for i in 1..n {
        let parents: Vec<Commit> = dag.parents[i].iter().map(|p| nodes[*p].clone()).collect();
        let mut tree = merge_commit_trees(tx.repo(), &parents)
            .block_on()
            .map_err(|e| err("merge_commit_trees", e))?;
        if case.dag.nodes[i - 1].aux % 4 != 0 {
            tree = tree_with_file(&store, tree, &format!("f{i}"), &format!("{i}\n"));
        }
        let sig = signature(BASE_TS + 1000 * i as i64);
        let c = tx
            .repo_mut()
            .new_commit(parents.iter().map(|p| p.id().clone()).collect(), tree)
            .set_change_id(change_id(i as u64))
            .set_description(format!("c{i}"))
            .set_author(sig.clone())
            .set_committer(sig)
            .write()
            .block_on()
            .map_err(|e| err("new_commit().write()", e))?;
        nodes.push(c);
    }
    let mut old_bookmarks: BTreeMap<String, RefTarget> = BTreeMap::new();
    for (name, target) in &case.bookmarks {
        let c = &nodes[pick(*target, n)];
        old_bookmarks.insert(bookmark_name(*name), RefTarget::normal(c.id().clone()));
    }
    if let Some((a, b, base)) = &case.conflict
        && n >= 3
    {
        // two different non-root adds
        let ia = 1 + pick(*a, n - 1);
        let mut ib = 1 + pick(*b, n - 2);
        if ib >= ia {
            ib += 1;
        }
        let ibase = pick(*base, n);
        old_bookmarks.insert(
            "bc".to_string(),
            RefTarget::from_legacy_form(
                [nodes[ibase].id().clone()],
                [nodes[ia].id().clone(), nodes[ib].id().clone()],
            ),
        );
    }
    for (name, target) in &old_bookmarks {
        tx.repo_mut()
            .set_local_bookmark_target(RefName::new(name), target.clone());
    }
    let mut old_wcs: BTreeMap<WorkspaceNameBuf, CommitId> = BTreeMap::new();
    for (i, target) in case.workspaces.iter().enumerate() {
        let c = &nodes[1 + pick(*target, n - 1)];
        tx.repo_mut()
            .edit(ws_name(i), c)
            .block_on()
            .map_err(|e| err("edit (setup)", e))?;
        old_wcs.insert(ws_name(i), c.id().clone());
    }
    ensure!(!tx.repo().has_rewrites(), "setup recorded rewrites");
    let repo1 = tx
        .commit("setup")
        .block_on()
        .map_err(|e| err("Transaction::commit (setup)", e))?;

    // immutable set: ancestors of the chosen heads in the model DAG
    let immutable_nodes: BTreeSet<usize> =
        dag.ancestors(case.immutable.iter().map(|raw| pick(*raw, n)));
    let immutable_ids: BTreeSet<CommitId> = immutable_nodes
        .iter()
        .map(|i| nodes[*i].id().clone())
        .collect();
    let immutable_expr: Arc<ResolvedRevsetExpression> =
        RevsetExpression::commits(immutable_ids.iter().cloned().collect());

    // ---- the transaction under test (later clock than the setup)
    let repo1 = repo_with(&repo1, reclocked(&settings, BASE_TS + 50_000_000))?;
    let mut tx = repo1.start_transaction();
    let mut pool: Vec<PoolEntry> = nodes[1..]
        .iter()
        .map(|c| PoolEntry { commit: c.clone(), recorded: false, created_here: false })
        .collect();
    let mut mapping = Mapping::default();
    let mut explicit_rewrites: Vec<(Commit, Commit)> = vec![]; // (old, new)
    let mut counter = 0u64;
    let mut chain = false;
    let mut abandoned_merge = false;
    let mut divergent = false;
    let mut child_of_recorded = false;
    let mut took_child_tree = false;
    let mut excluded_known = 0u32;
    for r in &case.records {
        let (target, sel) = match r {
            Rec::Rewrite { target, sel, .. } | Rec::Abandon { target, sel } | Rec::Divergent { target, sel, .. } => {
                (*target, *sel)
            }
        };
        let live: Vec<usize> = (0..pool.len()).filter(|i| !pool[*i].recorded).collect();
        let preferred: Vec<usize> = match sel {
            2 => live.iter().copied().filter(|i| pool[*i].created_here).collect(),
            3 => live
                .iter()
                .copied()
                .filter(|i| {
                    pool[*i]
                        .commit
                        .parent_ids()
                        .iter()
                        .any(|p| mapping.rec.contains_key(p))
                })
                .collect(),
            _ => vec![],
        };
        let candidates = if preferred.is_empty() { &live } else { &preferred };
        if candidates.is_empty() {
            continue;
        }
        let idx = candidates[pick(target, candidates.len())];
        let c = pool[idx].commit.clone();
        if matches!(r, Rec::Abandon { .. }) && !case.allow_wc_chain_onto_root {
            // Known defect (see KNOWN_WC_CHAIN): a working copy on a commit whose
            // record is not "abandoned" but whose transitive mapping starts with
            // the root commit makes update_wc_commits panic. Excluded by construction.
            mapping
                .rec
                .insert(c.id().clone(), Record::Abandoned(c.parent_ids().to_vec()));
            let hits = old_wcs.values().any(|x| {
                matches!(mapping.rec.get(x), Some(Record::Rewritten(_) | Record::Divergent(_)))
                    && mapping.resolve(std::slice::from_ref(x), true).first() == Some(&root_id)
            });
            mapping.rec.remove(c.id());
            if hits {
                excluded_known += 1;
                continue;
            }
        }
        pool[idx].recorded = true;
        chain |= pool[idx].created_here;
        child_of_recorded |= c.parent_ids().iter().any(|p| mapping.rec.contains_key(p));
        match r {
            Rec::Rewrite { take_child_tree, .. } => {
                counter += 1;
                let sig = signature(BASE_TS + 60_000_000 + 1000 * counter as i64);
                let mut builder = tx
                    .repo_mut()
                    .rewrite_commit(&c)
                    .set_description(format!("{} r{counter}", c.description()))
                    .set_committer(sig);
                if *take_child_tree
                    && let Some(node) = nodes.iter().position(|x| x.id() == c.id())
                    && let Some(child) = children[node].first()
                {
                    builder = builder.set_tree(nodes[*child].tree());
                    took_child_tree = true;
                }
                let new = builder
                    .write()
                    .block_on()
                    .map_err(|e| err("rewrite_commit().write()", e))?;
                mapping.rec.insert(c.id().clone(), Record::Rewritten(new.id().clone()));
                explicit_rewrites.push((c.clone(), new.clone()));
                pool.push(PoolEntry { commit: new, recorded: false, created_here: true });
            }
            Rec::Abandon { .. } => {
                tx.repo_mut().record_abandoned_commit(&c);
                abandoned_merge |= c.parent_ids().len() > 1;
                mapping
                    .rec
                    .insert(c.id().clone(), Record::Abandoned(c.parent_ids().to_vec()));
            }
            Rec::Divergent { k, .. } => {
                let mut new_ids = vec![];
                for _ in 0..*k {
                    counter += 1;
                    let sig = signature(BASE_TS + 60_000_000 + 1000 * counter as i64);
                    let new = tx
                        .repo_mut()
                        .rewrite_commit(&c)
                        .set_description(format!("{} d{counter}", c.description()))
                        .set_committer(sig)
                        .write()
                        .block_on()
                        .map_err(|e| err("rewrite_commit().write() (divergent)", e))?;
                    new_ids.push(new.id().clone());
                    explicit_rewrites.push((c.clone(), new.clone()));
                    pool.push(PoolEntry { commit: new, recorded: false, created_here: true });
                }
                tx.repo_mut()
                    .set_divergent_rewrite(c.id().clone(), new_ids.clone());
                mapping.rec.insert(c.id().clone(), Record::Divergent(new_ids));
                divergent = true;
            }
        }
    }
    if mapping.rec.is_empty() {
        return Ok(Outcome::trivial().class("no-record-applied"));
    }
    let explicit_keys: BTreeSet<CommitId> = mapping.rec.keys().cloned().collect();
    let all_commits: Vec<Commit> = nodes[1..]
        .iter()
        .cloned()
        .chain(pool.iter().filter(|e| e.created_here).map(|e| e.commit.clone()))
        .collect();
    let hazard = chain_order_hazard(&all_commits, &mapping, &immutable_ids);
    if hazard && !case.allow_chain_order_hazard {
        return Ok(Outcome::trivial().class("excluded: 2-hop mapping onto a commit that is itself rebased (known defect)"));
    }

    let options = RebaseOptions {
        empty: match case.empty {
            0 => EmptyBehavior::Keep,
            1 => EmptyBehavior::AbandonNewlyEmpty,
            _ => EmptyBehavior::AbandonAllEmpty,
        },
        rewrite_refs: RewriteRefsOptions {
            delete_abandoned_bookmarks: case.delete_abandoned_bookmarks,
        },
        simplify_ancestor_merge: case.simplify_ancestor_merge,
    };
    let mut reported: Vec<(Commit, RebasedCommit)> = vec![];
    crate::engine::runner::catch(|| {
        tx.repo_mut()
            .rebase_descendants_with_options(&immutable_expr, &options, |old, rebased| {
                reported.push((old, rebased));
            })
            .block_on()
            .map_err(|e| err("rebase_descendants_with_options", e))
    })
    .map_err(|v| {
        if v.msg.contains("unexpected error: RewriteRootCommit") {
            Violation::known(KNOWN_WC_CHAIN, v.msg)
        } else {
            v
        }
    })?;
    ensure!(
        !tx.repo().has_rewrites(),
        "rebase_descendants_with_options left recorded rewrites behind"
    );
    let mut rebased_new: Vec<(Commit, Commit)> = vec![];
    let mut emptied = 0usize;
    for (old, rebased) in &reported {
        ensure!(
            !explicit_keys.contains(old.id()),
            "commit {} has a rewrite record and was rebased as a descendant as well",
            old.id()
        );
        ensure!(
            !immutable_ids.contains(old.id()),
            "immutable commit {} was rebased",
            old.id()
        );
        let record = match rebased {
            RebasedCommit::Rewritten(new) => {
                rebased_new.push((old.clone(), new.clone()));
                Record::Rewritten(new.id().clone())
            }
            RebasedCommit::Abandoned { parent_id } => {
                emptied += 1;
                Record::Abandoned(vec![parent_id.clone()])
            }
        };
        ensure!(
            mapping.rec.insert(old.id().clone(), record).is_none(),
            "commit {} was reported as rebased twice",
            old.id()
        );
    }
    let repo2 = tx
        .commit("rewrite")
        .block_on()
        .map_err(|e| err("Transaction::commit", e))?;
    let view = repo2.view();
    let mut graph = CommitGraph::default();
    graph.ensure(&store, view.heads())?;
    let heads: BTreeSet<CommitId> = view.heads().iter().cloned().collect();
    let visible = graph.ancestors(&heads);

    // (1) no visible commit descends from a rewritten/abandoned commit, except
    // behind an immutable commit or behind a commit with a recorded divergence
    let anchored = |id: &CommitId| immutable_ids.contains(id) || mapping.is_divergent_key(id);
    let open = graph.ancestors_until(&heads, anchored);
    for id in &open {
        if mapping.is_strict_key(id) {
            let msg = format!(
                "orphan: {} ({:?}) is still reachable from the visible heads although it was {:?} \
                 (no immutable commit or recorded divergence in between)",
                id,
                get_commit(&store, id)?.description(),
                mapping.rec[id]
            );
            return Err(if hazard {
                Violation::known(KNOWN_CHAIN_ORDER, msg)
            } else {
                Violation::new(msg)
            });
        }
    }
    // nothing is lost: untouched commits and every new commit stay visible
    for c in &nodes[1..] {
        if !mapping.rec.contains_key(c.id()) {
            ensure!(visible.contains(c.id()), "commit {} ({}) has no record but is no longer visible", c.id(), c.description());
        }
    }
    for e in pool.iter().filter(|e| e.created_here) {
        if !mapping.rec.contains_key(e.commit.id()) {
            ensure!(
                visible.contains(e.commit.id()),
                "rewritten commit {} ({}) is not visible",
                e.commit.id(),
                e.commit.description()
            );
        }
    }

    // (2) rebased commits: identity, parents, predecessor
    let op = repo2.operation();
    for (old, new) in &rebased_new {
        ensure!(visible.contains(new.id()), "rebased commit {} is not visible", new.id());
        ensure!(
            new.change_id() == old.change_id(),
            "rebased commit {} changed its change id ({} -> {})",
            old.id(),
            old.change_id(),
            new.change_id()
        );
        ensure!(
            new.description() == old.description(),
            "rebased commit {} changed its description: {:?} -> {:?}",
            old.id(),
            old.description(),
            new.description()
        );
        let mut expected = mapping.resolve(old.parent_ids(), false);
        if case.simplify_ancestor_merge && expected.len() > 1 {
            graph.ensure(&store, &expected)?;
            let all = expected.clone();
            expected.retain(|p| !all.iter().any(|q| q != p && graph.proper_ancestors(q).contains(p)));
        }
        ensure!(
            new.parent_ids() == expected.as_slice(),
            "rebased commit {} ({}) has parents {:?}; the recorded mapping of its old parents {:?} gives {:?}",
            new.id(),
            new.description(),
            new.parent_ids(),
            old.parent_ids(),
            expected
        );
        let preds = op.predecessors_for_commit(new.id());
        ensure!(
            preds.is_some_and(|p| p.contains(old.id())),
            "operation records predecessors {:?} for rebased commit {}, expected to contain {}",
            preds,
            new.id(),
            old.id()
        );
    }
    for (old, new) in &explicit_rewrites {
        let preds = op.predecessors_for_commit(new.id());
        ensure!(
            preds.is_some_and(|p| p.contains(old.id())),
            "operation records predecessors {:?} for rewritten commit {}, expected to contain {}",
            preds,
            new.id(),
            old.id()
        );
    }

    // (3) bookmarks
    let mut bookmark_moved = false;
    let mut bookmark_deleted = false;
    for (name, old_target) in &old_bookmarks {
        let new_target = view.get_local_bookmark(RefName::new(name));
        let new_adds: BTreeSet<CommitId> = new_target.added_ids().cloned().collect();
        for id in &new_adds {
            ensure!(visible.contains(id), "bookmark {name} points at {id}, which is not visible");
        }
        if let Some(x) = old_target.as_normal() {
            match mapping.rec.get(x) {
                None => ensure!(
                    new_target == old_target,
                    "bookmark {name} on untouched commit {x} changed to {new_target:?}"
                ),
                Some(Record::Abandoned(_)) if case.delete_abandoned_bookmarks => {
                    bookmark_deleted = true;
                    ensure!(
                        new_target.is_absent(),
                        "bookmark {name} pointed at abandoned commit {x} and delete_abandoned_bookmarks is set, but it is now {new_target:?}"
                    );
                }
                Some(_) => {
                    bookmark_moved = true;
                    let expected: BTreeSet<CommitId> =
                        mapping.resolve(std::slice::from_ref(x), true).into_iter().collect();
                    ensure!(
                        new_adds == expected,
                        "bookmark {name} pointed at {x} ({:?}); now adds {new_adds:?}, the recorded mapping gives {expected:?}",
                        mapping.rec[x]
                    );
                }
            }
        } else {
            let mut allowed: BTreeSet<CommitId> = BTreeSet::new();
            for x in old_target.added_ids() {
                allowed.extend(mapping.resolve(std::slice::from_ref(x), true));
            }
            ensure!(
                new_adds.is_subset(&allowed),
                "conflicted bookmark {name} {old_target:?} now adds {new_adds:?}, allowed {allowed:?}"
            );
            if !case.delete_abandoned_bookmarks {
                ensure!(!new_adds.is_empty(), "conflicted bookmark {name} {old_target:?} lost all its targets");
            }
        }
    }
    for (name, _) in view.local_bookmarks() {
        ensure!(
            old_bookmarks.contains_key(name.as_str()),
            "bookmark {} appeared from nowhere",
            name.as_str()
        );
    }

    // (4) working copies
    let known_ids: BTreeSet<CommitId> = nodes
        .iter()
        .map(|c| c.id().clone())
        .chain(pool.iter().map(|e| e.commit.id().clone()))
        .chain(rebased_new.iter().map(|(_, new)| new.id().clone()))
        .collect();
    let mut recreated: BTreeMap<CommitId, CommitId> = BTreeMap::new();
    let mut wc_moved = false;
    let mut wc_recreated = false;
    for (ws, x) in &old_wcs {
        let Some(new_wc) = view.get_wc_commit_id(ws) else {
            return Err(Violation::new(format!("workspace {} disappeared", ws.as_str())));
        };
        ensure!(visible.contains(new_wc), "working-copy commit {new_wc} of {} is not visible", ws.as_str());
        match mapping.rec.get(x) {
            None => ensure!(new_wc == x, "workspace {} on untouched commit {x} moved to {new_wc}", ws.as_str()),
            Some(Record::Abandoned(_)) => {
                wc_recreated = true;
                let expected_parents = mapping.resolve(std::slice::from_ref(x), true);
                ensure!(
                    !known_ids.contains(new_wc),
                    "workspace {} was on abandoned commit {x}; expected a new commit on top of {expected_parents:?}, got existing commit {new_wc}",
                    ws.as_str()
                );
                let c = get_commit(&store, new_wc)?;
                ensure!(
                    c.parent_ids() == expected_parents.as_slice(),
                    "workspace {} was on abandoned commit {x}; new working-copy commit has parents {:?}, expected {expected_parents:?}",
                    ws.as_str(),
                    c.parent_ids()
                );
                let shared = recreated.entry(x.clone()).or_insert_with(|| new_wc.clone());
                ensure!(
                    shared == new_wc,
                    "workspaces on the same abandoned commit {x} got different new commits {shared} / {new_wc}"
                );
            }
            Some(_) => {
                wc_moved = true;
                let expected = mapping.resolve(std::slice::from_ref(x), true);
                ensure!(
                    Some(new_wc) == expected.first(),
                    "workspace {} was on {x} ({:?}); now on {new_wc}, expected {:?} (first of {expected:?})",
                    ws.as_str(),
                    mapping.rec[x],
                    expected.first()
                );
            }
        }
    }
    ensure!(
        view.wc_commit_ids().len() == old_wcs.len(),
        "number of workspaces changed: {:?}",
        view.wc_commit_ids()
    );

    // (5) change ids unique among visible commits, except recorded divergence
    // and old versions kept alive behind immutable commits / divergence
    let divergent_changes: BTreeSet<ChangeId> = mapping
        .rec
        .iter()
        .filter(|(_, r)| matches!(r, Record::Divergent(_)))
        .map(|(id, _)| get_commit(&store, id).map(|c| c.change_id().clone()))
        .collect::<Result<_, _>>()?;
    let mut by_change: BTreeMap<ChangeId, Vec<CommitId>> = BTreeMap::new();
    for id in &visible {
        if id == &root_id || mapping.rec.contains_key(id) {
            continue;
        }
        let c = get_commit(&store, id)?;
        by_change.entry(c.change_id().clone()).or_default().push(id.clone());
    }
    for (change, ids) in &by_change {
        ensure!(
            ids.len() == 1 || divergent_changes.contains(change),
            "visible commits {ids:?} share change id {change} without a recorded divergent rewrite"
        );
    }

    let immutable_kept = visible
        .iter()
        .any(|id| mapping.is_strict_key(id));
    let nontrivial = chain || abandoned_merge || divergent;
    Ok(Outcome::new(nontrivial)
        .class_if(chain, "chain (record on a commit created in the tx)")
        .class_if(child_of_recorded, "record on child of recorded commit")
        .class_if(abandoned_merge, "abandoned-merge")
        .class_if(divergent, "divergent-record")
        .class_if(!rebased_new.is_empty(), "descendants-rebased")
        .class_if(rebased_new.len() >= 4, "descendants-rebased>=4")
        .class_if(emptied > 0, "descendant-abandoned-as-empty")
        .class_if(took_child_tree, "took-child-tree")
        .class_if(!immutable_ids.is_empty() && immutable_ids.len() > 1, "immutable-set")
        .class_if(immutable_kept, "old-version-kept-visible-by-anchor")
        .class_if(bookmark_moved, "bookmark-moved")
        .class_if(bookmark_deleted, "bookmark-deleted")
        .class_if(old_bookmarks.contains_key("bc"), "conflicted-bookmark")
        .class_if(wc_moved, "wc-moved")
        .class_if(wc_recreated, "wc-recreated")
        .class_if(case.simplify_ancestor_merge, "simplify-ancestor-merge")
        .class_if(excluded_known > 0, "excluded: wc chain onto root (known defect)"))
}

pub fn run(report: &mut Report) {
    report.set_rule(
        "case = model DAG (1..15 commits, unique change ids, ~3/4 with an own file) + up to 5 normal \
         bookmarks + optional conflicted bookmark + 1..3 workspaces + 1..6 records (rewrite, abandon, \
         divergent rewrite to 2-3 commits; each commit gets at most one record; records may target \
         commits created earlier in the same transaction or children of recorded commits) + optional \
         ancestor-closed immutable set + EmptyBehavior x delete_abandoned_bookmarks x \
         simplify_ancestor_merge; then rebase_descendants_with_options and commit. Oracle = model of \
         the transitive mapping (explicit records + what the progress callback reported), ancestry by \
         BFS over commit objects. non-trivial = a chain (record on a commit created in the same \
         transaction), an abandoned merge commit, or a divergent record.",
    );
    report.assume("which descendants are abandoned as empty is taken from the progress callback, not predicted (tree contents are C08's subject)");
    report.assume("every commit gets at most one record per transaction and the immutable set is ancestor-closed, as with real callers");
    let cases = report.tier.pick(300, 15_000);
    report.prop("rewrites", cases, || case(15), check);
}
