//! C16 Operations and views round-trip and are content-addressed.
//!
//! Sub-checks
//! * `view_roundtrip` – views built through the `View` API from a random edit
//!   script are written to a `SimpleOpStore`, read back by a *fresh* store
//!   object on the same directory and compared; the id must be the same for a
//!   second write, for a structurally equal view that was constructed in a
//!   different order, and in a second store in another directory. The same
//!   file with the (jj >= 0.34) `remote_views` field stripped must decode through
//!   the legacy bookmark form to the same view minus what that form cannot
//!   express (remote tags, remotes without bookmarks).
//! * `op_roundtrip` – the same for operations.
//! * `view_enc_pairs` / `op_enc_pairs` – injectivity of the hashed encoding: the
//!   byte stream `ContentHash::hash` feeds into the digest is recorded with a
//!   recording `DigestUpdate`; for pairs (independent, rebuilt in another order,
//!   near-miss mutations) `enc(a) == enc(b) <=> a == b` and the same for the
//!   BLAKE2b ids.

use std::collections::BTreeMap;
use std::collections::HashSet;

use jj_lib::backend::CommitId;
use jj_lib::backend::MillisSinceEpoch;
use jj_lib::backend::Timestamp;
use jj_lib::content_hash::ContentHash;
use jj_lib::content_hash::DigestUpdate;
use jj_lib::content_hash::blake2b_hash;
use jj_lib::merge::Merge;
use jj_lib::object_id::ObjectId as _;
use jj_lib::op_store;
use jj_lib::op_store::OpStore as _;
use jj_lib::op_store::Operation;
use jj_lib::op_store::OperationId;
use jj_lib::op_store::OperationMetadata;
use jj_lib::op_store::RefTarget;
use jj_lib::op_store::RemoteRef;
use jj_lib::op_store::RemoteRefState;
use jj_lib::op_store::RemoteView;
use jj_lib::op_store::RootOperationData;
use jj_lib::op_store::TimestampRange;
use jj_lib::op_store::ViewId;
use jj_lib::ref_name::GitRefNameBuf;
use jj_lib::ref_name::RefName;
use jj_lib::ref_name::RefNameBuf;
use jj_lib::ref_name::RemoteName;
use jj_lib::ref_name::RemoteNameBuf;
use jj_lib::ref_name::RemoteRefSymbol;
use jj_lib::ref_name::WorkspaceName;
use jj_lib::ref_name::WorkspaceNameBuf;
use jj_lib::simple_op_store::SimpleOpStore;
use jj_lib::view::View;
use pollster::FutureExt as _;
use proptest::prelude::*;
use serde::Deserialize;
use serde::Serialize;

use crate::engine::runner::CheckResult;
use crate::engine::runner::Outcome;
use crate::engine::runner::Report;
use crate::engine::runner::Violation;
use crate::engine::runner::new_scratch_dir;
use crate::engine::runner::pick;
use crate::ensure;
use crate::ensure_eq;

// ---------------------------------------------------------------------------
// Recording digest
// ---------------------------------------------------------------------------

/// A `digest::Update` that keeps the bytes instead of hashing them.
#[derive(Default)]
pub struct Recorder(pub Vec<u8>);

impl DigestUpdate for Recorder {
    fn update(&mut self, data: &[u8]) {
        self.0.extend_from_slice(data);
    }
}

/// The exact byte stream that `blake2b_hash(x)` hashes.
pub fn hashed_encoding(x: &(impl ContentHash + ?Sized)) -> Vec<u8> {
    let mut rec = Recorder::default();
    x.hash(&mut rec);
    rec.0
}

// ---------------------------------------------------------------------------
// Case types
// ---------------------------------------------------------------------------

/// A commit id: 1..=3 bytes over a 3-letter alphabet, so that equal ids, ids
/// that are prefixes of one another and concatenation ambiguities are common.
pub type Id = Vec<u8>;

/// Odd-length term list of a ref target (`None` = absent term).
pub type Terms = Vec<Option<Id>>;

#[derive(Debug, Clone, Serialize, Deserialize)]
pub enum ViewOp {
    AddHead(Id),
    RemoveHead(u16),
    SetLocalBookmark(String, Terms),
    SetLocalTag(String, Terms),
    SetRemoteBookmark(String, String, Terms, bool),
    SetRemoteTag(String, String, Terms, bool),
    /// Present local + absent tracked remote of the same name.
    TrackAbsentBookmark(String, String, Terms),
    TrackAbsentTag(String, String, Terms),
    EnsureRemote(String),
    RemoveRemote(String),
    RenameRemote(String, String),
    SetGitRef(String, Terms),
    SetGitHead(String, Terms),
    SetWc(String, Id),
    RemoveWorkspace(String),
    RenameWorkspace(String, String),
}

#[derive(Debug, Clone, Serialize, Deserialize)]
pub struct ViewSpec {
    pub ops: Vec<ViewOp>,
}

#[derive(Debug, Clone, Serialize, Deserialize)]
pub struct TsSpec {
    pub millis: i64,
    pub tz: i32,
}

#[derive(Debug, Clone, Serialize, Deserialize)]
pub struct OpSpec {
    /// 64-byte ids are `[a; 32] ++ [b; 32]`.
    pub view_id: (u8, u8),
    pub parents: Vec<(u8, u8)>,
    pub start: TsSpec,
    pub end: TsSpec,
    pub description: String,
    pub hostname: String,
    pub username: String,
    pub is_snapshot: bool,
    pub workspace_name: Option<String>,
    pub attributes: Vec<(String, String)>,
    pub predecessors: Option<Vec<(Id, Vec<Id>)>>,
}

#[derive(Debug, Clone, Serialize, Deserialize)]
pub enum ViewMutation {
    MoveBookmarkToTag(u16),
    MoveTagToBookmark(u16),
    MoveRemoteBookmarkToTag(u16, u16),
    MoveRemoteTagToBookmark(u16, u16),
    MoveGitRefToGitHead(u16),
    MoveGitHeadToGitRef(u16),
    MoveGitHeadToWc(u16),
    MoveWcToGitHead(u16),
    MoveRemoteRefToOtherRemote(u16, u16, u16),
    SplitRemoteAndRefName(u16, u16),
    ToggleState(u16, u16),
    SwapTerms(u16, u16),
    TermAbsentVsEmptyId(u16, u16),
    DropEmptyRemote(u16),
    AddEmptyRemote(String),
    SplitHeadId(u16),
    AddAbsentLocalBookmark(String),
    MoveLocalToRemote(u16, u16),
}

#[derive(Debug, Clone, Serialize, Deserialize)]
pub enum OpMutation {
    SwapViewIdAndParent(u16),
    SplitDescriptionHostname,
    SplitHostnameUsername,
    SwapHostnameUsername,
    SplitAttr(u16),
    MoveAttrAcross(u16),
    WorkspaceNoneVsEmpty,
    PredecessorsNoneVsEmpty,
    MovePredecessor(u16),
    PredecessorToKey(u16),
    SwapStartEnd,
    SwapTz,
    ToggleSnapshot,
    DupParent(u16),
    DropParent(u16),
}

#[derive(Debug, Clone, Serialize, Deserialize)]
pub enum Second<S, M> {
    Independent(S),
    Rebuilt,
    Mutated(Vec<M>),
}

#[derive(Debug, Clone, Serialize, Deserialize)]
pub struct PairCase<S, M> {
    pub a: S,
    pub b: Second<S, M>,
}

// ---------------------------------------------------------------------------
// Generators
// ---------------------------------------------------------------------------

fn id_strategy() -> impl Strategy<Value = Id> {
    prop::collection::vec(0u8..3, 1..=3)
}

fn terms_strategy() -> impl Strategy<Value = Terms> {
    let term = || prop_oneof![3 => id_strategy().prop_map(Some), 1 => Just(None)];
    prop_oneof![
        5 => prop::collection::vec(term(), 1),
        3 => prop::collection::vec(term(), 3),
        1 => prop::collection::vec(term(), 5),
    ]
}

const REF_NAMES: &[&str] = &["a", "b", "ab", "", "a/b", "ü", "ba"];
const REMOTE_NAMES: &[&str] = &["a", "ab", "git", "", "b", "origin é"];
const WS_NAMES: &[&str] = &["default", "a", "", "ab", "w ü"];
const GIT_REF_NAMES: &[&str] = &["refs/heads/a", "refs/tags/a", "a", "", "default", "refs/remotes/a/b"];

fn sel(names: &'static [&'static str]) -> impl Strategy<Value = String> {
    prop::sample::select(names).prop_map(str::to_string)
}

fn view_op_strategy() -> impl Strategy<Value = ViewOp> {
    prop_oneof![
        3 => id_strategy().prop_map(ViewOp::AddHead),
        1 => any::<u16>().prop_map(ViewOp::RemoveHead),
        4 => (sel(REF_NAMES), terms_strategy()).prop_map(|(n, t)| ViewOp::SetLocalBookmark(n, t)),
        3 => (sel(REF_NAMES), terms_strategy()).prop_map(|(n, t)| ViewOp::SetLocalTag(n, t)),
        5 => (sel(REMOTE_NAMES), sel(REF_NAMES), terms_strategy(), any::<bool>())
            .prop_map(|(r, n, t, s)| ViewOp::SetRemoteBookmark(r, n, t, s)),
        4 => (sel(REMOTE_NAMES), sel(REF_NAMES), terms_strategy(), any::<bool>())
            .prop_map(|(r, n, t, s)| ViewOp::SetRemoteTag(r, n, t, s)),
        2 => (sel(REMOTE_NAMES), sel(REF_NAMES), terms_strategy())
            .prop_map(|(r, n, t)| ViewOp::TrackAbsentBookmark(r, n, t)),
        2 => (sel(REMOTE_NAMES), sel(REF_NAMES), terms_strategy())
            .prop_map(|(r, n, t)| ViewOp::TrackAbsentTag(r, n, t)),
        2 => sel(REMOTE_NAMES).prop_map(ViewOp::EnsureRemote),
        1 => sel(REMOTE_NAMES).prop_map(ViewOp::RemoveRemote),
        1 => (sel(REMOTE_NAMES), sel(REMOTE_NAMES)).prop_map(|(a, b)| ViewOp::RenameRemote(a, b)),
        3 => (sel(GIT_REF_NAMES), terms_strategy()).prop_map(|(n, t)| ViewOp::SetGitRef(n, t)),
        2 => (sel(WS_NAMES), terms_strategy()).prop_map(|(n, t)| ViewOp::SetGitHead(n, t)),
        3 => (sel(WS_NAMES), id_strategy()).prop_map(|(n, i)| ViewOp::SetWc(n, i)),
        1 => sel(WS_NAMES).prop_map(ViewOp::RemoveWorkspace),
        1 => (sel(WS_NAMES), sel(WS_NAMES)).prop_map(|(a, b)| ViewOp::RenameWorkspace(a, b)),
    ]
}

pub fn view_spec_strategy() -> impl Strategy<Value = ViewSpec> {
    prop::collection::vec(view_op_strategy(), 0..=14).prop_map(|ops| ViewSpec { ops })
}

fn small_string() -> impl Strategy<Value = String> {
    prop_oneof![
        4 => "[ab]{0,3}",
        1 => Just(String::new()),
        1 => prop::sample::select(vec!["é", "a\0b", "line1\nline2\n", "日本", " a ", "\u{feff}"])
            .prop_map(str::to_string),
        1 => "\\PC{0,6}",
    ]
}

fn ts_strategy() -> impl Strategy<Value = TsSpec> {
    let millis = prop_oneof![
        2 => -3000i64..3000,
        2 => 1_600_000_000_000i64..1_800_000_000_000,
        1 => -2_000_000_000_000i64..0,
        1 => any::<i64>(),
    ];
    let tz = prop_oneof![
        3 => -1439i32..=1439,
        1 => prop::sample::select(vec![0, 60, -60, 3600, i32::MIN, i32::MAX]),
    ];
    (millis, tz).prop_map(|(millis, tz)| TsSpec { millis, tz })
}

fn id64_strategy() -> impl Strategy<Value = (u8, u8)> {
    (0u8..3, 0u8..3)
}

pub fn op_spec_strategy() -> impl Strategy<Value = OpSpec> {
    let predecessors = prop_oneof![
        1 => Just(None),
        1 => Just(Some(vec![])),
        3 => prop::collection::vec(
            (id_strategy(), prop::collection::vec(id_strategy(), 0..=3)),
            1..=4
        )
        .prop_map(Some),
    ];
    (
        (
            id64_strategy(),
            prop::collection::vec(id64_strategy(), 1..=3),
            ts_strategy(),
            ts_strategy(),
        ),
        (small_string(), small_string(), small_string(), any::<bool>()),
        prop::option::weighted(0.6, prop_oneof![sel(WS_NAMES), small_string()]),
        prop::collection::vec((small_string(), small_string()), 0..=3),
        predecessors,
    )
        .prop_map(
            |(
                (view_id, parents, start, end),
                (description, hostname, username, is_snapshot),
                workspace_name,
                attributes,
                predecessors,
            )| OpSpec {
                view_id,
                parents,
                start,
                end,
                description,
                hostname,
                username,
                is_snapshot,
                workspace_name,
                attributes,
                predecessors,
            },
        )
}

fn view_mutation_strategy() -> impl Strategy<Value = ViewMutation> {
    use ViewMutation as M;
    let a = || any::<u16>();
    prop_oneof![
        a().prop_map(M::MoveBookmarkToTag),
        a().prop_map(M::MoveTagToBookmark),
        (a(), a()).prop_map(|(x, y)| M::MoveRemoteBookmarkToTag(x, y)),
        (a(), a()).prop_map(|(x, y)| M::MoveRemoteTagToBookmark(x, y)),
        a().prop_map(M::MoveGitRefToGitHead),
        a().prop_map(M::MoveGitHeadToGitRef),
        a().prop_map(M::MoveGitHeadToWc),
        a().prop_map(M::MoveWcToGitHead),
        (a(), a(), a()).prop_map(|(x, y, z)| M::MoveRemoteRefToOtherRemote(x, y, z)),
        (a(), a()).prop_map(|(x, y)| M::SplitRemoteAndRefName(x, y)),
        (a(), a()).prop_map(|(x, y)| M::ToggleState(x, y)),
        (a(), a()).prop_map(|(x, y)| M::SwapTerms(x, y)),
        (a(), a()).prop_map(|(x, y)| M::TermAbsentVsEmptyId(x, y)),
        a().prop_map(M::DropEmptyRemote),
        sel(REMOTE_NAMES).prop_map(M::AddEmptyRemote),
        a().prop_map(M::SplitHeadId),
        sel(REF_NAMES).prop_map(M::AddAbsentLocalBookmark),
        (a(), a()).prop_map(|(x, y)| M::MoveLocalToRemote(x, y)),
    ]
}

fn op_mutation_strategy() -> impl Strategy<Value = OpMutation> {
    use OpMutation as M;
    let a = || any::<u16>();
    prop_oneof![
        a().prop_map(M::SwapViewIdAndParent),
        Just(M::SplitDescriptionHostname),
        Just(M::SplitHostnameUsername),
        Just(M::SwapHostnameUsername),
        a().prop_map(M::SplitAttr),
        a().prop_map(M::MoveAttrAcross),
        Just(M::WorkspaceNoneVsEmpty),
        Just(M::PredecessorsNoneVsEmpty),
        a().prop_map(M::MovePredecessor),
        a().prop_map(M::PredecessorToKey),
        Just(M::SwapStartEnd),
        Just(M::SwapTz),
        Just(M::ToggleSnapshot),
        a().prop_map(M::DupParent),
        a().prop_map(M::DropParent),
    ]
}

fn pair_strategy<S, M, St>(
    make_spec: fn() -> St,
    mutation: impl Strategy<Value = M> + 'static,
) -> impl Strategy<Value = PairCase<S, M>>
where
    S: std::fmt::Debug + Clone + 'static,
    M: std::fmt::Debug + Clone + 'static,
    St: Strategy<Value = S> + 'static,
{
    let spec = make_spec();
    let second = prop_oneof![
        2 => make_spec().prop_map(Second::Independent),
        1 => Just(Second::Rebuilt),
        9 => prop::collection::vec(mutation, 1..=2).prop_map(Second::Mutated),
    ];
    (spec, second).prop_map(|(a, b)| PairCase { a, b })
}

// ---------------------------------------------------------------------------
// Building values
// ---------------------------------------------------------------------------

fn cid(id: &Id) -> CommitId {
    CommitId::new(id.clone())
}

fn target(terms: &Terms) -> RefTarget {
    let terms: Vec<Option<CommitId>> = terms.iter().map(|t| t.as_ref().map(cid)).collect();
    RefTarget::from_merge(Merge::from_vec(terms))
}

/// Makes a present target out of arbitrary terms (a single absent term becomes
/// a commit id).
fn present_target(terms: &Terms) -> RefTarget {
    let t = target(terms);
    if t.is_absent() {
        RefTarget::normal(CommitId::new(vec![1]))
    } else {
        t
    }
}

fn root_commit_id() -> CommitId {
    CommitId::new(vec![0; 4])
}

fn symbol<'a>(name: &'a str, remote: &'a str) -> RemoteRefSymbol<'a> {
    RemoteRefSymbol {
        name: RefName::new(name),
        remote: RemoteName::new(remote),
    }
}

fn state(tracked: bool) -> RemoteRefState {
    if tracked {
        RemoteRefState::Tracked
    } else {
        RemoteRefState::New
    }
}

/// Builds the view through the `View` API only.
pub fn build_view(spec: &ViewSpec) -> op_store::View {
    let mut view = View::new(op_store::View::make_root(root_commit_id()), false);
    for op in &spec.ops {
        match op {
            ViewOp::AddHead(id) => view.add_head(&cid(id)),
            ViewOp::RemoveHead(raw) => {
                let mut heads: Vec<CommitId> = view.heads().iter().cloned().collect();
                heads.sort();
                if !heads.is_empty() {
                    view.remove_head(&heads[pick(*raw, heads.len())]);
                }
            }
            ViewOp::SetLocalBookmark(n, t) => {
                view.set_local_bookmark_target(RefName::new(n), target(t));
            }
            ViewOp::SetLocalTag(n, t) => view.set_local_tag_target(RefName::new(n), target(t)),
            ViewOp::SetRemoteBookmark(r, n, t, tracked) => view.set_remote_bookmark(
                symbol(n, r),
                RemoteRef {
                    target: target(t),
                    state: state(*tracked),
                },
            ),
            ViewOp::SetRemoteTag(r, n, t, tracked) => view.set_remote_tag(
                symbol(n, r),
                RemoteRef {
                    target: target(t),
                    state: state(*tracked),
                },
            ),
            ViewOp::TrackAbsentBookmark(r, n, t) => {
                view.set_local_bookmark_target(RefName::new(n), present_target(t));
                view.set_remote_bookmark(
                    symbol(n, r),
                    RemoteRef {
                        target: RefTarget::absent(),
                        state: RemoteRefState::Tracked,
                    },
                );
            }
            ViewOp::TrackAbsentTag(r, n, t) => {
                view.set_local_tag_target(RefName::new(n), present_target(t));
                view.set_remote_tag(
                    symbol(n, r),
                    RemoteRef {
                        target: RefTarget::absent(),
                        state: RemoteRefState::Tracked,
                    },
                );
            }
            ViewOp::EnsureRemote(r) => view.ensure_remote(RemoteName::new(r)),
            ViewOp::RemoveRemote(r) => view.remove_remote(RemoteName::new(r)),
            ViewOp::RenameRemote(a, b) => {
                view.rename_remote(RemoteName::new(a), RemoteName::new(b));
            }
            ViewOp::SetGitRef(n, t) => {
                view.set_git_ref_target(GitRefNameBuf::from(n.as_str()).as_ref(), target(t));
            }
            ViewOp::SetGitHead(w, t) => view.set_git_head_target(WorkspaceName::new(w), target(t)),
            ViewOp::SetWc(w, id) => view.set_wc_commit(WorkspaceNameBuf::from(w.as_str()), cid(id)),
            ViewOp::RemoveWorkspace(w) => view.remove_workspace(WorkspaceName::new(w)),
            ViewOp::RenameWorkspace(a, b) => {
                // Legitimately fails if `a` is missing or `b` exists.
                view.rename_workspace(WorkspaceName::new(a), WorkspaceNameBuf::from(b.as_str()))
                    .ok();
            }
        }
    }
    view.store_view().clone()
}

/// Builds an equal view through the `View` API again, inserting everything in
/// the opposite order (and into differently sized hash sets).
pub fn rebuild_view(v: &op_store::View) -> op_store::View {
    let empty = op_store::View {
        head_ids: HashSet::with_capacity(64),
        local_bookmarks: BTreeMap::new(),
        local_tags: BTreeMap::new(),
        remote_views: BTreeMap::new(),
        git_refs: BTreeMap::new(),
        git_heads: BTreeMap::new(),
        wc_commit_ids: BTreeMap::new(),
    };
    let mut view = View::new(empty, false);
    for (name, id) in v.wc_commit_ids.iter().rev() {
        view.set_wc_commit(name.clone(), id.clone());
    }
    for (name, t) in v.git_heads.iter().rev() {
        view.set_git_head_target(name, t.clone());
    }
    for (name, t) in v.git_refs.iter().rev() {
        view.set_git_ref_target(name, t.clone());
    }
    for (name, t) in v.local_tags.iter().rev() {
        view.set_local_tag_target(name, t.clone());
    }
    for (name, t) in v.local_bookmarks.iter().rev() {
        view.set_local_bookmark_target(name, t.clone());
    }
    for (remote, rv) in v.remote_views.iter().rev() {
        view.ensure_remote(remote);
        for (name, r) in rv.tags.iter().rev() {
            view.set_remote_tag(name.to_remote_symbol(remote), r.clone());
        }
        for (name, r) in rv.bookmarks.iter().rev() {
            view.set_remote_bookmark(name.to_remote_symbol(remote), r.clone());
        }
    }
    let mut heads: Vec<&CommitId> = v.head_ids.iter().collect();
    heads.sort();
    for id in heads.into_iter().rev() {
        view.add_head(id);
    }
    view.store_view().clone()
}

fn id64((a, b): (u8, u8)) -> Vec<u8> {
    let mut v = vec![a; 32];
    v.extend(std::iter::repeat_n(b, 32));
    v
}

fn ts(t: &TsSpec) -> Timestamp {
    Timestamp {
        timestamp: MillisSinceEpoch(t.millis),
        tz_offset: t.tz,
    }
}

pub fn build_operation(spec: &OpSpec, reverse: bool) -> Operation {
    let mut attributes = BTreeMap::new();
    // Later duplicates win in forward order; keep that meaning when reversing.
    let mut attrs: Vec<(String, String)> = vec![];
    for (k, v) in &spec.attributes {
        attrs.retain(|(k2, _)| k2 != k);
        attrs.push((k.clone(), v.clone()));
    }
    if reverse {
        attrs.reverse();
    }
    for (k, v) in attrs {
        attributes.insert(k, v);
    }
    let commit_predecessors = spec.predecessors.as_ref().map(|entries| {
        let mut dedup: Vec<(CommitId, Vec<CommitId>)> = vec![];
        for (k, v) in entries {
            let k = cid(k);
            dedup.retain(|(k2, _)| *k2 != k);
            dedup.push((k, v.iter().map(cid).collect()));
        }
        if reverse {
            dedup.reverse();
        }
        dedup.into_iter().collect::<BTreeMap<_, _>>()
    });
    Operation {
        view_id: ViewId::new(id64(spec.view_id)),
        parents: spec
            .parents
            .iter()
            .map(|p| OperationId::new(id64(*p)))
            .collect(),
        metadata: OperationMetadata {
            time: TimestampRange {
                start: ts(&spec.start),
                end: ts(&spec.end),
            },
            description: spec.description.clone(),
            hostname: spec.hostname.clone(),
            username: spec.username.clone(),
            is_snapshot: spec.is_snapshot,
            workspace_name: spec
                .workspace_name
                .as_ref()
                .map(|w| WorkspaceNameBuf::from(w.as_str())),
            attributes,
        },
        commit_predecessors,
    }
}

// ---------------------------------------------------------------------------
// Classification
// ---------------------------------------------------------------------------

struct ViewStats {
    conflicted_absent_term: bool,
    tracked_absent_remote: bool,
    remotes: usize,
    empty_remote: bool,
    remote_tags: bool,
    conflicted: bool,
}

fn all_targets(v: &op_store::View) -> Vec<&RefTarget> {
    let mut out: Vec<&RefTarget> = vec![];
    out.extend(v.local_bookmarks.values());
    out.extend(v.local_tags.values());
    for rv in v.remote_views.values() {
        out.extend(rv.bookmarks.values().map(|r| &r.target));
        out.extend(rv.tags.values().map(|r| &r.target));
    }
    out.extend(v.git_refs.values());
    out.extend(v.git_heads.values());
    out
}

fn view_stats(v: &op_store::View) -> ViewStats {
    let targets = all_targets(v);
    let conflicted = targets.iter().any(|t| t.has_conflict());
    let conflicted_absent_term = targets
        .iter()
        .any(|t| t.has_conflict() && t.as_merge().iter().any(|x| x.is_none()));
    let tracked_absent_remote = v.remote_views.values().any(|rv| {
        rv.bookmarks
            .values()
            .chain(rv.tags.values())
            .any(|r| r.is_absent() && r.is_tracked())
    });
    ViewStats {
        conflicted_absent_term,
        tracked_absent_remote,
        remotes: v.remote_views.len(),
        empty_remote: v
            .remote_views
            .values()
            .any(|rv| rv.bookmarks.is_empty() && rv.tags.is_empty()),
        remote_tags: v.remote_views.values().any(|rv| !rv.tags.is_empty()),
        conflicted,
    }
}

fn view_nontrivial(s: &ViewStats) -> bool {
    s.conflicted_absent_term || s.tracked_absent_remote || s.remotes >= 2
}

fn op_nontrivial(op: &Operation) -> bool {
    op.parents.len() >= 2
        || op.commit_predecessors.as_ref().is_none_or(|m| !m.is_empty())
        || !op.metadata.attributes.is_empty()
}

// ---------------------------------------------------------------------------
// Protobuf helper: drop one top-level field from an encoded message
// ---------------------------------------------------------------------------

fn read_varint(buf: &[u8], pos: &mut usize) -> Option<u64> {
    let mut value = 0u64;
    let mut shift = 0;
    loop {
        let b = *buf.get(*pos)?;
        *pos += 1;
        if shift >= 64 {
            return None;
        }
        value |= u64::from(b & 0x7f) << shift;
        if b & 0x80 == 0 {
            return Some(value);
        }
        shift += 7;
    }
}

/// Returns the message without any top-level occurrence of `field`, and how
/// many occurrences were dropped. `None` if the buffer is not well-formed.
pub fn strip_top_level_field(buf: &[u8], field: u64) -> Option<(Vec<u8>, usize)> {
    let mut out = Vec::with_capacity(buf.len());
    let mut dropped = 0;
    let mut pos = 0;
    while pos < buf.len() {
        let start = pos;
        let key = read_varint(buf, &mut pos)?;
        match key & 7 {
            0 => {
                read_varint(buf, &mut pos)?;
            }
            1 => pos = pos.checked_add(8)?,
            2 => {
                let len = usize::try_from(read_varint(buf, &mut pos)?).ok()?;
                pos = pos.checked_add(len)?;
            }
            5 => pos = pos.checked_add(4)?,
            _ => return None,
        }
        if pos > buf.len() {
            return None;
        }
        if key >> 3 == field {
            dropped += 1;
        } else {
            out.extend_from_slice(&buf[start..pos]);
        }
    }
    Some((out, dropped))
}

// ---------------------------------------------------------------------------
// Round-trip checks
// ---------------------------------------------------------------------------

fn root_data() -> RootOperationData {
    RootOperationData {
        root_commit_id: root_commit_id(),
    }
}

fn store_err(what: &str, err: impl std::fmt::Display) -> Violation {
    Violation::new(format!("{what}: {err}"))
}

/// What a view looks like after going through the legacy bookmark form only.
fn legacy_expectation(v: &op_store::View) -> op_store::View {
    let mut expected = v.clone();
    expected.remote_views = v
        .remote_views
        .iter()
        .filter(|(_, rv)| !rv.bookmarks.is_empty())
        .map(|(name, rv)| {
            (
                name.clone(),
                RemoteView {
                    bookmarks: rv.bookmarks.clone(),
                    tags: BTreeMap::new(),
                },
            )
        })
        .collect();
    expected
}

const VIEW_PROTO_REMOTE_VIEWS_FIELD: u64 = 11;

fn check_view_roundtrip(spec: &ViewSpec) -> CheckResult {
    let view = build_view(spec);
    let dir = new_scratch_dir("c16v-");
    let dir2 = new_scratch_dir("c16w-");
    let store = SimpleOpStore::init(dir.path(), root_data())
        .map_err(|e| store_err("init op store", e))?;
    let id1 = store
        .write_view(&view)
        .block_on()
        .map_err(|e| store_err("write_view", e))?;

    // A view that is equal but was constructed in another order.
    let rebuilt = rebuild_view(&view);
    ensure_eq!(rebuilt, view, "rebuilding the view through the View API changed it");
    let id2 = store
        .write_view(&rebuilt)
        .block_on()
        .map_err(|e| store_err("second write_view", e))?;
    ensure_eq!(id1, id2, "id of an equal view built in another order differs");
    let id1b = store
        .write_view(&view)
        .block_on()
        .map_err(|e| store_err("repeated write_view", e))?;
    ensure_eq!(id1, id1b, "id changed between two writes of the same view");

    // Another store in another directory: the id depends only on the value.
    let store2 = SimpleOpStore::init(dir2.path(), root_data())
        .map_err(|e| store_err("init second op store", e))?;
    let id3 = store2
        .write_view(&view)
        .block_on()
        .map_err(|e| store_err("write_view in second store", e))?;
    ensure_eq!(id1, id3, "id differs between two stores");

    // Read back through a fresh store object on the same directory.
    let fresh = SimpleOpStore::load(dir.path(), root_data());
    let back = fresh
        .read_view(&id1)
        .block_on()
        .map_err(|e| store_err("read_view", e))?;
    ensure_eq!(back, view, "read_view(write_view(v)) != v");
    ensure_eq!(
        hashed_encoding(&back),
        hashed_encoding(&view),
        "hashed encoding changed over the round trip"
    );
    let back2 = store2
        .read_view(&id3)
        .block_on()
        .map_err(|e| store_err("read_view from second store", e))?;
    ensure_eq!(back2, view, "read_view from second store != v");

    // The same file as a jj < 0.34 reader/writer would see it: only the legacy
    // bookmark form is present.
    let path = dir.path().join("views").join(id1.hex());
    let bytes = std::fs::read(&path).map_err(|e| store_err("read view file", e))?;
    let (legacy_bytes, dropped) = strip_top_level_field(&bytes, VIEW_PROTO_REMOTE_VIEWS_FIELD)
        .ok_or_else(|| Violation::new("view file is not a well-formed protobuf message"))?;
    ensure_eq!(
        dropped,
        view.remote_views.len(),
        "number of remote_views entries in the file"
    );
    let legacy_id = ViewId::new(vec![0xee; 64]);
    std::fs::write(dir.path().join("views").join(legacy_id.hex()), legacy_bytes)
        .map_err(|e| store_err("write legacy view file", e))?;
    let legacy_back = fresh
        .read_view(&legacy_id)
        .block_on()
        .map_err(|e| store_err("read_view of legacy-form file", e))?;
    ensure_eq!(
        legacy_back,
        legacy_expectation(&view),
        "legacy bookmark form decodes to a different view"
    );

    let s = view_stats(&view);
    Ok(Outcome::new(view_nontrivial(&s))
        .class_if(s.conflicted_absent_term, "view:conflicted_target_with_absent_term")
        .class_if(s.tracked_absent_remote, "view:tracked_absent_remote_ref")
        .class_if(s.remotes >= 2, "view:remotes>=2")
        .class_if(s.empty_remote, "view:empty_remote")
        .class_if(s.remote_tags, "view:remote_tags")
        .class_if(s.conflicted, "view:conflicted_target")
        .class_if(!view.git_heads.is_empty(), "view:git_heads")
        .class_if(view.wc_commit_ids.keys().any(|k| k.as_str().is_empty()), "view:empty_workspace_name")
        .class_if(view.head_ids.is_empty(), "view:no_heads")
        .class_if(
            s.remotes > 0 && view.remote_views.values().all(|rv| rv.bookmarks.is_empty()),
            "view:legacy_form_loses_all_remotes",
        ))
}

fn check_op_roundtrip(spec: &OpSpec) -> CheckResult {
    let op = build_operation(spec, false);
    let dir = new_scratch_dir("c16o-");
    let dir2 = new_scratch_dir("c16p-");
    let store = SimpleOpStore::init(dir.path(), root_data())
        .map_err(|e| store_err("init op store", e))?;
    let id1 = store
        .write_operation(&op)
        .block_on()
        .map_err(|e| store_err("write_operation", e))?;
    let rebuilt = build_operation(spec, true);
    ensure_eq!(rebuilt, op, "building the operation in another order changed it");
    let id2 = store
        .write_operation(&rebuilt)
        .block_on()
        .map_err(|e| store_err("second write_operation", e))?;
    ensure_eq!(id1, id2, "id of an equal operation built in another order differs");
    let store2 = SimpleOpStore::init(dir2.path(), root_data())
        .map_err(|e| store_err("init second op store", e))?;
    let id3 = store2
        .write_operation(&op)
        .block_on()
        .map_err(|e| store_err("write_operation in second store", e))?;
    ensure_eq!(id1, id3, "id differs between two stores");
    let fresh = SimpleOpStore::load(dir.path(), root_data());
    let back = fresh
        .read_operation(&id1)
        .block_on()
        .map_err(|e| store_err("read_operation", e))?;
    ensure_eq!(back, op, "read_operation(write_operation(o)) != o");
    ensure_eq!(
        hashed_encoding(&back),
        hashed_encoding(&op),
        "hashed encoding changed over the round trip"
    );
    let preds = &op.commit_predecessors;
    Ok(Outcome::new(op_nontrivial(&op))
        .class_if(preds.is_none(), "op:predecessors_none")
        .class_if(preds.as_ref().is_some_and(|m| m.is_empty()), "op:predecessors_empty")
        .class_if(preds.as_ref().is_some_and(|m| !m.is_empty()), "op:predecessors_populated")
        .class_if(op.parents.len() >= 2, "op:parents>=2")
        .class_if(!op.metadata.attributes.is_empty(), "op:attributes")
        .class_if(op.metadata.workspace_name.is_none(), "op:workspace_none")
        .class_if(
            op.metadata.workspace_name.as_ref().is_some_and(|w| w.as_str().is_empty()),
            "op:workspace_empty",
        )
        .class_if(op.metadata.time.start.timestamp.0 < 0, "op:negative_time"))
}

// ---------------------------------------------------------------------------
// Near-miss mutations
// ---------------------------------------------------------------------------

fn nth_key<K: Clone + Ord, V>(map: &BTreeMap<K, V>, raw: u16) -> Option<K> {
    if map.is_empty() {
        None
    } else {
        map.keys().nth(pick(raw, map.len())).cloned()
    }
}

fn split_last_char(s: &str) -> Option<(String, char)> {
    let c = s.chars().next_back()?;
    Some((s[..s.len() - c.len_utf8()].to_string(), c))
}

/// Mutable access to the `raw`-th ref target of the view (in a fixed order).
fn nth_target_mut(v: &mut op_store::View, raw: u16) -> Option<&mut RefTarget> {
    let mut targets: Vec<&mut RefTarget> = vec![];
    targets.extend(v.local_bookmarks.values_mut());
    targets.extend(v.local_tags.values_mut());
    for rv in v.remote_views.values_mut() {
        targets.extend(rv.bookmarks.values_mut().map(|r| &mut r.target));
        targets.extend(rv.tags.values_mut().map(|r| &mut r.target));
    }
    targets.extend(v.git_refs.values_mut());
    targets.extend(v.git_heads.values_mut());
    if targets.is_empty() {
        return None;
    }
    let i = pick(raw, targets.len());
    Some(targets.swap_remove(i))
}

/// Applies a near-miss mutation directly to the stored form. Returns the
/// label of the mutation if it was applicable.
fn mutate_view(v: &mut op_store::View, m: &ViewMutation) -> Option<&'static str> {
    use ViewMutation as M;
    match m {
        M::MoveBookmarkToTag(raw) => {
            let k = nth_key(&v.local_bookmarks, *raw)?;
            let t = v.local_bookmarks.remove(&k)?;
            v.local_tags.insert(k, t);
            Some("mut:bookmark->tag")
        }
        M::MoveTagToBookmark(raw) => {
            let k = nth_key(&v.local_tags, *raw)?;
            let t = v.local_tags.remove(&k)?;
            v.local_bookmarks.insert(k, t);
            Some("mut:tag->bookmark")
        }
        M::MoveRemoteBookmarkToTag(r, raw) => {
            let remote = nth_key(&v.remote_views, *r)?;
            let rv = v.remote_views.get_mut(&remote)?;
            let k = nth_key(&rv.bookmarks, *raw)?;
            let x = rv.bookmarks.remove(&k)?;
            rv.tags.insert(k, x);
            Some("mut:remote_bookmark->remote_tag")
        }
        M::MoveRemoteTagToBookmark(r, raw) => {
            let remote = nth_key(&v.remote_views, *r)?;
            let rv = v.remote_views.get_mut(&remote)?;
            let k = nth_key(&rv.tags, *raw)?;
            let x = rv.tags.remove(&k)?;
            rv.bookmarks.insert(k, x);
            Some("mut:remote_tag->remote_bookmark")
        }
        M::MoveGitRefToGitHead(raw) => {
            let k = nth_key(&v.git_refs, *raw)?;
            let t = v.git_refs.remove(&k)?;
            v.git_heads.insert(WorkspaceNameBuf::from(k.as_str()), t);
            Some("mut:git_ref->git_head")
        }
        M::MoveGitHeadToGitRef(raw) => {
            let k = nth_key(&v.git_heads, *raw)?;
            let t = v.git_heads.remove(&k)?;
            v.git_refs.insert(GitRefNameBuf::from(k.as_str()), t);
            Some("mut:git_head->git_ref")
        }
        M::MoveGitHeadToWc(raw) => {
            let k = nth_key(&v.git_heads, *raw)?;
            let id = v.git_heads.get(&k)?.as_normal()?.clone();
            v.git_heads.remove(&k);
            v.wc_commit_ids.insert(k, id);
            Some("mut:git_head->wc")
        }
        M::MoveWcToGitHead(raw) => {
            let k = nth_key(&v.wc_commit_ids, *raw)?;
            let id = v.wc_commit_ids.remove(&k)?;
            v.git_heads.insert(k, RefTarget::normal(id));
            Some("mut:wc->git_head")
        }
        M::MoveRemoteRefToOtherRemote(r, raw, r2) => {
            let from = nth_key(&v.remote_views, *r)?;
            let to = nth_key(&v.remote_views, *r2)?;
            let k = nth_key(&v.remote_views.get(&from)?.bookmarks, *raw)?;
            let x = v.remote_views.get_mut(&from)?.bookmarks.remove(&k)?;
            v.remote_views.get_mut(&to)?.bookmarks.insert(k, x);
            Some("mut:remote_ref->other_remote")
        }
        M::SplitRemoteAndRefName(r, raw) => {
            // remote "ab" / bookmark "c"  ->  remote "a" / bookmark "bc"
            let from = nth_key(&v.remote_views, *r)?;
            let (shorter, c) = split_last_char(from.as_str())?;
            let k = nth_key(&v.remote_views.get(&from)?.bookmarks, *raw)?;
            let x = v.remote_views.get_mut(&from)?.bookmarks.remove(&k)?;
            let new_name = format!("{c}{}", k.as_str());
            v.remote_views
                .entry(RemoteNameBuf::from(shorter))
                .or_default()
                .bookmarks
                .insert(RefNameBuf::from(new_name), x);
            if v.remote_views.get(&from).is_some_and(|rv| rv.bookmarks.is_empty() && rv.tags.is_empty()) {
                v.remote_views.remove(&from);
            }
            Some("mut:split_remote/ref_name")
        }
        M::ToggleState(r, raw) => {
            let remote = nth_key(&v.remote_views, *r)?;
            let rv = v.remote_views.get_mut(&remote)?;
            let refs = if !rv.bookmarks.is_empty() {
                &mut rv.bookmarks
            } else {
                &mut rv.tags
            };
            let k = nth_key(refs, *raw)?;
            let x = refs.get_mut(&k)?;
            x.state = match x.state {
                RemoteRefState::New => RemoteRefState::Tracked,
                RemoteRefState::Tracked => RemoteRefState::New,
            };
            Some("mut:toggle_state")
        }
        M::SwapTerms(sel, raw) => {
            let t = nth_target_mut(v, *sel)?;
            let mut terms: Vec<Option<CommitId>> = t.as_merge().iter().cloned().collect();
            if terms.len() < 3 {
                return None;
            }
            let i = pick(*raw, terms.len() - 1);
            terms.swap(i, i + 1);
            *t = RefTarget::from_merge(Merge::from_vec(terms));
            Some("mut:swap_add/remove")
        }
        M::TermAbsentVsEmptyId(sel, raw) => {
            let t = nth_target_mut(v, *sel)?;
            let mut terms: Vec<Option<CommitId>> = t.as_merge().iter().cloned().collect();
            let i = pick(*raw, terms.len());
            terms[i] = match &terms[i] {
                None => Some(CommitId::new(vec![])),
                Some(_) => None,
            };
            *t = RefTarget::from_merge(Merge::from_vec(terms));
            Some("mut:term_absent_vs_id")
        }
        M::DropEmptyRemote(raw) => {
            let empties: Vec<RemoteNameBuf> = v
                .remote_views
                .iter()
                .filter(|(_, rv)| rv.bookmarks.is_empty() && rv.tags.is_empty())
                .map(|(k, _)| k.clone())
                .collect();
            if empties.is_empty() {
                return None;
            }
            v.remote_views.remove(&empties[pick(*raw, empties.len())]);
            Some("mut:drop_empty_remote")
        }
        M::AddEmptyRemote(name) => {
            let name = RemoteNameBuf::from(name.as_str());
            if v.remote_views.contains_key(&name) {
                return None;
            }
            v.remote_views.insert(name, RemoteView::default());
            Some("mut:add_empty_remote")
        }
        M::SplitHeadId(raw) => {
            let mut heads: Vec<CommitId> = v.head_ids.iter().cloned().collect();
            heads.sort();
            let splittable: Vec<&CommitId> =
                heads.iter().filter(|h| h.as_bytes().len() >= 2).collect();
            if splittable.is_empty() {
                return None;
            }
            let h = splittable[pick(*raw, splittable.len())].clone();
            let bytes = h.as_bytes();
            v.head_ids.remove(&h);
            v.head_ids.insert(CommitId::from_bytes(&bytes[..1]));
            v.head_ids.insert(CommitId::from_bytes(&bytes[1..]));
            Some("mut:split_head_id")
        }
        M::AddAbsentLocalBookmark(name) => {
            let name = RefNameBuf::from(name.as_str());
            if v.local_bookmarks.contains_key(&name) {
                return None;
            }
            v.local_bookmarks.insert(name, RefTarget::absent());
            Some("mut:absent_entry_vs_no_entry")
        }
        M::MoveLocalToRemote(raw, r) => {
            let k = nth_key(&v.local_bookmarks, *raw)?;
            let remote = nth_key(&v.remote_views, *r)?;
            let t = v.local_bookmarks.remove(&k)?;
            v.remote_views.get_mut(&remote)?.bookmarks.insert(
                k,
                RemoteRef {
                    target: t,
                    state: RemoteRefState::New,
                },
            );
            Some("mut:local->remote")
        }
    }
}

fn mutate_operation(op: &mut Operation, m: &OpMutation) -> Option<&'static str> {
    use OpMutation as M;
    match m {
        M::SwapViewIdAndParent(raw) => {
            let i = pick(*raw, op.parents.len().max(1));
            let p = op.parents.get_mut(i)?;
            let old_view = op.view_id.as_bytes().to_vec();
            op.view_id = ViewId::from_bytes(p.as_bytes());
            *p = OperationId::new(old_view);
            Some("mut:swap_view_id/parent")
        }
        M::SplitDescriptionHostname => {
            let (rest, c) = split_last_char(&op.metadata.description)?;
            op.metadata.description = rest;
            op.metadata.hostname.insert(0, c);
            Some("mut:split_string")
        }
        M::SplitHostnameUsername => {
            let (rest, c) = split_last_char(&op.metadata.hostname)?;
            op.metadata.hostname = rest;
            op.metadata.username.insert(0, c);
            Some("mut:split_string")
        }
        M::SwapHostnameUsername => {
            std::mem::swap(&mut op.metadata.hostname, &mut op.metadata.username);
            Some("mut:swap_strings")
        }
        M::SplitAttr(raw) => {
            let k = nth_key(&op.metadata.attributes, *raw)?;
            let (rest, c) = split_last_char(&k)?;
            if op.metadata.attributes.contains_key(&rest) {
                return None;
            }
            let mut v = op.metadata.attributes.remove(&k)?;
            v.insert(0, c);
            op.metadata.attributes.insert(rest, v);
            Some("mut:split_attr_key/value")
        }
        M::MoveAttrAcross(raw) => {
            // {k: v}, workspace None  <->  description etc. are fixed-position
            // strings; move an attribute into the predecessor-less tail instead:
            // drop the attribute and append "kv" to the username.
            let k = nth_key(&op.metadata.attributes, *raw)?;
            let v = op.metadata.attributes.remove(&k)?;
            op.metadata.username.push_str(&k);
            op.metadata.username.push_str(&v);
            Some("mut:attr->username")
        }
        M::WorkspaceNoneVsEmpty => {
            op.metadata.workspace_name = match &op.metadata.workspace_name {
                None => Some(WorkspaceNameBuf::from("")),
                Some(w) if w.as_str().is_empty() => None,
                Some(_) => return None,
            };
            Some("mut:workspace_none_vs_empty")
        }
        M::PredecessorsNoneVsEmpty => {
            op.commit_predecessors = match &op.commit_predecessors {
                None => Some(BTreeMap::new()),
                Some(m) if m.is_empty() => None,
                Some(_) => return None,
            };
            Some("mut:predecessors_none_vs_empty")
        }
        M::MovePredecessor(raw) => {
            // {A: [.., x], B: [..]} -> {A: [..], B: [x, ..]} for adjacent keys
            let map = op.commit_predecessors.as_mut()?;
            if map.len() < 2 {
                return None;
            }
            let keys: Vec<CommitId> = map.keys().cloned().collect();
            let i = pick(*raw, keys.len() - 1);
            let x = map.get_mut(&keys[i])?.pop()?;
            map.get_mut(&keys[i + 1])?.insert(0, x);
            Some("mut:move_predecessor")
        }
        M::PredecessorToKey(raw) => {
            // {A: [x]} -> {A: [], x: []}
            let map = op.commit_predecessors.as_mut()?;
            let k = nth_key(map, *raw)?;
            let x = map.get_mut(&k)?.pop()?;
            if map.contains_key(&x) {
                return None;
            }
            map.insert(x, vec![]);
            Some("mut:predecessor->key")
        }
        M::SwapStartEnd => {
            let t = &mut op.metadata.time;
            std::mem::swap(&mut t.start, &mut t.end);
            Some("mut:swap_start/end")
        }
        M::SwapTz => {
            let t = &mut op.metadata.time;
            std::mem::swap(&mut t.start.tz_offset, &mut t.end.tz_offset);
            Some("mut:swap_tz")
        }
        M::ToggleSnapshot => {
            op.metadata.is_snapshot = !op.metadata.is_snapshot;
            Some("mut:toggle_snapshot")
        }
        M::DupParent(raw) => {
            let i = pick(*raw, op.parents.len().max(1));
            let p = op.parents.get(i)?.clone();
            op.parents.push(p);
            Some("mut:dup_parent")
        }
        M::DropParent(raw) => {
            if op.parents.len() < 2 {
                return None;
            }
            let i = pick(*raw, op.parents.len());
            op.parents.remove(i);
            Some("mut:drop_parent")
        }
    }
}

// ---------------------------------------------------------------------------
// Encoding pair checks
// ---------------------------------------------------------------------------

fn check_pair<T>(a: &T, b: &T, what: &str) -> Result<bool, Violation>
where
    T: ContentHash + PartialEq + std::fmt::Debug,
{
    let equal = a == b;
    let enc_a = hashed_encoding(a);
    let enc_b = hashed_encoding(b);
    let enc_equal = enc_a == enc_b;
    ensure!(
        enc_equal == equal,
        "{what}: values equal = {equal} but hashed encodings equal = {enc_equal}\n a = {a:?}\n b = \
         {b:?}\n enc(a) = {enc_a:?}\n enc(b) = {enc_b:?}"
    );
    let ids_equal = blake2b_hash(a) == blake2b_hash(b);
    ensure!(
        ids_equal == equal,
        "{what}: values equal = {equal} but ids equal = {ids_equal}\n a = {a:?}\n b = {b:?}"
    );
    // The recorded stream is what the id is computed from.
    Ok(equal)
}

fn check_view_pair(case: &PairCase<ViewSpec, ViewMutation>) -> CheckResult {
    let a = build_view(&case.a);
    let mut labels: Vec<&'static str> = vec![];
    let b = match &case.b {
        Second::Independent(spec) => {
            labels.push("pair:independent");
            build_view(spec)
        }
        Second::Rebuilt => {
            labels.push("pair:rebuilt");
            rebuild_view(&a)
        }
        Second::Mutated(ms) => {
            let mut b = a.clone();
            for m in ms {
                if let Some(label) = mutate_view(&mut b, m) {
                    labels.push(label);
                }
            }
            b
        }
    };
    let equal = check_pair(&a, &b, "view")?;
    let mutated = matches!(case.b, Second::Mutated(_));
    let mut out = Outcome::new(!equal && (mutated || view_nontrivial(&view_stats(&a))))
        .class_if(equal, "pair:equal")
        .class_if(!equal, "pair:different");
    if !equal || !mutated {
        for l in labels {
            out = out.class(l);
        }
    } else {
        out = out.class("pair:mutation_was_noop");
    }
    Ok(out)
}

fn check_op_pair(case: &PairCase<OpSpec, OpMutation>) -> CheckResult {
    let a = build_operation(&case.a, false);
    let mut labels: Vec<&'static str> = vec![];
    let b = match &case.b {
        Second::Independent(spec) => {
            labels.push("pair:independent");
            build_operation(spec, false)
        }
        Second::Rebuilt => {
            labels.push("pair:rebuilt");
            build_operation(&case.a, true)
        }
        Second::Mutated(ms) => {
            let mut b = a.clone();
            for m in ms {
                if let Some(label) = mutate_operation(&mut b, m) {
                    labels.push(label);
                }
            }
            b
        }
    };
    let equal = check_pair(&a, &b, "operation")?;
    // Component-wise too: the metadata alone must already be injective.
    check_pair(&a.metadata, &b.metadata, "operation metadata")?;
    let mutated = matches!(case.b, Second::Mutated(_));
    let mut out = Outcome::new(!equal && (mutated || op_nontrivial(&a)))
        .class_if(equal, "pair:equal")
        .class_if(!equal, "pair:different");
    if !equal || !mutated {
        for l in labels {
            out = out.class(l);
        }
    } else {
        out = out.class("pair:mutation_was_noop");
    }
    Ok(out)
}

pub fn run(report: &mut Report) {
    report.set_rule(
        "views: random scripts of 0..14 View-API calls (heads, local/remote bookmarks and tags with \
         1/3/5-term targets incl. absent terms, New/Tracked, absent-but-tracked remotes behind a \
         present local ref, empty remotes, git refs/heads, workspaces incl. empty/unicode names) over \
         tiny name and id alphabets; operations: 1..3 parents, arbitrary i64/i32 timestamps, unicode \
         strings, attributes, commit_predecessors None/empty/populated. Round trip through \
         SimpleOpStore with a fresh store object; ids compared across two writes, two construction \
         orders and two stores; legacy (remote_views-less) form re-read. Encoding pairs: independent, \
         rebuilt in another order, or 1..2 near-miss mutations of the stored form. Non-trivial: \
         round-trip view has a conflicted target with an absent term, a tracked absent remote ref or \
         >=2 remotes; round-trip operation has >=2 parents, attributes, or predecessors None/populated; \
         pair is non-trivial when the two values differ (and, for independent pairs, the first is \
         non-trivial by the round-trip rule)",
    );
    report.assume(
        "SimpleOpStore (the only op store in the tree) is the store under test; commit ids are \
         non-empty byte strings in round trips (zero-length ids appear only in encoding pairs)",
    );
    report.assume(
        "legacy read: a view file without field 11 (remote_views) is what jj < 0.34 wrote; remote tags \
         and remotes without bookmarks are not expressible in that form and are expected to be lost",
    );
    let tier = report.tier;
    report.prop(
        "view_roundtrip",
        tier.pick(2_000, 200_000),
        view_spec_strategy,
        check_view_roundtrip,
    );
    report.prop(
        "op_roundtrip",
        tier.pick(2_000, 200_000),
        op_spec_strategy,
        check_op_roundtrip,
    );
    report.prop(
        "view_enc_pairs",
        tier.pick(20_000, 2_000_000),
        || pair_strategy(view_spec_strategy, view_mutation_strategy()),
        check_view_pair,
    );
    report.prop(
        "op_enc_pairs",
        tier.pick(20_000, 2_000_000),
        || pair_strategy(op_spec_strategy, op_mutation_strategy()),
        check_op_pair,
    );
}
