//! C28 Ignore rules behave like Git's.
//!
//! A case is a small directory tree (files and directories, depth <= 4, tiny
//! name alphabet including names that need escaping), 1-4 `.gitignore` files at
//! directories of that tree and an optional global excludes file. Everything is
//! materialised in a `TestWorkspace` root that also carries a minimal `.git`
//! directory whose config points `core.excludesFile` at the global file.
//!
//! Reference: one `git check-ignore --no-index --stdin -z -v -n` process per
//! case, all paths batched, hermetic environment.
//!
//! jj side, two ways:
//!  1. `procedure`: the decision procedure of the snapshotter re-stated with
//!     nothing but `GitIgnoreFile::{empty, chain_with_file, matches_file,
//!     matches_dir}`: walk top-down from the root with the base (global)
//!     ignores; in each visited directory chain its `.gitignore` with the
//!     directory as prefix; a file is ignored iff `matches_file`; a directory
//!     is ignored iff `matches_dir` — and then everything below is ignored and
//!     its `.gitignore` is never read. Compared for every file and directory.
//!  2. `snapshot`: the real snapshotter with `base_ignores` = the global file:
//!     the set of files it starts tracking must be exactly the files git calls
//!     not ignored.

use std::collections::BTreeMap;
use std::collections::BTreeSet;
use std::path::Path;
use std::process::Command;
use std::process::Stdio;
use std::sync::Arc;

use jj_lib::gitignore::GitIgnoreFile;
use jj_lib::repo_path::RepoPath;
use jj_lib::repo_path::RepoPathBuf;
use jj_lib::working_copy::SnapshotOptions;
use proptest::prelude::*;
use serde::Deserialize;
use serde::Serialize;
use testutils::TestWorkspace;

use crate::engine::runner::CheckResult;
use crate::engine::runner::Outcome;
use crate::engine::runner::Report;
use crate::engine::runner::Violation;
use crate::engine::runner::pick;
use crate::ensure;
use crate::gens::content::Bytes;

#[derive(Debug, Clone, Serialize, Deserialize)]
pub struct IgnoreFile {
    /// Directory ("" = workspace root) holding this `.gitignore`.
    pub dir: String,
    pub content: Bytes,
}

#[derive(Debug, Clone, Serialize, Deserialize)]
pub struct Case {
    /// Normalised tree: path -> is_dir; every ancestor of an entry is present as
    /// a directory; no `.gitignore` entries (those come from `ignores`).
    pub tree: BTreeMap<String, bool>,
    pub global: Option<Bytes>,
    /// Distinct directories of `tree` (or the root).
    pub ignores: Vec<IgnoreFile>,
}

fn v(msg: String) -> Violation {
    Violation::new(msg)
}

// ---------------------------------------------------------------------------
// git reference
// ---------------------------------------------------------------------------

#[derive(Debug, Clone)]
struct GitVerdict {
    source: String,
    line: String,
    pattern: String,
}

impl GitVerdict {
    fn matched(&self) -> bool {
        !self.source.is_empty() || !self.pattern.is_empty()
    }
    fn ignored(&self) -> bool {
        // check-ignore prints a leading `!` exactly for negative patterns
        // (an escaped `\!` keeps its backslash).
        self.matched() && !self.pattern.starts_with('!')
    }
}

fn git_check_ignore(root: &Path, home: &Path, paths: &[String]) -> Result<Vec<GitVerdict>, String> {
    let stdin_path = home.join("check-ignore-stdin");
    let mut input = Vec::new();
    for p in paths {
        input.extend_from_slice(p.as_bytes());
        input.push(0);
    }
    std::fs::write(&stdin_path, &input).map_err(|e| format!("harness: write stdin file: {e}"))?;
    let stdin = std::fs::File::open(&stdin_path).map_err(|e| format!("harness: open stdin file: {e}"))?;
    let output = Command::new("/usr/bin/git")
        .args(["check-ignore", "--no-index", "--stdin", "-z", "-v", "-n"])
        .current_dir(root)
        .env_clear()
        .env("PATH", "/usr/bin:/bin")
        .env("HOME", home)
        .env("GIT_CONFIG_GLOBAL", "/dev/null")
        .env("GIT_CONFIG_SYSTEM", "/dev/null")
        .env("GIT_CONFIG_NOSYSTEM", "1")
        .env("GIT_CEILING_DIRECTORIES", home.parent().unwrap_or(home))
        .env("LC_ALL", "C")
        .stdin(Stdio::from(stdin))
        .stderr(Stdio::piped())
        .stdout(Stdio::piped())
        .output()
        .map_err(|e| format!("harness: cannot run git: {e}"))?;
    match output.status.code() {
        Some(0 | 1) => {}
        other => {
            return Err(format!(
                "harness: git check-ignore exited with {other:?}: {}",
                String::from_utf8_lossy(&output.stderr)
            ));
        }
    }
    let text = String::from_utf8(output.stdout).map_err(|_| "harness: git output is not UTF-8".to_string())?;
    let mut fields: Vec<&str> = text.split('\0').collect();
    if fields.last() == Some(&"") {
        fields.pop();
    }
    if fields.len() != paths.len() * 4 {
        return Err(format!(
            "harness: git printed {} fields for {} paths: {text:?}",
            fields.len(),
            paths.len()
        ));
    }
    let mut out = vec![];
    for (i, rec) in fields.chunks(4).enumerate() {
        if rec[3] != paths[i] {
            return Err(format!("harness: git answered for {:?}, asked {:?}", rec[3], paths[i]));
        }
        out.push(GitVerdict { source: rec[0].to_string(), line: rec[1].to_string(), pattern: rec[2].to_string() });
    }
    Ok(out)
}

// ---------------------------------------------------------------------------
// jj decision procedure (only the public GitIgnoreFile API)
// ---------------------------------------------------------------------------

fn repo_path(p: &str) -> Result<RepoPathBuf, String> {
    RepoPathBuf::from_internal_string(p).map_err(|e| format!("harness: bad repo path {p:?}: {e}"))
}

fn children<'a>(tree: &'a BTreeMap<String, bool>, dir: &str) -> Vec<(&'a String, bool)> {
    tree.iter()
        .filter(|(p, _)| match p.rsplit_once('/') {
            Some((parent, _)) => parent == dir,
            None => dir.is_empty(),
        })
        .map(|(p, d)| (p, *d))
        .collect()
}

struct Procedure<'a> {
    root: &'a Path,
    tree: &'a BTreeMap<String, bool>,
    /// path -> (ignored, chain in effect for the path's parent directory)
    decisions: BTreeMap<String, bool>,
    /// For paths decided while visiting (not below an ignored directory): does the
    /// chain *without* the innermost directory's own file give another answer?
    overridden_by_nested: BTreeSet<String>,
}

impl Procedure<'_> {
    fn visit(&mut self, dir: &str, parent_chain: &Arc<GitIgnoreFile>) -> Result<(), String> {
        let dir_repo = repo_path(dir)?;
        let disk_dir = if dir.is_empty() { self.root.to_owned() } else { self.root.join(dir) };
        let chain = parent_chain
            .chain_with_file(&dir_repo, disk_dir.join(".gitignore"))
            .map_err(|e| format!("chain_with_file failed: {e}"))?;
        let tree = self.tree;
        for (path, is_dir) in children(tree, dir) {
            let rp = repo_path(path)?;
            let decide = |c: &GitIgnoreFile, rp: &RepoPath| if is_dir { c.matches_dir(rp) } else { c.matches_file(rp) };
            let ignored = decide(&chain, &rp);
            if !dir.is_empty() && !Arc::ptr_eq(&chain, parent_chain) && decide(parent_chain, &rp) != ignored {
                self.overridden_by_nested.insert(path.clone());
            }
            self.decisions.insert(path.clone(), ignored);
            if is_dir {
                if ignored {
                    // Everything below an ignored directory is ignored; nothing in it is read.
                    let prefix = format!("{path}/");
                    for below in tree.keys().filter(|p| p.starts_with(&prefix)) {
                        self.decisions.insert(below.clone(), true);
                    }
                } else {
                    self.visit(path, &chain)?;
                }
            }
        }
        Ok(())
    }
}

// ---------------------------------------------------------------------------
// Known findings (signature predicates over one disagreement)
// ---------------------------------------------------------------------------

/// One path on which jj and git disagree.
struct Disagreement<'a> {
    path: &'a str,
    is_dir: bool,
    git: &'a GitVerdict,
    jj_ignored: bool,
    via: &'static str,
}

/// Returns the signature of the known finding that explains this disagreement.
fn known_signature(_case: &Case, d: &Disagreement<'_>) -> Option<&'static str> {
    if d.git.matched() && literal_prefix_then_double_star(&d.git.pattern) {
        return Some(SIG_PREFIX_DOUBLE_STAR);
    }
    None
}

/// Known finding: git strips the wildcard-free prefix of a *pathname* pattern
/// (one with a leading or inner slash) before calling wildmatch, so in
/// `/a**` the `**` that follows the literal `a` ends up at the start of the
/// remaining pattern and is treated as a real globstar (`/a**` matches `a/b`);
/// gix-glob matches the whole pattern, where `a**` is an ordinary `*`.
pub const SIG_PREFIX_DOUBLE_STAR: &str = "C28-literal-prefix-then-double-star";

/// `pattern` as printed by `git check-ignore -v`: is it a pathname pattern
/// whose first wildcard is a `**` run that directly follows a literal
/// non-slash character and is followed by `/` or the end?
fn literal_prefix_then_double_star(pattern: &str) -> bool {
    let p = pattern.strip_prefix('!').unwrap_or(pattern);
    let body = p.strip_suffix('/').unwrap_or(p);
    if !body.contains('/') {
        return false; // basename pattern: git matches it without prefix stripping
    }
    let body = body.strip_prefix('/').unwrap_or(body);
    let bytes = body.as_bytes();
    let Some(k) = bytes.iter().position(|b| matches!(b, b'*' | b'?' | b'[' | b'\\')) else {
        return false;
    };
    if k == 0 || bytes[k - 1] == b'/' || !bytes[k..].starts_with(b"**") {
        return false;
    }
    let after = bytes[k..].iter().position(|b| *b != b'*').map(|i| k + i);
    match after {
        None => true,
        Some(i) => bytes[i] == b'/' || bytes[i..].starts_with(b"\\/"),
    }
}

// ---------------------------------------------------------------------------
// The check
// ---------------------------------------------------------------------------

/// All paths git is asked about: the tree plus the `.gitignore` files themselves.
fn full_tree(case: &Case) -> BTreeMap<String, bool> {
    let mut tree = case.tree.clone();
    for f in &case.ignores {
        let p = if f.dir.is_empty() { ".gitignore".to_string() } else { format!("{}/.gitignore", f.dir) };
        tree.insert(p, false);
    }
    tree
}

fn check(case: &Case) -> CheckResult {
    // Validate the case (replayed files may be hand-written).
    for (p, _) in &case.tree {
        if let Some((parent, _)) = p.rsplit_once('/') {
            ensure!(case.tree.get(parent) == Some(&true), "harness: {p:?} has no parent directory in the tree");
        }
    }
    for f in &case.ignores {
        ensure!(f.dir.is_empty() || case.tree.get(&f.dir) == Some(&true), "harness: ignore file in a non-directory");
    }
    let tree = full_tree(case);

    // Materialise.
    let settings = testutils::user_settings();
    let mut tw = TestWorkspace::init_with_backend_and_settings(testutils::TestRepoBackend::Simple, &settings);
    let root = tw.workspace.workspace_root().to_owned();
    let home = tw.env.root().join("home");
    std::fs::create_dir_all(&home).map_err(|e| v(format!("harness: mkdir home: {e}")))?;
    for (p, is_dir) in &case.tree {
        let disk = root.join(p);
        if *is_dir {
            std::fs::create_dir_all(&disk).map_err(|e| v(format!("harness: mkdir {p:?}: {e}")))?;
        } else {
            std::fs::write(&disk, b"").map_err(|e| v(format!("harness: write {p:?}: {e}")))?;
        }
    }
    for f in &case.ignores {
        let disk = if f.dir.is_empty() { root.join(".gitignore") } else { root.join(&f.dir).join(".gitignore") };
        std::fs::write(&disk, &f.content.0).map_err(|e| v(format!("harness: write ignore file: {e}")))?;
    }
    let global_path = home.join("global-excludes");
    if let Some(g) = &case.global {
        std::fs::write(&global_path, &g.0).map_err(|e| v(format!("harness: write global excludes: {e}")))?;
    }
    // Minimal git repository (HEAD + objects + refs is what git's discovery needs).
    let git_dir = root.join(".git");
    for d in ["objects", "refs/heads"] {
        std::fs::create_dir_all(git_dir.join(d)).map_err(|e| v(format!("harness: mkdir .git: {e}")))?;
    }
    std::fs::write(git_dir.join("HEAD"), "ref: refs/heads/main\n").map_err(|e| v(format!("harness: HEAD: {e}")))?;
    std::fs::write(
        git_dir.join("config"),
        format!(
            "[core]\n\trepositoryformatversion = 0\n\tbare = false\n\tfilemode = true\n\texcludesFile = {}\n",
            global_path.display()
        ),
    )
    .map_err(|e| v(format!("harness: .git/config: {e}")))?;

    // Reference.
    let paths: Vec<String> = tree.keys().cloned().collect();
    let git = git_check_ignore(&root, &home, &paths).map_err(v)?;
    let git_by_path: BTreeMap<&str, &GitVerdict> = paths.iter().map(String::as_str).zip(git.iter()).collect();

    // jj, way 1: the decision procedure.
    let base = GitIgnoreFile::empty()
        .chain_with_file(RepoPath::root(), global_path.clone())
        .map_err(|e| v(format!("chain_with_file(global) failed: {e}")))?;
    let mut procedure =
        Procedure { root: &root, tree: &tree, decisions: BTreeMap::new(), overridden_by_nested: BTreeSet::new() };
    procedure.visit("", &base).map_err(v)?;
    ensure!(procedure.decisions.len() == tree.len(), "harness: procedure did not decide every path");

    let mut disagreements: Vec<Disagreement<'_>> = vec![];
    for (p, is_dir) in &tree {
        let g = git_by_path[p.as_str()];
        let jj_ignored = procedure.decisions[p];
        if g.ignored() != jj_ignored {
            disagreements.push(Disagreement { path: p, is_dir: *is_dir, git: g, jj_ignored, via: "procedure" });
        }
    }

    // jj, way 2: the snapshotter itself.
    let options = SnapshotOptions { base_ignores: base.clone(), ..testutils::empty_snapshot_options() };
    let (snap_tree, _stats) =
        tw.snapshot_with_options(&options).map_err(|e| v(format!("snapshot failed: {e:?}")))?;
    let tracked: BTreeSet<String> = snap_tree
        .entries()
        .map(|(path, _)| path.as_internal_file_string().to_owned())
        .collect();
    for (p, is_dir) in &tree {
        if *is_dir {
            continue;
        }
        let g = git_by_path[p.as_str()];
        let jj_ignored = !tracked.contains(p);
        if g.ignored() != jj_ignored {
            disagreements.push(Disagreement { path: p, is_dir: false, git: g, jj_ignored, via: "snapshot" });
        }
    }
    for p in &tracked {
        ensure!(tree.get(p) == Some(&false), "snapshot tracked {p:?}, which is not a file of the case");
    }

    if !disagreements.is_empty() {
        let describe = |d: &Disagreement<'_>| {
            format!(
                "{} {:?}: git says {} ({}), jj [{}] says {}",
                if d.is_dir { "dir" } else { "file" },
                d.path,
                if d.git.ignored() { "ignored" } else { "not ignored" },
                if d.git.matched() {
                    format!("{}:{}:{}", d.git.source, d.git.line, d.git.pattern)
                } else {
                    "no pattern matched".to_string()
                },
                d.via,
                if d.jj_ignored { "ignored" } else { "not ignored" },
            )
        };
        let mut known = None;
        for d in &disagreements {
            match known_signature(case, d) {
                Some(sig) => known = known.or(Some((sig, describe(d)))),
                None => return Err(Violation::new(describe(d))),
            }
        }
        let (sig, msg) = known.unwrap();
        return Err(Violation::known(sig, msg));
    }

    // Classification from git's verbose answers.
    let body = |g: &GitVerdict| {
        let p = g.pattern.strip_prefix('!').unwrap_or(&g.pattern);
        p.strip_suffix('/').unwrap_or(p).to_string()
    };
    let decided: Vec<(&String, &GitVerdict)> = paths.iter().zip(git.iter()).filter(|(_, g)| g.matched()).collect();
    let by_negation = decided.iter().any(|(_, g)| g.pattern.starts_with('!'));
    let by_anchored = decided.iter().any(|(_, g)| body(g).contains('/') && !body(g).starts_with("**/"));
    let by_globstar = decided.iter().any(|(_, g)| g.pattern.contains("**"));
    let by_dir_only = decided.iter().any(|(_, g)| g.pattern.ends_with('/'));
    let by_escape = decided.iter().any(|(_, g)| g.pattern.contains('\\'));
    let by_class = decided.iter().any(|(_, g)| g.pattern.contains('['));
    let by_global = decided.iter().any(|(_, g)| g.source.ends_with("global-excludes"));
    let by_nested = decided.iter().any(|(_, g)| g.source.contains('/') && !g.source.ends_with("global-excludes"));
    let nested_overrides = !procedure.overridden_by_nested.is_empty();
    let below_ignored_dir = tree.iter().any(|(p, _)| {
        p.rsplit_once('/').is_some_and(|(parent, _)| procedure.decisions.get(parent) == Some(&true))
    });
    let unread_ignore_file = case
        .ignores
        .iter()
        .any(|f| !f.dir.is_empty() && procedure.decisions.get(&f.dir) == Some(&true));
    let crlf = case.ignores.iter().any(|f| f.content.0.windows(2).any(|w| w == b"\r\n"));
    let n_ignored = procedure.decisions.values().filter(|b| **b).count();
    let nontrivial = by_negation || by_anchored || by_globstar || nested_overrides;
    Ok(Outcome::new(nontrivial)
        .class_if(by_negation, "decided by a negation")
        .class_if(by_anchored, "decided by an anchored pattern")
        .class_if(by_globstar, "decided by **")
        .class_if(by_dir_only, "decided by a directory-only pattern")
        .class_if(by_escape, "decided by a pattern with a backslash escape")
        .class_if(by_class, "decided by a character class")
        .class_if(by_global, "decided by the global excludes")
        .class_if(by_nested, "decided by a nested .gitignore")
        .class_if(nested_overrides, "nested file overrides a parent")
        .class_if(below_ignored_dir, "paths below an ignored directory")
        .class_if(unread_ignore_file, ".gitignore inside an ignored directory")
        .class_if(crlf, "CRLF line ends")
        .class_if(n_ignored == 0, "nothing ignored")
        .class_if(n_ignored == tree.len(), "everything ignored"))
}

// ---------------------------------------------------------------------------
// Generators
// ---------------------------------------------------------------------------

/// Plain names first (collisions between patterns and paths must be common),
/// then names that need escaping in a pattern.
const NAMES: &[&str] = &["a", "b", "c", "ab", "a.o", "b.o", "#a", "!a", "a ", "a b", "A"];

fn name_strategy() -> impl Strategy<Value = &'static str> {
    prop_oneof![
        10 => (0usize..6).prop_map(|i| NAMES[i]),
        2 => (6usize..NAMES.len()).prop_map(|i| NAMES[i]),
    ]
}

/// Builds the normalised tree: entries whose ancestor is already a file are
/// dropped, ancestors are added as directories.
fn normalise_tree(raw: Vec<(Vec<&'static str>, bool)>) -> BTreeMap<String, bool> {
    let mut tree: BTreeMap<String, bool> = BTreeMap::new();
    'entry: for (comps, is_dir) in raw {
        let mut prefix = String::new();
        for (i, c) in comps.iter().enumerate() {
            if !prefix.is_empty() {
                prefix.push('/');
            }
            prefix.push_str(c);
            let last = i + 1 == comps.len();
            match tree.get(&prefix) {
                Some(false) if !last => continue 'entry, // a file is in the way
                Some(_) if last => continue 'entry,      // already there (keep the first kind)
                Some(true) => {}
                Some(false) => unreachable!(),
                None => {
                    tree.insert(prefix.clone(), !last || is_dir);
                }
            }
        }
    }
    tree
}

/// Unusual spellings of the same pattern forms (sub-check `odd-forms` only).
fn odd_segment() -> impl Strategy<Value = String> {
    prop::sample::select(vec![
        "**", "***", "a**", "**a", "a**b", "*a*", "\\a", "\\\\", "[a", "[]a]", "[a-]", "[[:alpha:]]", "[^a]", "[!]a]",
        "[a-c]*", "a\\", ".", "..", "[ab", "a]", "[b-a]", "[!a-b]", "\\*", "\\?", "a\\.o", "[a\\]]", "[.]o", "*[.]o",
    ])
    .prop_map(str::to_string)
}

/// One pattern segment (no slash inside).
fn segment(odd: bool) -> BoxedStrategy<String> {
    if odd {
        return prop_oneof![3 => segment(false), 1 => odd_segment()].boxed();
    }
    prop_oneof![
        10 => name_strategy().prop_map(|n| n.to_string()),
        // escaped spellings of the special names
        1 => Just("\\#a".to_string()),
        1 => Just("\\!a".to_string()),
        1 => Just("a\\ ".to_string()),
        1 => Just("a\\ b".to_string()),
        3 => Just("*".to_string()),
        2 => Just("?".to_string()),
        2 => Just("a*".to_string()),
        2 => Just("*.o".to_string()),
        1 => Just("*b".to_string()),
        1 => Just("?b".to_string()),
        1 => Just("a?".to_string()),
        1 => Just("?.o".to_string()),
        2 => Just("[ab]".to_string()),
        2 => Just("[a-c]".to_string()),
        2 => Just("[!a]".to_string()),
        1 => Just("[ab].o".to_string()),
        1 => Just("a[!b]".to_string()),
        1 => Just("[a-c]b".to_string()),
        1 => Just("[A-Z]".to_string()),
    ]
    .boxed()
}

/// One line of an ignore file (without its line terminator).
fn line(odd: bool) -> BoxedStrategy<String> {
    let segment = move || segment(odd);
    let path = prop_oneof![
        6 => segment(),
        4 => (segment(), segment()).prop_map(|(a, b)| format!("{a}/{b}")),
        1 => (segment(), segment(), segment()).prop_map(|(a, b, c)| format!("{a}/{b}/{c}")),
        2 => segment().prop_map(|a| format!("**/{a}")),
        2 => segment().prop_map(|a| format!("{a}/**")),
        2 => (segment(), segment()).prop_map(|(a, b)| format!("{a}/**/{b}")),
        1 => (segment(), segment()).prop_map(|(a, b)| format!("**/{a}/{b}")),
        1 => (segment(), segment()).prop_map(|(a, b)| format!("{a}/{b}/**")),
    ];
    let pattern = (
        prop::bool::weighted(0.3),
        prop::bool::weighted(0.3),
        path,
        prop::bool::weighted(0.25),
        prop_oneof![8 => Just(""), 1 => Just(" "), 1 => Just("  ")],
    )
        .prop_map(|(neg, lead, path, trail, spaces)| {
            format!(
                "{}{}{}{}{}",
                if neg { "!" } else { "" },
                if lead { "/" } else { "" },
                path,
                if trail { "/" } else { "" },
                spaces
            )
        });
    let odd_line = prop::sample::select(vec![
        "!", "/", "//", "\\", "\\ ", "!!a", "!/", "**/", "/**", "/**/", "a//b", "./a", " a", "a\t", "\t", "!#a", "#", "\\#",
        "a/ ", "a\\", "!\\!a", "! a", "!a/ ", "a/**/", "**/a/**", "/a/", "a/./b", "a/../a", "*/", "!*/", "a /", "\\a/b",
    ])
    .prop_map(str::to_string);
    if odd {
        prop_oneof![
            12 => pattern,
            4 => odd_line,
            1 => Just(String::new()),
            1 => Just("# a comment".to_string()),
            1 => Just("   ".to_string()),
        ]
        .boxed()
    } else {
        prop_oneof![
            16 => pattern,
            1 => Just(String::new()),
            1 => Just("# a comment".to_string()),
            1 => name_strategy().prop_map(|n| format!("#{n}")),
            1 => Just("   ".to_string()),
        ]
        .boxed()
    }
}

fn ignore_content(odd: bool) -> impl Strategy<Value = Bytes> {
    (
        prop::collection::vec(line(odd), 1..=5),
        prop::bool::weighted(0.15),
        prop::bool::weighted(0.85),
    )
        .prop_map(|(lines, crlf, final_newline)| {
            let eol = if crlf { "\r\n" } else { "\n" };
            let mut s = lines.join(eol);
            if final_newline {
                s.push_str(eol);
            }
            Bytes(s.into_bytes())
        })
}

fn case_strategy(odd: bool) -> impl Strategy<Value = Case> {
    let entry = (prop::collection::vec(name_strategy(), 1..=4), prop::bool::weighted(0.3));
    (
        prop::collection::vec(entry, 4..=14),
        prop::option::weighted(0.5, ignore_content(odd)),
        prop::collection::vec((any::<u16>(), ignore_content(odd)), 1..=4),
        // where the first ignore file goes: usually the root
        prop::bool::weighted(0.7),
    )
        .prop_map(|(raw, global, ignore_specs, first_at_root)| {
            let tree = normalise_tree(raw);
            let mut dirs: Vec<String> = vec![String::new()];
            dirs.extend(tree.iter().filter(|(_, d)| **d).map(|(p, _)| p.clone()));
            let mut ignores: Vec<IgnoreFile> = vec![];
            for (i, (raw_idx, content)) in ignore_specs.into_iter().enumerate() {
                let dir = if i == 0 && first_at_root { String::new() } else { dirs[pick(raw_idx, dirs.len())].clone() };
                if ignores.iter().all(|f| f.dir != dir) {
                    ignores.push(IgnoreFile { dir, content });
                }
            }
            Case { tree, global, ignores }
        })
}

pub fn run(report: &mut Report) {
    report.set_rule(
        "a case = tree of files/directories (4-14 generated entries of depth <= 4 over 11 names incl. `#a`, `!a`, \
         `a `, `a b`, plus ancestors) + 1-4 .gitignore files at directories of the tree + optional global excludes; \
         ignore lines from the grammar: [!][/]seg(/seg)*[/][spaces] with seg in literals, escaped literals (\\#a, \
         \\!a, a\\ , a\\ b), *, ?, a*, *.o, classes [ab] [a-c] [!a], and **/x, x/**, a/**/b forms; comments, blank \
         lines, CRLF files, missing final newline (sub-check `git-vs-jj`); sub-check `odd-forms` mixes in unusual \
         spellings of the same forms (`**`, `***`, `a**`, `**a`, `[]a]`, `[[:alpha:]]`, `[^a]`, unclosed `[a`, `\\a`, \
         trailing backslash, `!`, `/`, `//`, `./a`, `a//b`, tabs, ...). Every file and directory of the tree (and the .gitignore files) \
         is decided by (1) the snapshotter's procedure re-stated over the public GitIgnoreFile API and (2) for files, \
         by a real snapshot, and both are compared with `git check-ignore --no-index -v -n`. Non-trivial = some path \
         is decided by a negation, an anchored pattern, a ** pattern, or a nested file overriding its parents; \
         distinct by whole case. Disagreements whose deciding git pattern is a pathname pattern with a literal prefix \
         directly followed by `**` are the known finding C28-literal-prefix-then-double-star (counted, search continues)",
    );
    report.assume("git 2.39.5 at /usr/bin/git is the reference implementation of gitignore semantics");
    report.assume(
        "git is run hermetically (empty environment, HOME and GIT_CEILING_DIRECTORIES in scratch, \
         GIT_CONFIG_GLOBAL/SYSTEM=/dev/null, LC_ALL=C; no generated name starts with `:` or contains glob characters, so pathspec magic is inert) in a hand-made minimal .git directory \
         whose config sets core.excludesFile",
    );
    let tier = report.tier;
    report.prop("git-vs-jj", tier.pick(240, 20_000), || case_strategy(false), check);
    report.prop("odd-forms", tier.pick(100, 10_000), || case_strategy(true), check);
}
