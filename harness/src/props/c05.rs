//! C05 Materialized conflicts parse back to the same conflict.
//!
//! Round trip: `parse_conflict(materialize(m), m.num_sides(), len) ==
//! merge_hunks(m)` for every marker style, with `len` the marker length
//! `choose_materialized_conflict_marker_len` chooses.

use bstr::BString;
use jj_lib::conflict_labels::ConflictLabels;
use jj_lib::conflicts::ConflictMarkerStyle;
use jj_lib::conflicts::ConflictMaterializeOptions;
use jj_lib::conflicts::MIN_CONFLICT_MARKER_LEN;
use jj_lib::conflicts::choose_materialized_conflict_marker_len;
use jj_lib::conflicts::materialize_merge_result;
use jj_lib::conflicts::materialize_merge_result_to_bytes;
use jj_lib::conflicts::parse_conflict;
use jj_lib::files;
use jj_lib::files::FileMergeHunkLevel;
use jj_lib::files::MergeResult;
use jj_lib::merge::Merge;
use jj_lib::merge::SameChange;
use jj_lib::tree_merge::MergeOptions;
use proptest::prelude::*;
use serde::Deserialize;
use serde::Serialize;

use crate::engine::runner::CheckResult;
use crate::engine::runner::Outcome;
use crate::engine::runner::Report;
use crate::engine::runner::Violation;
use crate::gens::conflict::conflict_terms;
use crate::gens::conflict::labels;
use crate::gens::content::Bytes;

pub const STYLES: [ConflictMarkerStyle; 4] = [
    ConflictMarkerStyle::Diff,
    ConflictMarkerStyle::DiffExperimental,
    ConflictMarkerStyle::Snapshot,
    ConflictMarkerStyle::Git,
];

pub fn style_name(style: ConflictMarkerStyle) -> &'static str {
    match style {
        ConflictMarkerStyle::Diff => "diff",
        ConflictMarkerStyle::DiffExperimental => "diff-experimental",
        ConflictMarkerStyle::Snapshot => "snapshot",
        ConflictMarkerStyle::Git => "git",
    }
}

/// What the round-trip oracle saw (for classification).
#[derive(Debug, Clone, Default)]
pub struct RoundTripInfo {
    /// `merge_hunks` returned a conflict.
    pub conflict: bool,
    pub marker_len: usize,
    pub num_sides: usize,
    pub num_conflict_hunks: usize,
    pub has_resolved_hunk: bool,
    /// Some conflict hunk has a non-empty term without a final `\n` (the
    /// "spread the EOL" path of materialization).
    pub eol_spread: bool,
    /// Some conflict hunk term ends with a lone `\r`.
    pub lone_cr_tail: bool,
    /// The materialized markers are terminated by CRLF.
    pub crlf: bool,
}

fn show(bytes: &[u8]) -> String {
    format!("{:?}", bstr::BStr::new(bytes))
}

fn show_hunks(hunks: &Option<Vec<Merge<BString>>>) -> String {
    format!("{hunks:?}")
}

/// The core round-trip oracle over plain byte vectors (reusable by a fuzz
/// target). `terms` has odd length (adds at even positions); `labels` is empty
/// or has one entry per term and must not contain control characters.
///
/// Returns `Err(message)` if the round trip is broken for `style`.
pub fn roundtrip_oracle(
    terms: &[Vec<u8>],
    labels: &[String],
    style: ConflictMarkerStyle,
    hunk_level: FileMergeHunkLevel,
    same_change: SameChange,
) -> Result<RoundTripInfo, String> {
    assert!(terms.len() % 2 == 1, "odd number of terms");
    let merge = Merge::from_vec(terms.to_vec());
    let num_sides = merge.num_sides();
    let labels = ConflictLabels::from_vec(labels.to_vec());
    let merge_options = MergeOptions {
        hunk_level,
        same_change,
    };
    let expected = files::merge_hunks(&merge, &merge_options);
    let len = choose_materialized_conflict_marker_len(&merge);
    if len < MIN_CONFLICT_MARKER_LEN {
        return Err(format!("chosen marker length {len} below the minimum"));
    }
    let options = |marker_len| ConflictMaterializeOptions {
        marker_style: style,
        marker_len,
        merge: merge_options.clone(),
    };
    let text = materialize_merge_result_to_bytes(&merge, &labels, &options(Some(len)));
    // Letting the function choose the length gives the same text, and so does
    // the streaming variant.
    let text_auto = materialize_merge_result_to_bytes(&merge, &labels, &options(None));
    if text_auto != text {
        return Err(format!(
            "marker_len=None output differs from marker_len=Some({len}): {} vs {}",
            show(&text_auto),
            show(&text)
        ));
    }
    let mut streamed = vec![];
    if let Err(err) = materialize_merge_result(&merge, &labels, &mut streamed, &options(None)) {
        return Err(format!("materialize_merge_result failed on a Vec: {err}"));
    }
    if streamed != *text {
        return Err(format!(
            "materialize_merge_result differs from materialize_merge_result_to_bytes: {} vs {}",
            show(&streamed),
            show(&text)
        ));
    }
    let parsed = parse_conflict(&text, num_sides, len);
    let mut info = RoundTripInfo {
        marker_len: len,
        num_sides,
        ..RoundTripInfo::default()
    };
    match expected {
        MergeResult::Resolved(content) => {
            if text != content {
                return Err(format!(
                    "resolved merge materialized as {} instead of {}",
                    show(&text),
                    show(&content)
                ));
            }
            if parsed.is_some() {
                return Err(format!(
                    "resolved content {} parses as a {num_sides}-sided conflict with marker \
                     length {len}: {}",
                    show(&text),
                    show_hunks(&parsed)
                ));
            }
        }
        MergeResult::Conflict(hunks) => {
            info.conflict = true;
            for hunk in &hunks {
                if hunk.is_resolved() {
                    info.has_resolved_hunk = true;
                    continue;
                }
                info.num_conflict_hunks += 1;
                for term in hunk.iter() {
                    if term.last().is_some_and(|b| *b != b'\n') {
                        info.eol_spread = true;
                    }
                    if term.last() == Some(&b'\r') {
                        info.lone_cr_tail = true;
                    }
                }
            }
            // Classification only: are the marker lines terminated by CRLF?
            info.crlf = text
                .split_inclusive(|b| *b == b'\n')
                .find(|line| line.len() >= len && line[..len].iter().all(|b| *b == b'<'))
                .is_some_and(|line| line.ends_with(b"\r\n"));
            if parsed.as_ref() != Some(&hunks) {
                return Err(format!(
                    "round trip broken (style {}, marker length {len}): materialized {} parses \
                     to {} but merge_hunks gave {:?}",
                    style_name(style),
                    show(&text),
                    show_hunks(&parsed),
                    hunks
                ));
            }
        }
    }
    Ok(info)
}

#[derive(Debug, Clone, Serialize, Deserialize)]
pub struct Case {
    /// Terms of the merge (adds at even positions).
    pub terms: Vec<Bytes>,
    /// Empty, or one label per term (no control characters).
    pub labels: Vec<String>,
    pub word_level: bool,
    pub accept_same_change: bool,
}

pub fn case_strategy() -> impl Strategy<Value = Case> {
    conflict_terms()
        .prop_flat_map(|terms| {
            let n = terms.len();
            (Just(terms), labels(n), prop::bool::weighted(0.3), prop::bool::weighted(0.6))
        })
        .prop_map(|(terms, labels, word_level, accept_same_change)| Case {
            terms,
            labels,
            word_level,
            accept_same_change,
        })
}

/// Known finding: with `merge.hunk-level = "word"` a word-level merge can
/// resolve a line to a run of marker characters longer than any run in the
/// inputs, which `choose_materialized_conflict_marker_len` (it only looks at
/// the inputs) does not account for.
pub const SIG_WORD_JOIN: &str = "C05-word-merge-creates-marker";

/// The resolved parts of the merge contain a marker-like line of at least the
/// chosen length although no input does (only possible at word level).
fn is_word_join(case: &Case, len: usize) -> bool {
    if !case.word_level {
        return false;
    }
    let merge = Merge::from_vec(case.terms.iter().map(|t| t.0.clone()).collect::<Vec<_>>());
    let options = MergeOptions {
        hunk_level: FileMergeHunkLevel::Word,
        same_change: if case.accept_same_change {
            SameChange::Accept
        } else {
            SameChange::Keep
        },
    };
    let resolved: Vec<BString> = match files::merge_hunks(&merge, &options) {
        MergeResult::Resolved(c) => vec![c],
        MergeResult::Conflict(hunks) => hunks
            .into_iter()
            .filter_map(|h| h.into_resolved().ok())
            .collect(),
    };
    resolved.iter().any(|content| {
        content.split_inclusive(|b| *b == b'\n').any(|line| {
            let Some(&first) = line.first() else { return false };
            if !b"<>+-%\\|=".contains(&first) {
                return false;
            }
            let run = line.iter().take_while(|b| **b == first).count();
            run >= len && line.get(run).is_none_or(|b| b.is_ascii_whitespace())
        })
    })
}

pub fn check(case: &Case) -> CheckResult {
    let terms: Vec<Vec<u8>> = case.terms.iter().map(|t| t.0.clone()).collect();
    crate::ensure!(terms.len() % 2 == 1 && terms.len() >= 3, "malformed case: term count");
    crate::ensure!(
        case.labels.is_empty() || case.labels.len() == terms.len(),
        "malformed case: label count"
    );
    crate::ensure!(
        case.labels.iter().all(|l| !l.chars().any(char::is_control)),
        "malformed case: control character in label"
    );
    let hunk_level = if case.word_level {
        FileMergeHunkLevel::Word
    } else {
        FileMergeHunkLevel::Line
    };
    let same_change = if case.accept_same_change {
        SameChange::Accept
    } else {
        SameChange::Keep
    };
    let mut info = RoundTripInfo::default();
    for style in STYLES {
        match roundtrip_oracle(&terms, &case.labels, style, hunk_level, same_change) {
            Ok(i) => info = i,
            Err(msg) => {
                let len = choose_materialized_conflict_marker_len(&Merge::from_vec(terms.clone()));
                if is_word_join(case, len) {
                    return Err(Violation::known(SIG_WORD_JOIN, msg));
                }
                return Err(Violation::new(msg));
            }
        }
    }
    let lookalike = info.marker_len > MIN_CONFLICT_MARKER_LEN + 3;
    let nontrivial = info.conflict
        && (info.eol_spread || info.crlf || lookalike || info.num_sides >= 3);
    Ok(Outcome::new(nontrivial)
        .class_if(info.conflict, "conflict")
        .class_if(!info.conflict, "resolved")
        .class_if(info.conflict && info.eol_spread, "conflict:eol-spread")
        .class_if(info.conflict && info.lone_cr_tail, "conflict:lone-cr-tail")
        .class_if(info.conflict && info.crlf, "conflict:crlf")
        .class_if(info.conflict && info.crlf && info.eol_spread, "conflict:crlf+eol-spread")
        .class_if(info.conflict && lookalike, "conflict:lookalike>=7")
        .class_if(info.conflict && info.num_sides == 3, "conflict:3-sides")
        .class_if(info.conflict && info.num_sides >= 4, "conflict:4-sides")
        .class_if(info.conflict && info.num_conflict_hunks >= 2, "conflict:>=2-hunks")
        .class_if(info.conflict && !case.labels.is_empty(), "conflict:labeled")
        .class_if(info.conflict && case.word_level, "conflict:word-level")
        .class_if(info.conflict && !case.accept_same_change, "conflict:same-change-keep"))
}

pub fn run(report: &mut Report) {
    report.set_rule(
        "Merge<Vec<u8>> with 2..4 sides: random line edits of a common base (marker look-alikes of \
         every marker character, lengths 1..20, LF/CRLF/mixed EOL, missing final newline, lone \
         trailing CR, empty terms, NUL/unicode/raw bytes, word-merge run-joining shapes) x labels \
         (none | per-term labels without control characters) x hunk level x same-change; each \
         case is materialized and parsed back in all 4 marker styles with the marker length \
         choose_materialized_conflict_marker_len picks. non-trivial = merge_hunks yields a \
         conflict and (a conflict term lacks its final newline, or CRLF markers, or a look-alike \
         of >= 7 marker characters, or >= 3 sides); distinct by whole case",
    );
    report.assume(
        "files::merge_hunks is the reference for the expected hunks (its own laws are C04); labels \
         are restricted to strings without control characters, the domain Commit::conflict_label \
         produces",
    );
    let cases = report.tier.pick(24_000, 600_000);
    report.prop("roundtrip", cases, case_strategy, check);
}
