use crate::engine::runner::Report;

pub mod c01;
pub mod c02;
pub mod c09;
pub mod c14;
pub mod c15;
pub mod c30;
pub mod c31;
pub mod c32;
pub mod c33;
pub mod c35;
pub mod c40;
pub mod c41;
pub mod c42;
pub mod c45;

pub type RunFn = fn(&mut Report);

pub const REGISTRY: &[(&str, RunFn)] = &[
    ("C01", c01::run),
    ("C02", c02::run),
    ("C09", c09::run),
    ("C14", c14::run),
    ("C15", c15::run),
    ("C30", c30::run),
    ("C31", c31::run),
    ("C32", c32::run),
    ("C33", c33::run),
    ("C35", c35::run),
    ("C40", c40::run),
    ("C41", c41::run),
    ("C42", c42::run),
    ("C45", c45::run),
];

pub fn lookup(id: &str) -> Option<(&'static str, RunFn)> {
    REGISTRY.iter().find(|(i, _)| *i == id).map(|(i, f)| (*i, *f))
}
