use crate::engine::runner::Report;

pub mod c01;
pub mod c02;
pub mod c03;
pub mod c04;
pub mod c05;
pub mod c06;
pub mod c07;
pub mod c08;
pub mod c09;
pub mod c10;
pub mod c11;
pub mod c12;
pub mod c13;
pub mod c14;
pub mod c15;
pub mod c16;
pub mod c17;
pub mod c18;
pub mod c19;
pub mod c20;
pub mod c21;
pub mod c22;
pub mod c23;
pub mod c24;
pub mod c25;
pub mod c26;
pub mod c27;
pub mod c28;
pub mod c29;
pub mod c30;
pub mod c31;
pub mod c32;
pub mod c33;
pub mod c34;
pub mod c35;
pub mod c36;
pub mod c37;
pub mod c38;
pub mod c39;
pub mod c40;
pub mod c41;
pub mod c42;
pub mod c43;
pub mod c44;
pub mod c45;
pub mod c46;

pub type RunFn = fn(&mut Report);

pub const REGISTRY: &[(&str, RunFn)] = &[
    ("C01", c01::run),
    ("C02", c02::run),
    ("C03", c03::run),
    ("C04", c04::run),
    ("C05", c05::run),
    ("C06", c06::run),
    ("C07", c07::run),
    ("C08", c08::run),
    ("C09", c09::run),
    ("C10", c10::run),
    ("C11", c11::run),
    ("C12", c12::run),
    ("C13", c13::run),
    ("C14", c14::run),
    ("C15", c15::run),
    ("C16", c16::run),
    ("C17", c17::run),
    ("C18", c18::run),
    ("C19", c19::run),
    ("C20", c20::run),
    ("C21", c21::run),
    ("C22", c22::run),
    ("C23", c23::run),
    ("C24", c24::run),
    ("C25", c25::run),
    ("C26", c26::run),
    ("C27", c27::run),
    ("C28", c28::run),
    ("C29", c29::run),
    ("C30", c30::run),
    ("C31", c31::run),
    ("C32", c32::run),
    ("C33", c33::run),
    ("C34", c34::run),
    ("C35", c35::run),
    ("C36", c36::run),
    ("C37", c37::run),
    ("C38", c38::run),
    ("C39", c39::run),
    ("C40", c40::run),
    ("C41", c41::run),
    ("C42", c42::run),
    ("C43", c43::run),
    ("C44", c44::run),
    ("C45", c45::run),
    ("C46", c46::run),
];

pub fn lookup(id: &str) -> Option<(&'static str, RunFn)> {
    REGISTRY.iter().find(|(i, _)| *i == id).map(|(i, f)| (*i, *f))
}
