//! C33 Git ref names and jj bookmark/tag symbols map one-to-one (pure part).
//!
//! `to_git_ref_name` is private; it is reached through the `verif-hooks` hook
//! `jj_lib::git::verif_to_git_ref_name`. `validate_remote_name` is private too;
//! it is reached through the public `git::set_remote_urls`, which validates the
//! name and then fails with `NoSuchRemote` on a remote-less Git store (nothing
//! is modified).

use std::sync::Arc;
use std::sync::OnceLock;

use bstr::ByteSlice as _;
use jj_lib::git;
use jj_lib::git::GitRefKind;
use jj_lib::git::GitRemoteManagementError;
use jj_lib::git_backend::GitBackend;
use jj_lib::tree_merge::MergeOptions;
use jj_lib::ref_name::GitRefName;
use jj_lib::ref_name::RefName;
use jj_lib::ref_name::RemoteName;
use jj_lib::ref_name::RemoteRefSymbol;
use jj_lib::signing::Signer;
use jj_lib::store::Store;
use proptest::prelude::*;
use serde::Deserialize;
use serde::Serialize;

use crate::engine::runner::CheckResult;
use crate::engine::runner::Outcome;
use crate::engine::runner::Report;
use crate::engine::runner::Violation;
use crate::engine::runner::new_scratch_dir;
use crate::engine::runner::pick;
use crate::ensure;
use crate::ensure_eq;

// ---------------------------------------------------------------------------
// Real remote-name validator through a public route

struct GitStore {
    _dir: tempfile::TempDir,
    store: Arc<Store>,
}

static GIT_STORE: OnceLock<GitStore> = OnceLock::new();

fn git_store() -> &'static Arc<Store> {
    &GIT_STORE
        .get_or_init(|| {
            let dir = new_scratch_dir("c33-");
            let settings = testutils::user_settings();
            let backend =
                GitBackend::init_internal(&settings, dir.path(), gix::hash::Kind::default())
                    .expect("init git backend");
            let store = Store::new(
                Box::new(backend),
                Signer::from_settings(&settings).expect("signer"),
                MergeOptions::from_settings(&settings).expect("merge options"),
            );
            GitStore { _dir: dir, store }
        })
        .store
}

/// `Ok(true)`: the real `validate_remote_name` accepts `name`.
fn remote_name_accepted(name: &str) -> Result<bool, Violation> {
    match git::set_remote_urls(git_store(), RemoteName::new(name), Some("u"), None) {
        Err(GitRemoteManagementError::RemoteName(_)) => Ok(false),
        Err(GitRemoteManagementError::NoSuchRemote(_)) => Ok(true),
        Ok(()) => Err(Violation::new(format!(
            "set_remote_urls({name:?}) succeeded on a store without remotes"
        ))),
        // Validation passed, the lookup itself failed for another reason.
        Err(_) => Ok(true),
    }
}

// ---------------------------------------------------------------------------
// Case types

#[derive(Debug, Clone, Copy, Serialize, Deserialize, PartialEq, Eq)]
pub enum Kind {
    Bookmark,
    Tag,
}

impl Kind {
    fn real(self) -> GitRefKind {
        match self {
            Self::Bookmark => GitRefKind::Bookmark,
            Self::Tag => GitRefKind::Tag,
        }
    }
}

#[derive(Debug, Clone, Serialize, Deserialize, PartialEq, Eq)]
pub struct Sym {
    pub kind: Kind,
    pub name: String,
    pub remote: String,
}

#[derive(Debug, Clone, Serialize, Deserialize)]
pub struct PairCase {
    pub a: Sym,
    pub b: Sym,
}

#[derive(Debug, Clone, Serialize, Deserialize)]
pub struct RefCase {
    pub full: String,
}

// ---------------------------------------------------------------------------
// Generators

const SEGMENTS: &[&str] = &[
    "a", "b", "main", "HEAD", "head", "HEADx", "xHEAD", "x.lock", ".hid", "é", "日本", "@", "a@b",
    "-", "git", "refs", "heads", "tags", "remotes", "origin", "foo.", "a..b", "a b", "~", "^", ":",
    "*", "\\", "\u{7f}", "@{", "", ".", "..", "v1.0", "\u{1F600}", "e\u{301}",
];

const REMOTES: &[&str] = &[
    "origin", "upstream", "a", "b", "é", "日本", "my-remote", "a.b", "a b", "", "a/b", "origin/x",
    "/a", "a/", ".a", "a.", "a..b", "x.lock", "-", "*", "a:b", "+a", "^a", "HEAD", "heads", "refs",
    "@", "a@b", "~", "\u{7f}", "a\\b", "Git", "GIT", "git/x", "remotes", "\u{1F600}",
];

fn segment() -> impl Strategy<Value = String> {
    prop_oneof![
        12 => any::<u16>().prop_map(|r| SEGMENTS[pick(r, SEGMENTS.len())].to_string()),
        1 => "\\PC{0,6}",
        1 => "[a-zA-Z0-9._-]{1,6}",
    ]
}

fn name() -> impl Strategy<Value = String> {
    prop::collection::vec(segment(), 1..=4).prop_map(|segs| segs.join("/"))
}

fn remote() -> impl Strategy<Value = String> {
    prop_oneof![
        6 => Just("git".to_string()),
        10 => any::<u16>().prop_map(|r| REMOTES[pick(r, REMOTES.len())].to_string()),
        6 => "[a-zA-Z0-9_-]{1,6}",
        1 => "\\PC{0,6}",
    ]
}

fn kind() -> impl Strategy<Value = Kind> {
    prop_oneof![2 => Just(Kind::Bookmark), 1 => Just(Kind::Tag)]
}

fn sym() -> impl Strategy<Value = Sym> {
    (kind(), name(), remote()).prop_map(|(kind, name, remote)| Sym { kind, name, remote })
}

/// `b` is a near neighbour of `a`: the same text cut differently into
/// (kind, remote, name).
fn pair_case() -> impl Strategy<Value = PairCase> {
    (sym(), sym(), 0u8..8).prop_map(|(a, other, mode)| {
        let b = match mode {
            0 => a.clone(),
            1 => Sym {
                kind: if a.kind == Kind::Bookmark { Kind::Tag } else { Kind::Bookmark },
                ..a.clone()
            },
            // first name segment becomes the remote
            2 => match a.name.split_once('/') {
                Some((first, rest)) => Sym {
                    kind: a.kind,
                    name: rest.to_string(),
                    remote: first.to_string(),
                },
                None => other,
            },
            // remote becomes the first name segment of a local ref
            3 => Sym {
                kind: a.kind,
                name: format!("{}/{}", a.remote, a.name),
                remote: "git".to_string(),
            },
            // a local name that spells another namespace
            4 => Sym {
                kind: Kind::Bookmark,
                name: format!("remotes/{}/{}", a.remote, a.name),
                remote: "git".to_string(),
            },
            5 => Sym {
                remote: other.remote,
                ..a.clone()
            },
            6 => Sym {
                name: other.name,
                ..a.clone()
            },
            _ => other,
        };
        PairCase { a, b }
    })
}

const PREFIXES: &[&str] = &[
    "refs/heads/",
    "refs/tags/",
    "refs/remotes/",
    "refs/remotes/origin/",
    "refs/remotes/git/",
    "refs/remotes/é/",
    "refs/jj/remote-tags/origin/",
    "refs/jj/keep/",
    "refs/notes/",
    "refs/",
    "refs/heads",
    "refs/tags",
    "refs/remotes",
    "",
    "refs/heads/refs/heads/",
    "refs/Heads/",
];

/// Segments Git accepts inside a ref name.
const GIT_OK_SEGMENTS: &[&str] = &[
    "a", "b", "main", "HEAD", "head", "HEADx", "xHEAD", "é", "日本", "@", "a@b", "-", "git", "refs",
    "heads", "tags", "remotes", "origin", "v1.0", "x.locked", "\u{1F600}", "e\u{301}", "a.b", "{",
];

fn git_ok_name() -> impl Strategy<Value = String> {
    prop::collection::vec(
        any::<u16>().prop_map(|r| GIT_OK_SEGMENTS[pick(r, GIT_OK_SEGMENTS.len())]),
        1..=4,
    )
    .prop_map(|segs| segs.join("/"))
}

fn ref_case() -> impl Strategy<Value = RefCase> {
    prop_oneof![
        // importable namespaces with names Git accepts
        8 => (any::<u16>(), git_ok_name())
            .prop_map(|(p, n)| format!("{}{n}", PREFIXES[pick(p, 6)])),
        4 => (any::<u16>(), git_ok_name()).prop_map(|(r, n)| {
            // remote position: a single Git-acceptable segment
            let remote = GIT_OK_SEGMENTS[pick(r, GIT_OK_SEGMENTS.len())];
            format!("refs/remotes/{remote}/{n}")
        }),
        6 => (any::<u16>(), name())
            .prop_map(|(p, n)| format!("{}{n}", PREFIXES[pick(p, PREFIXES.len())])),
        3 => (remote(), name()).prop_map(|(r, n)| format!("refs/remotes/{r}/{n}")),
        // the names the HEAD exclusions are about
        2 => (any::<u16>(), any::<u16>()).prop_map(|(p, h)| {
            let head = ["HEAD", "HEAD/a", "a/HEAD", "head"][pick(h, 4)];
            format!("{}{head}", ["refs/heads/", "refs/tags/", "refs/remotes/origin/", "refs/remotes/é/"][pick(p, 4)])
        }),
        1 => Just("HEAD".to_string()),
        1 => Just("refs/jj/root".to_string()),
        1 => Just("refs/stash".to_string()),
        1 => "\\PC{0,12}",
    ]
    .prop_map(|full| RefCase { full })
}

// ---------------------------------------------------------------------------
// Checks

/// Domain of the statement: the reserved local remote, or a remote name jj
/// accepts. Also checks what the validator itself promises.
fn remote_in_domain(remote: &str) -> Result<bool, Violation> {
    let accepted = remote_name_accepted(remote)?;
    if accepted {
        ensure!(!remote.is_empty(), "validate_remote_name accepts the empty name");
        ensure!(
            !remote.contains('/'),
            "validate_remote_name accepts {remote:?}, which contains a slash"
        );
        ensure!(remote != "git", "validate_remote_name accepts the reserved name \"git\"");
    } else {
        let plain = !remote.is_empty()
            && remote != "git"
            && remote.chars().all(|c| c.is_ascii_alphanumeric());
        ensure!(!plain, "validate_remote_name rejects the plain name {remote:?}");
    }
    Ok(accepted || remote == "git")
}

fn export(sym: &Sym) -> Option<String> {
    let symbol = RemoteRefSymbol {
        name: RefName::new(&sym.name),
        remote: RemoteName::new(&sym.remote),
    };
    git::verif_to_git_ref_name(sym.kind.real(), symbol).map(|r| r.into_string())
}

fn import(full: &str) -> Option<Sym> {
    git::parse_git_ref(GitRefName::new(full)).map(|(kind, symbol)| Sym {
        kind: match kind {
            GitRefKind::Bookmark => Kind::Bookmark,
            GitRefKind::Tag => Kind::Tag,
        },
        name: symbol.name.as_str().to_string(),
        remote: symbol.remote.as_str().to_string(),
    })
}

fn interesting(sym: &Sym) -> bool {
    sym.name.contains('/') || sym.name.contains("HEAD") || sym.remote != "git"
}

fn check_forward(sym: &Sym) -> CheckResult {
    if !remote_in_domain(&sym.remote)? {
        return Ok(Outcome::new(false).class("fwd:remote-rejected-by-jj"));
    }
    let exported = export(sym);
    // Which symbols have a Git ref at all (documented next to to_git_ref_name:
    // empty names never, bookmark "HEAD" never, tags only locally).
    let exportable = !sym.name.is_empty()
        && !(sym.kind == Kind::Bookmark && sym.name == "HEAD")
        && !(sym.kind == Kind::Tag && sym.remote != "git");
    ensure_eq!(exported.is_some(), exportable, "to_git_ref_name({sym:?}) = {exported:?}");
    let Some(full) = &exported else {
        return Ok(Outcome::new(false)
            .class_if(sym.name == "HEAD", "fwd:HEAD-not-exportable")
            .class_if(sym.kind == Kind::Tag && sym.remote != "git", "fwd:remote-tag-not-exportable"));
    };
    let namespace = match (sym.kind, sym.remote.as_str()) {
        (Kind::Bookmark, "git") => "refs/heads/".to_string(),
        (Kind::Bookmark, r) => format!("refs/remotes/{r}/"),
        (Kind::Tag, _) => "refs/tags/".to_string(),
    };
    ensure!(
        full.strip_prefix(&namespace) == Some(sym.name.as_str()),
        "to_git_ref_name({sym:?}) = {full:?} is not {namespace:?} + name"
    );
    let back = import(full);
    ensure!(
        back.as_ref() == Some(sym),
        "to_git_ref_name({sym:?}) = {full:?} but parse_git_ref gives {back:?}"
    );
    let git_valid = gix::validate::reference::name(full.as_bytes().as_bstr()).is_ok();
    Ok(Outcome::new(interesting(sym))
        .class_if(sym.remote != "git", "fwd:remote-bookmark")
        .class_if(sym.kind == Kind::Tag, "fwd:tag")
        .class_if(sym.name.contains('/'), "fwd:name-with-slash")
        .class_if(sym.name.contains("HEAD"), "fwd:name-contains-HEAD")
        .class_if(git_valid, "fwd:git-valid-ref")
        .class_if(!sym.name.is_ascii() || !sym.remote.is_ascii(), "fwd:non-ascii"))
}

fn check_pair(case: &PairCase) -> CheckResult {
    if !remote_in_domain(&case.a.remote)? || !remote_in_domain(&case.b.remote)? {
        return Ok(Outcome::new(false).class("pair:remote-rejected-by-jj"));
    }
    let (ra, rb) = (export(&case.a), export(&case.b));
    if case.a == case.b {
        ensure_eq!(ra, rb, "same symbol, different refs");
        return Ok(Outcome::new(false).class("pair:same-symbol"));
    }
    let (Some(ra), Some(rb)) = (ra, rb) else {
        return Ok(Outcome::new(false).class("pair:not-both-exportable"));
    };
    ensure!(
        ra != rb,
        "two different symbols {:?} and {:?} share the Git ref {ra:?}",
        case.a,
        case.b
    );
    let same_text = |s: &Sym| format!("{}/{}", s.remote, s.name);
    Ok(Outcome::new(interesting(&case.a) || interesting(&case.b))
        .class("pair:both-exportable")
        .class_if(
            same_text(&case.a) == same_text(&case.b)
                || case.a.name == same_text(&case.b)
                || case.b.name == same_text(&case.a),
            "pair:same-text-cut-differently",
        )
        .class_if(case.a.kind != case.b.kind && case.a.name == case.b.name, "pair:kind-differs-only"))
}

fn check_backward(case: &RefCase) -> CheckResult {
    let full = &case.full;
    let git_valid = gix::validate::reference::name(full.as_bytes().as_bstr()).is_ok();
    let parsed = import(full);
    let Some(sym) = &parsed else {
        return Ok(Outcome::new(false)
            .class_if(git_valid, "bwd:valid-not-imported")
            .class_if(git_valid && full.ends_with("/HEAD"), "bwd:HEAD-not-imported")
            .class_if(git_valid && full.starts_with("refs/remotes/git/"), "bwd:reserved-remote-not-imported"));
    };
    if !git_valid {
        // Not a ref Git can hold; jj never sees it on import.
        return Ok(Outcome::new(false).class("bwd:not-a-git-ref"));
    }
    let again = export(sym);
    ensure!(
        again.as_deref() == Some(full.as_str()),
        "parse_git_ref({full:?}) = {sym:?} but to_git_ref_name of that gives {again:?}"
    );
    // The symbol is one jj could have been asked to export.
    let remote_ok = remote_in_domain(&sym.remote)?;
    Ok(Outcome::new(interesting(sym))
        .class_if(sym.remote != "git", "bwd:remote-bookmark")
        .class_if(sym.remote == "git" && sym.kind == Kind::Bookmark, "bwd:local-bookmark")
        .class_if(sym.kind == Kind::Tag, "bwd:tag")
        .class_if(sym.name.contains('/'), "bwd:name-with-slash")
        .class_if(sym.name.contains("HEAD"), "bwd:name-contains-HEAD")
        .class_if(!remote_ok, "bwd:imported-remote-not-accepted-by-validator"))
}

pub fn run(report: &mut Report) {
    report.set_rule(
        "fwd: (kind, name, remote) with names of 1-4 '/'-joined segments from a 36-entry alphabet \
         (HEAD, .lock, leading dots, '@', unicode, empty, namespace words) or random unicode, remote \
         = 'git' or a candidate that the real validate_remote_name accepts (rejected candidates are \
         counted, not asserted on); pair: two symbols, the second a re-cut of the first's text \
         (segment moved between remote and name, kind flipped, namespace spelled inside the name); \
         bwd: namespace prefix + name, asserted only when gix::validate::reference::name accepts \
         the ref. Non-trivial = the name contains '/' or 'HEAD', or the remote is not 'git', and the \
         round trip was actually executed; distinct by whole case.",
    );
    report.assume(
        "validate_remote_name is observed through git::set_remote_urls on an empty Git store \
         (RemoteName error = rejected, NoSuchRemote = accepted); to_git_ref_name through the \
         verif-hooks hook H4; git-validity of a ref is decided by gix::validate::reference::name.",
    );
    // GitBackend reads the user's Git configuration when it opens the store.
    testutils::hermetic_git();
    git_store();
    let tier = report.tier;
    report.prop("fwd", tier.pick(60_000, 3_000_000), sym, check_forward);
    report.prop("pair", tier.pick(40_000, 2_000_000), pair_case, check_pair);
    report.prop("bwd", tier.pick(80_000, 4_000_000), ref_case, check_backward);
}
