//! C22 Changed-path index agrees with tree diffs.
//!
//! Generated histories (merges, file<->directory replacement, auto-merged and
//! conflicted merge commits, "take one parent" merges) are written into a
//! `TestRepo` over several transactions. Between transactions the changed-path
//! index is built with a random `max_commits` (so only part of the history is
//! indexed and later builds extend it), commits are indexed incrementally by
//! later transactions, concurrent operations (one of which may enable the index
//! on its own side) are merged, and the repo is reloaded from disk.
//!
//! Oracle: for every commit the index answers `None` or exactly the sorted list
//! of paths of `merge(parent trees).diff_stream(commit tree)`, computed when the
//! commit is written through code that never consults the changed-path index
//! (and, for single-parent commits over model trees, cross-checked against a
//! plain map comparison of the model trees). `files(..)` / `diff_lines(..)`
//! queries on the indexed repo are compared with a brute-force evaluation over
//! the oracle path lists and with the same query on a twin repo that never had a
//! changed-path index.

use std::collections::BTreeSet;
use std::sync::Arc;

use futures::StreamExt as _;
use jj_lib::backend::CommitId;
use jj_lib::commit::Commit;
use jj_lib::config::ConfigLayer;
use jj_lib::config::ConfigSource;
use jj_lib::default_index::DefaultIndexStore;
use jj_lib::default_index::DefaultReadonlyIndex;
use jj_lib::fileset::FilePattern;
use jj_lib::fileset::FilesetExpression;
use jj_lib::index::Index;
use jj_lib::matchers::EverythingMatcher;
use jj_lib::merged_tree::MergedTree;
use jj_lib::object_id::ObjectId as _;
use jj_lib::repo::MutableRepo;
use jj_lib::repo::ReadonlyRepo;
use jj_lib::repo::Repo;
use jj_lib::repo_path::RepoPathBuf;
use jj_lib::revset::DiffMatchSide;
use jj_lib::revset::RevsetExpression;
use jj_lib::revset::RevsetFilterPredicate;
use jj_lib::settings::UserSettings;
use jj_lib::str_util::StringExpression;
use pollster::FutureExt as _;
use proptest::prelude::*;
use serde::Deserialize;
use serde::Serialize;
use testutils::TestRepo;
use testutils::TestRepoBackend;

use crate::engine::runner::CheckResult;
use crate::engine::runner::Outcome;
use crate::engine::runner::Report;
use crate::engine::runner::Violation;
use crate::engine::runner::pick;
use crate::model::dag::BASE_TS;
use crate::model::dag::change_id;
use crate::model::dag::signature;
use crate::model::tree::ModelTree;
use crate::model::tree::TreeEdit;
use crate::model::tree::apply_edits;
use crate::model::tree::read_resolved_tree;
use crate::model::tree::repo_path;
use crate::model::tree::tree_edit;
use crate::model::tree::write_tree;

/// Finding made by this check: `collect_changed_paths()` (index) and
/// `has_diff_from_parent()` (no index) diff the commit against
/// `merge_commit_trees_no_resolve(parents)` — an un-simplified, unresolved
/// N-sided tree — and only resolve `before` per reported path. For merge commits
/// over conflicted or 3+-sided parent merges this differs from the diff against
/// the (resolved) merge of the parents in both directions: an unchanged conflict
/// is reported as changed (un-simplified vs simplified terms), and a removed file
/// below a path that is a file on some sides and a directory on others is not
/// reported. The signature is: the answer equals what that shortcut computes
/// (replicated in `no_resolve_paths`) and differs from the strict oracle.
pub const SIG_NO_RESOLVE: &str = "C22-changed-paths-diffed-against-unresolved-parent-merge";

/// Merge nodes turned into single-parent nodes because jj's debug assertion in
/// `MergedTree::resolve()` fired while merging their parents.
static REDIRECTED_RESOLVE_PANIC: std::sync::atomic::AtomicU64 = std::sync::atomic::AtomicU64::new(0);

#[derive(Debug, Clone, Serialize, Deserialize)]
pub enum TreeSpec {
    /// Edits applied to the auto-merged parents (to the nearest resolved
    /// first-parent ancestor if the auto-merge is conflicted).
    Edit(Vec<TreeEdit>),
    /// Exactly the auto-merged parents (an empty commit; may be conflicted).
    Merged,
    /// Exactly the tree of one parent ("ours" merge / revert of the other side).
    TakeParent(u16),
}

#[derive(Debug, Clone, Serialize, Deserialize)]
pub struct Node {
    /// First parent is the most recent visible commit.
    pub linear: bool,
    /// Raw parent selectors into the commits visible to the transaction.
    pub parents: Vec<u16>,
    pub tree: TreeSpec,
}

#[derive(Debug, Clone, Serialize, Deserialize)]
pub enum Step {
    /// Write the next `n` nodes in one transaction.
    Tx(u8),
    /// `build_changed_path_index_at_operation(current op, max_commits)` + reload.
    Build(u16),
    /// Two concurrent lines of operations from the current repo, then a load at
    /// head that merges them. Each side: transaction with `*_pre` nodes, optional
    /// index build, transaction with `a`/`b` nodes. Side B sees none of side A.
    Concurrent {
        a_pre: u8,
        a_build: Option<u16>,
        a: u8,
        #[serde(default)]
        b_pre: u8,
        #[serde(default)]
        b_build: Option<u16>,
        b: u8,
    },
    /// Load the repo afresh from the file system.
    Reload,
}

#[derive(Debug, Clone, Serialize, Deserialize)]
pub enum QueryKind {
    File,
    Prefix,
    FileGlob,
    PrefixGlob,
}

#[derive(Debug, Clone, Serialize, Deserialize)]
pub struct Query {
    /// One or two patterns (union).
    pub pats: Vec<(QueryKind, u16)>,
    /// Optional subtracted pattern.
    pub minus: Option<(QueryKind, u16)>,
    /// Use `diff_lines(<any line>, files)` instead of `files(files)` (compared
    /// with the index-free twin only).
    pub diff_lines: bool,
}

#[derive(Debug, Clone, Serialize, Deserialize)]
pub struct Case {
    pub nodes: Vec<Node>,
    pub steps: Vec<Step>,
    pub queries: Vec<Query>,
}

const MAX_COMMITS: &[u32] = &[0, 1, 2, 3, 4, 6, 10, 25, u32::MAX];
const QUERY_PATHS: &[&str] = &[
    "a", "b", "c", "d", "a/b", "a/c", "a/b/c", "a/b/d", "d/e", "d/e/f", "b/x", "ü", "a/ü", "c/y z",
    "zz",
];
const QUERY_GLOBS: &[&str] = &["*", "a/*", "**/c", "?", "a/b/*", "*/e", "**/*d*", "[ab]", "d/**"];

fn settings() -> UserSettings {
    let mut config = testutils::base_user_config();
    config.add_layer(
        ConfigLayer::parse(
            ConfigSource::User,
            r#"
            debug.commit-timestamp = "2001-02-03T04:05:06+07:00"
            debug.operation-timestamp = "2001-02-03T04:05:07+07:00"
            "#,
        )
        .unwrap(),
    );
    UserSettings::from_config(config).unwrap()
}

fn fail<T>(what: &str, e: impl std::fmt::Debug) -> Result<T, Violation> {
    Err(Violation::new(format!("{what}: {e:?}")))
}

/// Everything known about the nodes written so far into one repo.
#[derive(Default)]
struct World {
    commits: Vec<Commit>,
    parents: Vec<Vec<usize>>,
    models: Vec<Option<ModelTree>>,
    /// Oracle: sorted changed paths of node i against its merged parents.
    oracle: Vec<Vec<RepoPathBuf>>,
    /// What the no-resolve shortcut computes for node i (see SIG_NO_RESOLVE);
    /// equal to `oracle[i]` for almost all nodes.
    shortcut: Vec<Vec<RepoPathBuf>>,
}

fn diff_paths(from: &MergedTree, to: &MergedTree) -> Result<Vec<RepoPathBuf>, Violation> {
    let entries: Vec<_> = from.diff_stream(to, &EverythingMatcher).collect().block_on();
    let mut paths = vec![];
    for e in entries {
        match e.values {
            Ok(d) => {
                if d.is_changed() {
                    paths.push(e.path);
                }
            }
            Err(err) => return fail("tree diff failed", err),
        }
    }
    paths.sort();
    paths.dedup();
    Ok(paths)
}

/// Replica of the shortcut jj takes (signature of the known finding only; never
/// used as the oracle): diff against the unresolved parent merge, resolving
/// `before` per path.
fn no_resolve_paths(
    repo: &dyn Repo,
    parents: &[Commit],
    to: &MergedTree,
) -> Result<Vec<RepoPathBuf>, Violation> {
    let from = match jj_lib::rewrite::merge_commit_trees_no_resolve(repo, parents).block_on() {
        Ok(t) => t,
        Err(e) => return fail("merging parent trees without resolving", e),
    };
    let entries: Vec<_> = from.diff_stream(to, &EverythingMatcher).collect().block_on();
    let mut paths = vec![];
    for e in entries {
        let mut d = match e.values {
            Ok(d) => d,
            Err(err) => return fail("tree diff failed", err),
        };
        d.before = match jj_lib::tree_merge::resolve_file_values(repo.store(), &e.path, d.before)
            .block_on()
        {
            Ok(v) => v,
            Err(err) => return fail("resolve_file_values", err),
        };
        if d.is_changed() {
            paths.push(e.path);
        }
    }
    paths.sort();
    paths.dedup();
    Ok(paths)
}

fn init_world(repo: &dyn Repo, world: &mut World) {
    if world.commits.is_empty() {
        world.commits.push(repo.store().root_commit());
        world.parents.push(vec![]);
        world.models.push(Some(ModelTree::new()));
        world.oracle.push(vec![]);
        world.shortcut.push(vec![]);
    }
}

/// Writes node `i` (== world.commits.len()) into `mut_repo`; `visible` lists the
/// nodes the transaction can see, ascending.
fn write_node(
    mut_repo: &mut MutableRepo,
    world: &mut World,
    case: &Case,
    i: usize,
    visible: &[usize],
) -> Result<(), Violation> {
    let node = &case.nodes[i - 1];
    let mut ps: Vec<usize> = vec![];
    for (k, raw) in node.parents.iter().enumerate() {
        let p = if k == 0 && node.linear {
            *visible.last().unwrap()
        } else {
            visible[pick(*raw, visible.len())]
        };
        if !ps.contains(&p) {
            ps.push(p);
        }
    }
    // The root may only be a sole parent.
    if ps.len() > 1 {
        ps.retain(|p| *p != 0);
    }
    write_node_with_parents(mut_repo, world, node, i, ps)
}

fn write_node_with_parents(
    mut_repo: &mut MutableRepo,
    world: &mut World,
    node: &Node,
    i: usize,
    mut ps: Vec<usize>,
) -> Result<(), Violation> {
    assert_eq!(world.commits.len(), i);
    // Re-read the parents through the store of this repo instance (a reload from
    // disk creates a new Store; trees of different Store instances must not be mixed).
    let mut parent_commits: Vec<Commit> = vec![];
    for p in &ps {
        match mut_repo.store().get_commit(world.commits[*p].id()) {
            Ok(c) => parent_commits.push(c),
            Err(e) => return fail("reading a parent commit", e),
        }
    }
    // jj's own debug assertion in MergedTree::resolve() ("re-merge is idempotent")
    // fires for some generated merges (a C07 matter, reported separately). Such a
    // node is redirected to a single-parent commit so that the search continues.
    let merged = crate::engine::runner::catch(|| {
        jj_lib::rewrite::merge_commit_trees(&*mut_repo, &parent_commits)
            .block_on()
            .map_err(|e| Violation::new(format!("merging parent trees: {e:?}")))
    });
    let auto = match merged {
        Ok(t) => t,
        Err(v) if v.msg.starts_with("panic:") && v.msg.contains("merged_tree.rs") && ps.len() >= 2 => {
            REDIRECTED_RESOLVE_PANIC.fetch_add(1, std::sync::atomic::Ordering::Relaxed);
            if std::env::var_os("JJVERIF_C22_DEBUG").is_some() {
                eprintln!(
                    "C22 debug: merging the parents {ps:?} of node {i} panicked: {}\n  parent trees: {:?}",
                    v.msg,
                    parent_commits
                        .iter()
                        .map(|c| testutils::dump_tree(&c.tree()))
                        .collect::<Vec<_>>()
                );
            }
            ps.truncate(1);
            parent_commits.truncate(1);
            parent_commits[0].tree()
        }
        Err(v) => return Err(v),
    };
    let store = mut_repo.store().clone();
    let (tree, model): (MergedTree, Option<ModelTree>) = match &node.tree {
        TreeSpec::Merged => {
            let model = read_resolved_tree(&auto).ok();
            (auto.clone(), model)
        }
        TreeSpec::TakeParent(raw) => {
            let k = pick(*raw, ps.len());
            (parent_commits[k].tree(), world.models[ps[k]].clone())
        }
        TreeSpec::Edit(edits) => {
            let base = match read_resolved_tree(&auto) {
                Ok(m) => m,
                Err(_) => {
                    // nearest first-parent ancestor with a resolved tree
                    let mut cur = ps[0];
                    loop {
                        if let Some(m) = &world.models[cur] {
                            break m.clone();
                        }
                        cur = world.parents[cur][0];
                    }
                }
            };
            let m = apply_edits(&base, edits);
            (write_tree(&store, &m), Some(m))
        }
    };
    let oracle = diff_paths(&auto, &tree)?;
    let shortcut = if ps.len() >= 2 {
        no_resolve_paths(&*mut_repo, &parent_commits, &tree)?
    } else {
        oracle.clone()
    };
    // Cross-check of the oracle itself for the simple case.
    if let ([p], Some(m)) = (ps.as_slice(), &model)
        && let Some(pm) = &world.models[*p]
    {
        let mut expect: BTreeSet<&String> = BTreeSet::new();
        for (k, v) in pm {
            if m.get(k) != Some(v) {
                expect.insert(k);
            }
        }
        for k in m.keys() {
            if !pm.contains_key(k) {
                expect.insert(k);
            }
        }
        let mut expect: Vec<RepoPathBuf> = expect.into_iter().map(|k| repo_path(k)).collect();
        expect.sort();
        if expect != oracle {
            return Err(Violation::new(format!(
                "node {i}: diff_stream() of parent and commit tree gives {oracle:?} but the model trees \
                 differ at {expect:?}"
            )));
        }
    }
    let sig = signature(BASE_TS + 1000 * i as i64);
    let commit = mut_repo
        .new_commit(
            parent_commits.iter().map(|c| c.id().clone()).collect(),
            tree,
        )
        .set_change_id(change_id(i as u64))
        .set_description(format!("c{i}"))
        .set_author(sig.clone())
        .set_committer(sig)
        .write()
        .block_on();
    let commit = match commit {
        Ok(c) => c,
        Err(e) => return fail("write commit", e),
    };
    world.commits.push(commit);
    world.parents.push(ps);
    world.models.push(model);
    world.oracle.push(oracle);
    world.shortcut.push(shortcut);
    Ok(())
}

#[derive(Default)]
struct Stats {
    /// Nodes for which some index answered Some(..) at some point.
    ever_indexed: BTreeSet<usize>,
    /// Nodes answered Some(..) by the mutable index of the transaction that wrote them.
    incremental: BTreeSet<usize>,
    builds: u32,
    builds_partial: u32,
    concurrent: u32,
    concurrent_one_side_enabled: u32,
    concurrent_both_build: u32,
    reloads: u32,
    max_levels: usize,
    partial_state_queries: bool,
    /// Deviations matching SIG_NO_RESOLVE (first message kept).
    known_deviation: Option<String>,
    known_deviations: u32,
}

impl Stats {
    fn known(&mut self, msg: String) {
        self.known_deviations += 1;
        self.known_deviation.get_or_insert(msg);
    }
}

/// Checks every known node against `index`. Returns the number of nodes the
/// index has paths for.
fn check_index(
    what: &str,
    index: &dyn Index,
    world: &World,
    nodes: impl Iterator<Item = usize>,
    stats: &mut Stats,
    require_all: bool,
) -> Result<usize, Violation> {
    let mut n_some = 0;
    for i in nodes {
        let id = world.commits[i].id();
        match index.has_id(id).block_on() {
            Ok(true) => {}
            Ok(false) => {
                if require_all {
                    return Err(Violation::new(format!("{what}: node {i} is not in the index")));
                }
                continue;
            }
            Err(e) => return fail("has_id", e),
        }
        let got: Option<Vec<RepoPathBuf>> = match index.changed_paths_in_commit(id).block_on() {
            Ok(p) => p.map(|it| it.collect()),
            Err(e) => return fail("changed_paths_in_commit", e),
        };
        match got {
            None => {
                if require_all {
                    return Err(Violation::new(format!(
                        "{what}: node {i} has no changed paths although the whole history was indexed \
                         (max_commits = u32::MAX)"
                    )));
                }
            }
            Some(paths) => {
                n_some += 1;
                stats.ever_indexed.insert(i);
                if !paths.windows(2).all(|w| w[0] < w[1]) {
                    return Err(Violation::new(format!(
                        "{what}: changed paths of node {i} are not strictly sorted: {paths:?}"
                    )));
                }
                if paths != world.oracle[i] {
                    let msg = format!(
                        "{what}: changed-path index says node {i} (parents {:?}) changes {paths:?}, \
                         the diff against its merged parents is {:?}",
                        world.parents[i], world.oracle[i]
                    );
                    if paths == world.shortcut[i] {
                        stats.known(msg);
                    } else {
                        return Err(Violation::new(msg));
                    }
                }
            }
        }
    }
    Ok(n_some)
}

fn pattern(kind: &QueryKind, raw: u16) -> FilesetExpression {
    let path = QUERY_PATHS[pick(raw, QUERY_PATHS.len())];
    let glob = QUERY_GLOBS[pick(raw, QUERY_GLOBS.len())];
    let pat = match kind {
        QueryKind::File => FilePattern::root_file_path(path),
        QueryKind::Prefix => FilePattern::root_prefix_path(path),
        QueryKind::FileGlob => FilePattern::root_file_glob(glob),
        QueryKind::PrefixGlob => FilePattern::root_prefix_glob(glob),
    };
    FilesetExpression::pattern(pat.expect("valid pattern"))
}

fn fileset(q: &Query) -> FilesetExpression {
    let mut expr =
        FilesetExpression::union_all(q.pats.iter().map(|(k, r)| pattern(k, *r)).collect());
    if let Some((k, r)) = &q.minus {
        expr = expr.difference(pattern(k, *r));
    }
    expr
}

fn eval(repo: &dyn Repo, q: &Query) -> Result<BTreeSet<CommitId>, Violation> {
    let files = fileset(q);
    let pred = if q.diff_lines {
        RevsetFilterPredicate::DiffLines {
            text: StringExpression::all(),
            files,
            side: DiffMatchSide::Either,
        }
    } else {
        RevsetFilterPredicate::File(files)
    };
    let revset = match RevsetExpression::filter(pred).evaluate(repo) {
        Ok(r) => r,
        Err(e) => return fail("revset evaluation", e),
    };
    let ids: Vec<_> = revset.stream().collect().block_on();
    let mut out = BTreeSet::new();
    for id in ids {
        match id {
            Ok(id) => {
                out.insert(id);
            }
            Err(e) => return fail("revset iteration", e),
        }
    }
    Ok(out)
}

fn node_names(world: &World, ids: &BTreeSet<CommitId>) -> Vec<String> {
    ids.iter()
        .map(|id| match world.commits.iter().position(|c| c.id() == id) {
            Some(i) => format!("c{i}"),
            None => id.hex(),
        })
        .collect()
}

/// `files()` on `repo` against brute force over the oracle lists (and against
/// the twin repo, if given).
fn check_queries(
    what: &str,
    repo: &dyn Repo,
    twin: Option<&dyn Repo>,
    world: &World,
    case: &Case,
    stats: &mut Stats,
) -> Result<usize, Violation> {
    let mut nonempty = 0;
    for q in &case.queries {
        let got = eval(repo, q)?;
        if !q.diff_lines {
            let matcher = fileset(q).to_matcher();
            let brute: BTreeSet<CommitId> = (1..world.commits.len())
                .filter(|i| world.oracle[*i].iter().any(|p| matcher.matches(p)))
                .map(|i| world.commits[i].id().clone())
                .collect();
            if got != brute {
                let msg = format!(
                    "{what}: files({:?}) returns {:?}, diffing trees directly gives {:?}",
                    fileset(q),
                    node_names(world, &got),
                    node_names(world, &brute)
                );
                // Per commit: membership as the strict oracle says, or as the
                // no-resolve shortcut says.
                let explained = (1..world.commits.len()).all(|i| {
                    let is_in = got.contains(world.commits[i].id());
                    is_in == world.oracle[i].iter().any(|p| matcher.matches(p))
                        || is_in == world.shortcut[i].iter().any(|p| matcher.matches(p))
                }) && got.iter().all(|id| world.commits.iter().any(|c| c.id() == id));
                if explained {
                    stats.known(msg);
                } else {
                    return Err(Violation::new(msg));
                }
            }
        }
        if let Some(twin) = twin {
            let plain = eval(twin, q)?;
            if got != plain {
                return Err(Violation::new(format!(
                    "{what}: query {q:?} returns {:?} with the changed-path index and {:?} without",
                    node_names(world, &got),
                    node_names(world, &plain)
                )));
            }
        }
        if !got.is_empty() {
            nonempty += 1;
        }
    }
    Ok(nonempty)
}

fn build_index(
    repo: &Arc<ReadonlyRepo>,
    raw: u16,
    stats: &mut Stats,
) -> Result<(Arc<ReadonlyRepo>, u32), Violation> {
    let max = MAX_COMMITS[pick(raw, MAX_COMMITS.len())];
    let store: &DefaultIndexStore = repo
        .index_store()
        .downcast_ref()
        .expect("default index store");
    if let Err(e) = store
        .build_changed_path_index_at_operation(repo.op_id(), repo.store(), max, |_| ())
        .block_on()
    {
        return fail("build_changed_path_index_at_operation", e);
    }
    stats.builds += 1;
    if max != u32::MAX {
        stats.builds_partial += 1;
    }
    match repo.reload_at(repo.operation()).block_on() {
        Ok(r) => Ok((r, max)),
        Err(e) => fail("reload after index build", e),
    }
}

fn note_levels(repo: &Arc<ReadonlyRepo>, stats: &mut Stats) {
    if let Some(index) = repo.readonly_index().downcast_ref::<DefaultReadonlyIndex>() {
        stats.max_levels = stats.max_levels.max(index.stats().changed_path_levels.len());
    }
}

fn is_enabled(repo: &Arc<ReadonlyRepo>) -> bool {
    repo.readonly_index()
        .downcast_ref::<DefaultReadonlyIndex>()
        .is_some_and(|i| i.stats().changed_path_commits_range.is_some())
}

/// One transaction writing nodes `range` on top of `repo`; returns the new repo
/// (committed) or the open transaction.
fn run_tx(
    repo: &Arc<ReadonlyRepo>,
    world: &mut World,
    case: &Case,
    range: std::ops::Range<usize>,
    visible: &mut Vec<usize>,
    stats: &mut Stats,
) -> Result<jj_lib::transaction::Transaction, Violation> {
    let mut tx = repo.start_transaction();
    let enabled = is_enabled(repo);
    for i in range.clone() {
        write_node(tx.repo_mut(), world, case, i, visible)?;
        visible.push(i);
    }
    // The mutable index of the open transaction answers as well.
    let before: BTreeSet<usize> = stats.ever_indexed.clone();
    check_index(
        "open transaction",
        tx.repo().index(),
        world,
        visible.iter().copied(),
        stats,
        false,
    )?;
    if enabled {
        for i in range {
            if stats.ever_indexed.contains(&i) && !before.contains(&i) {
                stats.incremental.insert(i);
            }
        }
    }
    Ok(tx)
}

fn commit_tx(tx: jj_lib::transaction::Transaction) -> Result<Arc<ReadonlyRepo>, Violation> {
    match tx.commit("c22").block_on() {
        Ok(r) => Ok(r),
        Err(e) => fail("transaction commit", e),
    }
}

fn check(case: &Case) -> CheckResult {
    let settings = settings();
    let test_repo = TestRepo::init_with_backend_and_settings(TestRepoBackend::Simple, &settings);
    let mut repo = test_repo.repo.clone();
    let mut world = World::default();
    init_world(repo.as_ref(), &mut world);
    let mut stats = Stats::default();
    let n = case.nodes.len();
    let mut next = 1usize; // next node to write
    let mut visible: Vec<usize> = vec![0];
    let take = |next: usize, want: u8| -> usize { usize::from(want).min(n + 1 - next) };

    let mut steps: Vec<Step> = case.steps.clone();
    // Whatever is left is written at the end, then the state is checked, then
    // the whole history is indexed and checked again.
    steps.push(Step::Tx(u8::MAX));
    for (s, step) in steps.iter().enumerate() {
        let what = format!("step {s} {step:?}");
        match step {
            Step::Tx(want) => {
                let k = take(next, *want);
                if k == 0 {
                    continue;
                }
                let tx = run_tx(&repo, &mut world, case, next..next + k, &mut visible, &mut stats)?;
                next += k;
                repo = commit_tx(tx)?;
            }
            Step::Build(raw) => {
                (repo, _) = build_index(&repo, *raw, &mut stats)?;
            }
            Step::Reload => {
                repo = test_repo
                    .env
                    .load_repo_at_head(&settings, test_repo.repo_path());
                stats.reloads += 1;
            }
            Step::Concurrent {
                a_pre,
                a_build,
                a,
                b_pre,
                b_build,
                b,
            } => {
                let base = repo.clone();
                let base_visible = visible.clone();
                let was_enabled = is_enabled(&base);
                let mut sides = vec![];
                for (side, pre, build, main) in
                    [("A", a_pre, a_build, a), ("B", b_pre, b_build, b)]
                {
                    // Each side starts from the base repo and sees none of the other.
                    let mut vis = base_visible.clone();
                    let mut side_repo = base.clone();
                    let k = take(next, *pre);
                    if k > 0 {
                        let tx =
                            run_tx(&side_repo, &mut world, case, next..next + k, &mut vis, &mut stats)?;
                        next += k;
                        side_repo = commit_tx(tx)?;
                    }
                    if let Some(raw) = build {
                        (side_repo, _) = build_index(&side_repo, *raw, &mut stats)?;
                        check_index(
                            &format!("{what} side {side} after build"),
                            side_repo.index(),
                            &world,
                            vis.iter().copied(),
                            &mut stats,
                            false,
                        )?;
                    }
                    let k = take(next, *main);
                    let tx = if k > 0 {
                        let tx =
                            run_tx(&side_repo, &mut world, case, next..next + k, &mut vis, &mut stats)?;
                        next += k;
                        Some(tx)
                    } else {
                        None
                    };
                    sides.push((tx, vis, !Arc::ptr_eq(&side_repo, &base)));
                }
                let (tx_b, vis_b, b_moved) = sides.pop().unwrap();
                let (tx_a, vis_a, a_moved) = sides.pop().unwrap();
                let both = (tx_a.is_some() || a_moved) && (tx_b.is_some() || b_moved);
                if let Some(tx) = tx_a {
                    commit_tx(tx)?;
                }
                if let Some(tx) = tx_b {
                    commit_tx(tx)?;
                }
                repo = match base.loader().load_at_head().block_on() {
                    Ok(r) => r,
                    Err(e) => return fail("load at head (merging concurrent operations)", e),
                };
                if both {
                    stats.concurrent += 1;
                    if (a_build.is_some() != b_build.is_some()) && !was_enabled {
                        stats.concurrent_one_side_enabled += 1;
                    }
                    if a_build.is_some() && b_build.is_some() {
                        stats.concurrent_both_build += 1;
                    }
                }
                visible = base_visible;
                for i in vis_a.into_iter().chain(vis_b) {
                    if !visible.contains(&i) {
                        visible.push(i);
                    }
                }
                visible.sort();
            }
        }
        note_levels(&repo, &mut stats);
        check_index(&what, repo.index(), &world, visible.iter().copied(), &mut stats, false)?;
    }
    assert_eq!(next, n + 1);
    assert_eq!(visible.len(), n + 1);

    // Twin repo that never had a changed-path index: same history in one transaction.
    let twin_repo = TestRepo::init_with_backend_and_settings(TestRepoBackend::Simple, &settings);
    let mut twin_world = World::default();
    init_world(twin_repo.repo.as_ref(), &mut twin_world);
    let twin = {
        let mut tx = twin_repo.repo.start_transaction();
        for i in 1..=n {
            write_node_with_parents(
                tx.repo_mut(),
                &mut twin_world,
                &case.nodes[i - 1],
                i,
                world.parents[i].clone(),
            )?;
        }
        commit_tx(tx)?
    };
    // The auto-merged tree of a merge over conflicted parents carries conflict
    // terms/labels whose order follows index positions, which differ between the
    // two repos (different operation histories). Then commit ids differ and the
    // twin cannot be compared; the brute-force comparison remains.
    let twin_ok = (0..=n).all(|i| twin_world.commits[i].id() == world.commits[i].id());
    let twin_dyn: Option<&dyn Repo> = if twin_ok { Some(twin.as_ref()) } else { None };

    // Queries in the (usually partially indexed) state the generated steps left.
    let partially = {
        let some = check_index(
            "after all steps",
            repo.index(),
            &world,
            0..=n,
            &mut stats,
            false,
        )?;
        some > 0 && some < n + 1
    };
    stats.partial_state_queries = partially;
    let mut nonempty =
        check_queries("after all steps", repo.as_ref(), twin_dyn, &world, case, &mut stats)?;

    // Index everything, reload from disk, check completeness and the queries again.
    (repo, _) = build_index(&repo, u16::MAX, &mut stats)?;
    let _ = repo;
    let repo = test_repo
        .env
        .load_repo_at_head(&settings, test_repo.repo_path());
    note_levels(&repo, &mut stats);
    check_index(
        "after full build and reload",
        repo.index(),
        &world,
        0..=n,
        &mut stats,
        true,
    )?;
    nonempty += check_queries(
        "after full build and reload",
        repo.as_ref(),
        twin_dyn,
        &world,
        case,
        &mut stats,
    )?;
    // Consumers of the index other than revsets: emptiness.
    for i in 1..=n {
        let commit = match repo.store().get_commit(world.commits[i].id()) {
            Ok(c) => c,
            Err(e) => return fail("reading a commit", e),
        };
        match commit.is_empty(repo.as_ref()).block_on() {
            Ok(empty) => {
                if empty != world.oracle[i].is_empty() {
                    let msg = format!(
                        "Commit::is_empty() of node {i} is {empty} with the changed-path index, the diff \
                         against its merged parents is {:?}",
                        world.oracle[i]
                    );
                    if empty == world.shortcut[i].is_empty() {
                        stats.known(msg);
                    } else {
                        return Err(Violation::new(msg));
                    }
                }
            }
            Err(e) => return fail("is_empty", e),
        }
    }

    let merge_with_diff = (1..=n).any(|i| world.parents[i].len() >= 2 && !world.oracle[i].is_empty());
    let merge_empty = (1..=n).any(|i| world.parents[i].len() >= 2 && world.oracle[i].is_empty());
    let conflicted = (1..=n).any(|i| world.commits[i].has_conflict());
    let file_dir_swap = (1..=n).any(|i| {
        world.oracle[i].iter().any(|p| {
            world.oracle[i]
                .iter()
                .any(|q| q != p && q.starts_with(p))
        })
    });
    if let Some(msg) = stats.known_deviation.take() {
        // Everything else held; the case is counted as a hit of the known finding.
        return Err(Violation::known(
            SIG_NO_RESOLVE,
            format!("{msg} ({} deviations of this kind in the case)", stats.known_deviations),
        ));
    }
    let same_conflict_merge = (1..=n).any(|i| {
        world.parents[i].len() >= 2 && world.commits[i].has_conflict() && world.oracle[i].is_empty()
    });
    let nontrivial = merge_with_diff && !stats.incremental.is_empty();
    Ok(Outcome::new(nontrivial)
        .class_if(same_conflict_merge, "merge-keeping-parents-conflict")
        .class_if(!twin_ok, "twin-not-comparable(commit ids differ)")
        .class_if(merge_with_diff, "merge-with-nonempty-diff")
        .class_if(merge_empty, "merge-empty-vs-automerge")
        .class_if(conflicted, "conflicted-commit")
        .class_if(file_dir_swap, "file<->dir-replacement")
        .class_if(!stats.incremental.is_empty(), "indexed-incrementally")
        .class_if(stats.builds_partial > 0, "partial-build")
        .class_if(stats.builds >= 3, "builds>=3")
        .class_if(stats.concurrent > 0, "concurrent-ops-merged")
        .class_if(stats.concurrent_one_side_enabled > 0, "concurrent-one-side-enabled")
        .class_if(stats.concurrent_both_build > 0, "concurrent-both-sides-build")
        .class_if(stats.reloads > 0, "reload")
        .class_if(stats.max_levels >= 2, "segment-levels>=2")
        .class_if(stats.partial_state_queries, "queries-on-partially-indexed")
        .class_if(nonempty > 0, "query-nonempty")
        .class_if(n >= 20, "nodes>=20"))
}

fn node_strategy(max_edits: usize) -> impl Strategy<Value = Node> {
    (
        prop::bool::weighted(0.6),
        prop_oneof![
            65 => prop::collection::vec(any::<u16>(), 1),
            30 => prop::collection::vec(any::<u16>(), 2),
            5 => prop::collection::vec(any::<u16>(), 3),
        ],
        prop_oneof![
            70 => prop::collection::vec(tree_edit(), 1..=max_edits).prop_map(TreeSpec::Edit),
            18 => Just(TreeSpec::Merged),
            12 => any::<u16>().prop_map(TreeSpec::TakeParent),
        ],
    )
        .prop_map(|(linear, parents, tree)| Node {
            linear,
            parents,
            tree,
        })
}

fn step_strategy() -> impl Strategy<Value = Step> {
    prop_oneof![
        5 => (1u8..=6).prop_map(Step::Tx),
        3 => any::<u16>().prop_map(Step::Build),
        3 => (
            (0u8..=2, prop::option::weighted(0.5, any::<u16>()), 1u8..=4),
            (0u8..=2, prop::option::weighted(0.4, any::<u16>()), 1u8..=4),
        )
            .prop_map(|((a_pre, a_build, a), (b_pre, b_build, b))| Step::Concurrent {
                a_pre,
                a_build,
                a,
                b_pre,
                b_build,
                b,
            }),
        1 => Just(Step::Reload),
    ]
}

fn query_strategy() -> impl Strategy<Value = Query> {
    let kind = || {
        prop_oneof![
            3 => Just(QueryKind::File),
            3 => Just(QueryKind::Prefix),
            2 => Just(QueryKind::FileGlob),
            2 => Just(QueryKind::PrefixGlob),
        ]
    };
    (
        prop::collection::vec((kind(), any::<u16>()), 1..=2),
        prop::option::weighted(0.2, (kind(), any::<u16>())),
        prop::bool::weighted(0.2),
    )
        .prop_map(|(pats, minus, diff_lines)| Query {
            pats,
            minus,
            diff_lines,
        })
}

fn case_strategy(max_nodes: usize) -> impl Strategy<Value = Case> {
    (
        prop::collection::vec(node_strategy(3), 4..=max_nodes),
        prop::collection::vec(step_strategy(), 2..=9),
        prop::collection::vec(query_strategy(), 2..=5),
    )
        .prop_map(|(nodes, steps, queries)| Case {
            nodes,
            steps,
            queries,
        })
}

pub fn run(report: &mut Report) {
    report.set_rule(
        "histories of 4..=40 commits (1-3 parents; trees = edits on the auto-merged parents incl. \
         file<->dir replacement, exactly the auto-merge (possibly conflicted), or one parent's tree) \
         written over 2..=9 generated steps: transaction, changed-path index build with max_commits in \
         {0,1,2,3,4,6,10,25,MAX}, two concurrent operation lines (one may build the index) merged at \
         load, reload from disk; then queries, full build, reload, queries. non-trivial = a merge \
         commit with a non-empty diff against its auto-merged parents exists and at least one commit \
         was indexed incrementally by the transaction that wrote it",
    );
    report.assume(
        "the oracle path list is MergedTree::diff_stream() between rewrite::merge_commit_trees(parents) \
         and the commit tree (code that does not read the changed-path index), cross-checked against a \
         map comparison of model trees for single-parent commits; fileset matchers are trusted (C30/C31)",
    );
    let tier = report.tier;
    let max_nodes = tier.pick_usize(40, 40);
    report.prop(
        "histories",
        tier.pick(1000, 50_000),
        move || case_strategy(max_nodes),
        check,
    );
    if !report.is_replay() {
        // Counted twice per affected node (main repo and twin).
        report.add_class(
            "redirected:merge-node-hitting-resolve()-debug-assertion(x2)",
            REDIRECTED_RESOLVE_PANIC.load(std::sync::atomic::Ordering::Relaxed),
        );
    }
}
