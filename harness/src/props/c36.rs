//! C36 Expression parsers never crash.
//!
//! Parsing any input as a revset, fileset or template, including alias
//! expansion, either yields an expression or reports an error; it never panics or
//! overflows the stack.
//!
//! Sub-checks:
//! * `corpus`  — every harvested literal (tests, docs, built-in config) through all
//!   three parsers, unmodified.
//! * `mutate`  — grammar-guided token mutations of those literals, with alias maps
//!   (0–4 aliases: symbol / function / pattern, overloads, recursive, shadowing
//!   built-ins) whose names are taken from the mutated text.
//! * `random`  — random character strings over a grammar-weighted alphabet and
//!   random byte strings (lossily decoded).
//! * `fuzz_corpus` — the committed libFuzzer corpora, decoded like the fuzz targets.
//! * `deep`    — the deep-chain battery: prefix / postfix / infix / argument /
//!   pattern / method / nesting chains of 10^2–10^5 tokens, each parsed in a
//!   child process on a thread with the 8 MiB stack of the CLI's main thread. A
//!   child killed by a signal (stack overflow = SIGSEGV/SIGABRT) is the violation.
//!
//! The oracle is "the call returns"; panics are caught by the runner. Every parse
//! is guarded by a watchdog (timeout ⇒ exit 2, inconclusive).

use std::io::Read as _;
use std::os::unix::process::ExitStatusExt as _;
use std::process::Command;
use std::process::Stdio;
use std::sync::Arc;
use std::sync::mpsc;
use std::time::Duration;
use std::time::Instant;

use proptest::prelude::*;
use serde::Deserialize;
use serde::Serialize;

use crate::engine::runner::CheckResult;
use crate::engine::runner::Outcome;
use crate::engine::runner::Report;
use crate::engine::runner::Tier;
use crate::engine::runner::Violation;
use crate::engine::runner::catch;
use crate::engine::runner::pick;
use crate::engine::runner::verif_root;
use crate::gens::expr_guard::MAX_NESTING;
use crate::gens::expr_guard::count_refs;
use crate::gens::expr_guard::loose_decl;
use crate::gens::expr_parse;
use crate::gens::expr_parse::Input;
use crate::gens::expr_parse::Obs;

/// Stack of the thread every parse runs on (the main thread of the CLI has the
/// default 8 MiB).
const PARSE_STACK: usize = 8 << 20;
/// Per-input watchdog. Generous because the machine may be heavily loaded; a
/// sanitised input parses in well under a second.
const INPUT_WATCHDOG: Duration = Duration::from_secs(180);
/// Watchdog of one deep-battery child.
const DEEP_WATCHDOG: Duration = Duration::from_secs(600);
const CHILD_ENV: &str = "JJVERIF_C36_DEEP";

/// Signature of the confirmed finding on the pinned tree: the AST builders, the
/// alias expander (`dsl_util::fold_expression`), lowering and `Drop` recurse once
/// per expression level with no depth limit, so an operator / pattern / method /
/// bracket chain of a few thousand levels overflows the 8 MiB stack
/// (`jj log -r "$(printf '~%.0s' {1..10000})root()"` aborts with "thread 'main'
/// has overflowed its stack").
pub const SIG_DEEP_RECURSION: &str = "C36-unbounded-recursion-depth-stack-overflow";

/// Deep-battery `(lang, shape, min_n)` triples covered by `SIG_DEEP_RECURSION`:
/// a stack overflow of that shape with at least `min_n` levels is the known
/// finding (measured thresholds on the pinned tree, dev profile, are 1.5-2x
/// `min_n`); any other overflow is a fresh violation. Union and `++` chains,
/// argument lists, long literals and blank runs are not recursive and must
/// survive every size.
const KNOWN_OVERFLOWS: &[(Lang, &str, u32)] = &[
    (Lang::Revset, "prefix_negate", 4000),
    (Lang::Revset, "postfix_parents", 4000),
    (Lang::Revset, "postfix_children", 4000),
    (Lang::Revset, "infix_intersection", 4000),
    (Lang::Revset, "infix_difference", 4000),
    (Lang::Revset, "pattern_chain", 2000),
    (Lang::Revset, "alias_param_chain", 4000),
    (Lang::Fileset, "prefix_negate", 4000),
    (Lang::Fileset, "infix_intersection", 4000),
    (Lang::Fileset, "infix_difference", 4000),
    (Lang::Fileset, "pattern_chain", 3000),
    (Lang::Fileset, "nested_parens", 2000),
    (Lang::Fileset, "nested_calls", 1500),
    (Lang::Template, "prefix_not", 2500),
    (Lang::Template, "prefix_negate", 2500),
    (Lang::Template, "infix_or", 2500),
    (Lang::Template, "infix_add", 2500),
    (Lang::Template, "infix_eq", 2500),
    (Lang::Template, "method_chain", 2500),
    (Lang::Template, "pattern_chain", 1500),
    (Lang::Template, "nested_parens", 1100),
    (Lang::Template, "nested_calls", 1100),
    (Lang::Template, "nested_lambdas", 1100),
];

#[derive(Debug, Clone, Copy, PartialEq, Eq, Serialize, Deserialize)]
pub enum Lang {
    Revset,
    Fileset,
    Template,
}

const LANGS: [Lang; 3] = [Lang::Revset, Lang::Fileset, Lang::Template];

impl From<Lang> for expr_parse::Lang {
    fn from(lang: Lang) -> Self {
        match lang {
            Lang::Revset => Self::Revset,
            Lang::Fileset => Self::Fileset,
            Lang::Template => Self::Template,
        }
    }
}

/// One parser input. `flags`: revset bit0 = with workspace context, bit1 = also
/// `parse_string_expression`, bit2 = also `parse_symbol`; fileset bit0 = bare
/// string fallback entry point.
#[derive(Debug, Clone, Serialize, Deserialize)]
pub struct Case {
    pub lang: Lang,
    pub text: String,
    /// `(declaration, definition)`
    pub aliases: Vec<(String, String)>,
    pub flags: u8,
    /// Bracket nesting cap for this case (≤ 8).
    pub max_nesting: u8,
    /// What sanitising did when the case was generated (bit0 = brackets removed
    /// or text truncated, bit1 = alias map dropped by the expansion bound);
    /// informational, for the class histogram.
    #[serde(default)]
    pub prepared: u8,
}

// ---------------------------------------------------------------------------
// Guarded parse
// ---------------------------------------------------------------------------

fn classify_panic(v: Violation) -> Violation {
    for (loc, sig) in expr_parse::KNOWN_PANICS {
        if v.msg.contains(loc) {
            return Violation::known(sig, v.msg);
        }
    }
    v
}

/// Turns a fatal signal on a parse thread (stack overflow of the 8 MiB stack =
/// SIGSEGV on the guard page) into a recorded violation: the replay document of
/// the case being parsed is prepared beforehand; the handler only writes it out
/// with raw system calls, prints the VIOLATION line and exits 1.
mod crash_guard {
    use std::cell::Cell;
    use std::ffi::CString;
    use std::sync::Once;

    pub struct CrashDoc {
        path: CString,
        json: Vec<u8>,
        lines: Vec<u8>,
    }

    thread_local! {
        static CURRENT: Cell<*const CrashDoc> = const { Cell::new(std::ptr::null()) };
    }

    fn fnv(bytes: &[u8]) -> u64 {
        let mut h: u64 = 0xcbf29ce484222325;
        for b in bytes {
            h ^= u64::from(*b);
            h = h.wrapping_mul(0x100000001b3);
        }
        h
    }

    impl CrashDoc {
        pub fn new(case: &super::Case) -> Self {
            let doc = serde_json::json!({
                "property": "C36",
                "sub": "mutate",
                "message": "parse thread died with SIGSEGV/SIGBUS (stack overflow of the 8 MiB stack)",
                "case": case,
            });
            let json = serde_json::to_vec_pretty(&doc).unwrap_or_default();
            let dir = super::verif_root().join("replays").join("C36");
            let path = dir.join(format!("crash-{:016x}.json", fnv(&json)));
            let lines = format!(
                "FAILURE property=C36 sub=mutate: parse thread died with SIGSEGV/SIGBUS (stack \
                 overflow of the 8 MiB stack)\nVIOLATION property=C36 replay={}\n",
                path.display()
            )
            .into_bytes();
            Self {
                path: CString::new(path.to_string_lossy().into_owned()).unwrap_or_default(),
                json,
                lines,
            }
        }
    }

    extern "C" fn on_fatal_signal(signal: libc::c_int) {
        // SAFETY: only async-signal-safe calls; the document is owned by the
        // faulting thread's closure and stays alive while it is registered.
        unsafe {
            let doc = CURRENT.with(|c| c.get());
            if doc.is_null() {
                libc::signal(signal, libc::SIG_DFL);
                return;
            }
            let doc = &*doc;
            let fd = libc::open(
                doc.path.as_ptr(),
                libc::O_WRONLY | libc::O_CREAT | libc::O_TRUNC,
                0o644 as libc::c_uint,
            );
            if fd >= 0 {
                libc::write(fd, doc.json.as_ptr().cast(), doc.json.len());
                libc::close(fd);
            }
            libc::write(1, doc.lines.as_ptr().cast(), doc.lines.len());
            libc::_exit(1);
        }
    }

    /// Installs the handler (on the alternate signal stack std sets up for every
    /// thread it spawns).
    pub fn install() {
        static ONCE: Once = Once::new();
        ONCE.call_once(|| {
            std::fs::create_dir_all(super::verif_root().join("replays").join("C36")).ok();
            // SAFETY: plain sigaction calls with a valid handler.
            unsafe {
                let mut action: libc::sigaction = std::mem::zeroed();
                action.sa_sigaction = on_fatal_signal as extern "C" fn(libc::c_int) as usize;
                action.sa_flags = libc::SA_ONSTACK;
                libc::sigemptyset(&mut action.sa_mask);
                libc::sigaction(libc::SIGSEGV, &action, std::ptr::null_mut());
                libc::sigaction(libc::SIGBUS, &action, std::ptr::null_mut());
            }
        });
    }

    /// Registers `doc` for the current thread while `f` runs.
    pub fn with_registered<T>(doc: &CrashDoc, f: impl FnOnce() -> T) -> T {
        CURRENT.with(|c| c.set(doc));
        let out = f();
        CURRENT.with(|c| c.set(std::ptr::null()));
        out
    }
}

type ParseJob = (Lang, Input, crash_guard::CrashDoc);

/// A long-lived parse thread with an 8 MiB stack, one per worker thread (spawning
/// a thread per case costs more than the parse). Its stack is empty between jobs,
/// so every parse has the full 8 MiB like the CLI's main thread.
struct ParseThread {
    jobs: mpsc::Sender<ParseJob>,
    results: mpsc::Receiver<Result<Obs, Violation>>,
}

impl ParseThread {
    fn spawn() -> Self {
        let (jobs, job_rx) = mpsc::channel::<ParseJob>();
        let (result_tx, results) = mpsc::channel();
        std::thread::Builder::new()
            .stack_size(PARSE_STACK)
            .spawn(move || {
                for (lang, input, doc) in job_rx {
                    let result = crash_guard::with_registered(&doc, || {
                        catch(|| Ok(expr_parse::parse(lang.into(), &input)))
                    });
                    if result_tx.send(result).is_err() {
                        break;
                    }
                }
            })
            .expect("spawn parse thread");
        Self { jobs, results }
    }
}

thread_local! {
    static PARSE_THREAD: std::cell::RefCell<Option<ParseThread>> = const { std::cell::RefCell::new(None) };
}

/// Parses on a thread with an 8 MiB stack; a panic becomes a violation, a stack
/// overflow is recorded by `crash_guard` (exit 1), a watchdog hit ends the run as
/// inconclusive.
fn guarded_parse(case: &Case, input: Input) -> Result<Obs, Violation> {
    crash_guard::install();
    let lang = case.lang;
    let doc = crash_guard::CrashDoc::new(&Case {
        lang,
        text: input.text.clone(),
        aliases: input.aliases.clone(),
        flags: input.flags,
        max_nesting: case.max_nesting,
        prepared: case.prepared,
    });
    PARSE_THREAD.with(|slot| {
        let mut slot = slot.borrow_mut();
        let thread = slot.get_or_insert_with(ParseThread::spawn);
        thread
            .jobs
            .send((lang, input.clone(), doc))
            .expect("parse thread alive");
        match thread.results.recv_timeout(INPUT_WATCHDOG) {
            Ok(result) => result.map_err(classify_panic),
            Err(_) => {
                println!(
                    "INCONCLUSIVE property=C36 per-input watchdog ({}s) lang={lang:?} input={input:?}",
                    INPUT_WATCHDOG.as_secs()
                );
                std::process::exit(2);
            }
        }
    })
}

/// Number of non-blank tokens before the 1-based (line, column) position.
fn tokens_before(text: &str, pos: (usize, usize)) -> usize {
    let mut offset = 0;
    for (i, line) in text.split_inclusive('\n').enumerate() {
        if i + 1 == pos.0 {
            offset += line
                .char_indices()
                .nth(pos.1.saturating_sub(1))
                .map_or(line.len(), |(o, _)| o);
            break;
        }
        offset += line.len();
    }
    let offset = offset.min(text.len());
    let mut end = offset;
    while !text.is_char_boundary(end) {
        end -= 1;
    }
    tokenize(&text[..end])
        .iter()
        .filter(|t| !t.trim().is_empty())
        .count()
}

fn check(case: &Case) -> CheckResult {
    let raw = Input {
        text: case.text.clone(),
        aliases: case.aliases.clone(),
        flags: case.flags,
    };
    let (input, san) = expr_parse::sanitize(case.lang.into(), &raw, case.max_nesting as usize);
    let obs = guarded_parse(case, input.clone())?;
    if std::env::var_os("JJVERIF_C36_TRACE").is_some() && !input.aliases.is_empty() {
        eprintln!(
            "TRACE {:?} ok={} syn={} depth={} rec={} bad={} text={:?} aliases={:?}",
            case.lang, obs.ok, obs.syntax_error, obs.alias_depth, obs.recursion_error, obs.bad_decls,
            input.text, input.aliases
        );
    }
    let late_syntax_error = obs.syntax_error
        && obs
            .error_pos
            .is_some_and(|pos| tokens_before(&input.text, pos) >= 10);
    let reached_builder = obs.ok || !obs.syntax_error;
    let nontrivial = reached_builder || late_syntax_error;
    let referenced = input
        .aliases
        .iter()
        .filter(|(decl, _)| count_refs(&input.text, &loose_decl(decl).name) > 0)
        .count();
    Ok(Outcome::new(nontrivial)
        .class(match case.lang {
            Lang::Revset => "lang:revset",
            Lang::Fileset => "lang:fileset",
            Lang::Template => "lang:template",
        })
        .class_if(obs.ok, "parsed")
        .class_if(obs.syntax_error, "syntax_error")
        .class_if(late_syntax_error, "syntax_error_after>=10_tokens")
        .class_if(!obs.ok && !obs.syntax_error, "builder_or_expansion_error")
        .class_if(!input.aliases.is_empty(), "with_aliases")
        .class_if(referenced > 0, "alias_referenced")
        .class_if(obs.alias_depth >= 1, "alias_depth>=1")
        .class_if(obs.alias_depth >= 2, "alias_depth>=2")
        .class_if(obs.alias_depth >= 3, "alias_depth>=3")
        .class_if(obs.recursion_error, "alias_recursion_error")
        .class_if(obs.bad_decls > 0, "bad_alias_decl")
        .class_if(san.aliases_dropped || case.prepared & 2 != 0, "aliases_dropped_by_bound")
        .class_if(san.nesting_capped || case.prepared & 1 != 0, "capped_or_truncated")
        .class_if(!input.text.is_ascii(), "non_ascii")
        .class_if(crate::gens::expr_guard::nesting_depth(&input.text) >= 5, "nesting>=5"))
}

// ---------------------------------------------------------------------------
// Tokens and mutations
// ---------------------------------------------------------------------------

fn is_word_char(c: char) -> bool {
    c.is_alphanumeric() || c == '_' || !c.is_ascii()
}

const MULTI_OPS: &[&str] = &["::", "..", "++", "||", "&&", "==", "!=", ">=", "<="];

/// Language-agnostic tokenizer: blank runs, words, quoted literals (unterminated
/// ones run to the end), multi-character operators, single characters.
pub fn tokenize(text: &str) -> Vec<String> {
    let mut tokens = vec![];
    let mut rest = text;
    while let Some(c) = rest.chars().next() {
        let len = if c.is_whitespace() {
            rest.find(|c: char| !c.is_whitespace()).unwrap_or(rest.len())
        } else if is_word_char(c) {
            rest.find(|c: char| !is_word_char(c)).unwrap_or(rest.len())
        } else if c == '"' {
            let mut end = rest.len();
            let mut escaped = false;
            for (i, c) in rest.char_indices().skip(1) {
                if escaped {
                    escaped = false;
                } else if c == '\\' {
                    escaped = true;
                } else if c == '"' {
                    end = i + 1;
                    break;
                }
            }
            end
        } else if c == '\'' {
            rest[1..].find('\'').map_or(rest.len(), |i| i + 2)
        } else if let Some(op) = MULTI_OPS.iter().find(|op| rest.starts_with(**op)) {
            op.len()
        } else {
            c.len_utf8()
        };
        tokens.push(rest[..len].to_string());
        rest = &rest[len..];
    }
    tokens
}

fn is_identifier(token: &str) -> bool {
    let mut chars = token.chars();
    chars.next().is_some_and(|c| c.is_ascii_alphabetic() || c == '_')
        && chars.all(|c| c.is_ascii_alphanumeric() || c == '_')
}

/// Tokens and fragments injected by mutations: operators of the three grammars,
/// quotes and escapes (valid and broken), blanks, multi-byte and odd characters,
/// extreme integers, small valid fragments.
const DICT: &[&str] = &[
    "(", ")", "\"", "'", "\\", "|", "&", "~", "::", "..", ":", "@", "-", "+", "^", ",", "=", "++",
    "||", "&&", "==", "!=", ">=", "<=", "<", ">", "*", "/", "%", "!", ".", " ", "\n", "\t", "\x0c",
    "\r", "\\x", "\\x4", "\\xg0", "\\x7f", "\\e", "\\0", "\\u", "\\\"", "\"\\", "\"\\\"", "''",
    "\"\"", "é", "日本", "\u{301}", "\u{200b}", "😀", "\u{7f}", "\u{0}", "\u{feff}", "ß", "İ",
    "\u{a0}", "\u{2028}", "٣", "ǅ", "0", "00", "9223372036854775807", "9223372036854775808",
    "-9223372036854775808", "x", "all()", "root()", "@-", "glob:", "regex:", "exact-i:",
    "substring:", "cwd:", "root-glob:", "|x|", "|x, y|", "||", "self", "if(", "[", "]", "{", "}", "?",
    "#", "$", "`", ";", "a-b", "a.b", "a+b", "a/b", "*", "x@y", "x@", "@x", "::x", "x..", "f(", "f()",
    "f(x,", "k=", "k=v", "date:", "after:\"", "2020-01-01", "\"2 days ago\"", "..=", "-1", ".f()", ".f",
];

const PREFIX_OPS: &[&str] = &["~", "!", "-", "::", "..", "~ ", "(", "f(", "a:", "|x| "];
const POSTFIX_OPS: &[&str] = &["-", "+", "^", "::", "..", ".f()", ".len()", ")", "@", " "];
const INFIX_OPS: &[&str] = &[
    "|", "&", "~", "::", "..", "+", "-", " ++ ", "||", "&&", "==", "!=", "<", ">=", "*", "/", "%", ":",
    ",", " ", ".",
];
const NASTY_STRINGS: &[&str] = &[
    "\"\\\"", "\"\\x\"", "\"\\xg1\"", "\"\\x7\"", "\"\\e\\0\\t\\r\\n\"", "\"\\u{1}\"", "\"\n\"",
    "\"\\\\\"", "\"é\\", "'\\'", "'é", "\"😀\\x41😀\"", "\"\\x80\"", "\"\\xff\\xfe\"", "\"\\q\"", "'''",
    "\"\\\n\"",
];

type RawOp = (u8, u16, u16, u16);
const N_OPS: usize = 16;

fn token_char_insert(token: &str, at: u16, what: &str) -> String {
    let n = token.chars().count();
    let pos = pick(at, n + 1);
    let byte = token.char_indices().nth(pos).map_or(token.len(), |(o, _)| o);
    format!("{}{}{}", &token[..byte], what, &token[byte..])
}

fn token_char_delete(token: &str, at: u16) -> String {
    let n = token.chars().count();
    if n == 0 {
        return String::new();
    }
    let pos = pick(at, n);
    token
        .chars()
        .enumerate()
        .filter(|(i, _)| *i != pos)
        .map(|(_, c)| c)
        .collect()
}

/// Applies one mutation. `other` supplies foreign tokens for splicing.
fn apply_op(tokens: &mut Vec<String>, op: RawOp, other: &[String]) {
    let (kind, a, b, c) = op;
    let n = tokens.len();
    let dict = |i: u16| DICT[pick(i, DICT.len())].to_string();
    if n == 0 {
        tokens.push(dict(c));
        return;
    }
    let ia = pick(a, n);
    let ib = pick(b, n);
    let (lo, hi) = (ia.min(ib), ia.max(ib));
    match pick(u16::from(kind) << 8, N_OPS) {
        0 => {
            tokens.remove(ia);
        }
        1 => {
            let t = tokens[ia].clone();
            tokens.insert(pick(b, n + 1), t);
        }
        2 => tokens.swap(ia, ib),
        3 => tokens.insert(pick(a, n + 1), dict(c)),
        4 => tokens[ia] = dict(c),
        5 => {
            // splice a range of the other seed over a range of this one
            if !other.is_empty() {
                let oa = pick(c, other.len());
                let len = 1 + pick(b, 6.min(other.len() - oa));
                let end = (ia + pick(c.rotate_left(7), 4)).min(n);
                tokens.splice(ia..end, other[oa..oa + len].iter().cloned());
            }
        }
        6 => {
            tokens.insert(hi + 1, ")".into());
            tokens.insert(lo, "(".into());
        }
        7 => {
            tokens.insert(hi + 1, ")".into());
            tokens.insert(lo, "(".into());
            let name = other
                .iter()
                .chain(tokens.iter())
                .filter(|t| is_identifier(t))
                .nth(pick(c, 8))
                .cloned()
                .unwrap_or_else(|| "f".into());
            tokens.insert(lo, name);
        }
        8 => tokens.truncate(ia),
        9 => tokens[ia] = token_char_delete(&tokens[ia], b),
        10 => tokens[ia] = token_char_insert(&tokens[ia], b, &dict(c)),
        11 => {
            let opx = PREFIX_OPS[pick(c, PREFIX_OPS.len())];
            let k = 1 + pick(b, 40);
            tokens.splice(ia..ia, std::iter::repeat_n(opx.to_string(), k));
        }
        12 => {
            let opx = POSTFIX_OPS[pick(c, POSTFIX_OPS.len())];
            let k = 1 + pick(b, 40);
            tokens.splice(ia + 1..ia + 1, std::iter::repeat_n(opx.to_string(), k));
        }
        13 => {
            let opx = INFIX_OPS[pick(c, INFIX_OPS.len())];
            let k = 1 + pick(b, 40);
            let operand = tokens[ia].clone();
            let chain: Vec<String> = (0..k)
                .flat_map(|_| [opx.to_string(), operand.clone()])
                .collect();
            tokens.splice(ia + 1..ia + 1, chain);
        }
        14 => {
            // multi-byte character glued to a token boundary (no blank between)
            const GLUE: &[&str] = &["é", "日", "\u{301}", "😀", "\u{200b}", "ß", "\u{a0}", "\u{80}"];
            let ch = GLUE[pick(c, GLUE.len())];
            if b & 1 == 0 {
                tokens[ia] = format!("{ch}{}", tokens[ia]);
            } else {
                tokens[ia].push_str(ch);
            }
        }
        _ => {
            // replace a string literal (or else any token) by a nasty literal
            let target = tokens
                .iter()
                .enumerate()
                .filter(|(_, t)| t.starts_with('"') || t.starts_with('\''))
                .map(|(i, _)| i)
                .nth(pick(b, 4))
                .unwrap_or(ia);
            tokens[target] = NASTY_STRINGS[pick(c, NASTY_STRINGS.len())].to_string();
        }
    }
}

// ---------------------------------------------------------------------------
// Corpus
// ---------------------------------------------------------------------------

pub struct Corpus {
    /// indexed like `LANGS`
    seeds: [Vec<String>; 3],
}

impl Corpus {
    fn load() -> Self {
        let dir = verif_root().join("corpus").join("c36");
        let load = |name: &str| -> Vec<String> {
            let path = dir.join(name);
            let text = std::fs::read_to_string(&path).unwrap_or_else(|err| {
                println!("INCONCLUSIVE property=C36 cannot read {}: {err}", path.display());
                std::process::exit(2);
            });
            let seeds: Vec<String> = text
                .lines()
                .filter(|l| !l.trim().is_empty())
                .map(|l| {
                    serde_json::from_str::<String>(l).unwrap_or_else(|err| {
                        println!("INCONCLUSIVE property=C36 bad line in {}: {err}", path.display());
                        std::process::exit(2);
                    })
                })
                .collect();
            if seeds.len() < 50 {
                println!("INCONCLUSIVE property=C36 corpus {} too small", path.display());
                std::process::exit(2);
            }
            seeds
        };
        Self {
            seeds: [load("revset.txt"), load("fileset.txt"), load("template.txt")],
        }
    }

    fn of(&self, lang: Lang) -> &[String] {
        &self.seeds[lang as usize]
    }

    /// A seed for `lang`: its own corpus, or (about one time in eight) another
    /// language's.
    fn seed(&self, lang: Lang, sel: u16, idx: u16) -> &str {
        let from = match sel >> 13 {
            0 => LANGS[pick(sel << 3, 3)],
            _ => lang,
        };
        let seeds = self.of(from);
        &seeds[pick(idx, seeds.len())]
    }
}

// ---------------------------------------------------------------------------
// Case construction
// ---------------------------------------------------------------------------

/// Names used for aliases besides identifiers of the text itself: short
/// variables and built-in function / keyword names (shadowing).
const FIXED_NAMES: &[&str] = &[
    "a", "b", "f", "g", "x", "y", "author", "all", "description", "if", "label", "self", "mine", "root",
    "none", "files", "ancestors", "heads", "separate", "format_timestamp", "commit_id", "glob",
];
const PARAM_NAMES: &[&str] = &["x", "y", "z", "a", "p", "self", "rev", "q"];

/// One alias in sixteen with two or more parameters repeats a parameter name
/// (declaration error path).
fn alias_dup(kind: &u8) -> bool {
    kind >> 4 == 0
}

/// `(kind, name, nparams, params, body_seed_sel, body_seed, body_ops, injections)`
type AliasRecipe = (u8, u16, u8, [u16; 3], u16, u16, Vec<RawOp>, Vec<(u16, u16, u8)>);
/// `(lang, seed_sel, seed, other_seed, ops, aliases, main_injections, flags, nesting)`
type MutateRecipe = (
    u8,
    u16,
    u16,
    u16,
    Vec<RawOp>,
    Vec<AliasRecipe>,
    Vec<(u16, u16, u8)>,
    u8,
    u8,
);

struct Decl {
    name: String,
    params: Vec<String>,
    text: String,
}

/// Renders a reference to alias `d` (`form`: symbol, call with matching arity,
/// call with another arity, pattern) using `args` as argument texts.
fn render_ref(d: &Decl, form: u8, args: &[String]) -> String {
    let arg = |i: usize| args.get(i).cloned().unwrap_or_else(|| "x".into());
    match form & 3 {
        0 => d.name.clone(),
        1 => {
            let list: Vec<String> = (0..d.params.len()).map(arg).collect();
            format!("{}({})", d.name, list.join(", "))
        }
        2 => {
            let k = usize::from(form >> 2 & 3);
            let list: Vec<String> = (0..k).map(arg).collect();
            format!("{}({})", d.name, list.join(","))
        }
        _ => format!("{}:{}", d.name, arg(0)),
    }
}

/// What follows token `i`, ignoring blanks.
fn next_significant(tokens: &[String], i: usize) -> Option<&str> {
    tokens[i + 1..]
        .iter()
        .map(|t| t.as_str())
        .find(|t| !t.trim().is_empty())
}

/// Replaces identifier tokens by references to aliases or parameters, keeping
/// the text well formed most of the time: an identifier that is already a
/// function or pattern name is only renamed (the alias is then called with the
/// existing arguments); a plain identifier is replaced by a reference in the
/// form of the chosen declaration (one time in eight in a random form).
fn inject_refs(tokens: &mut [String], injections: &[(u16, u16, u8)], decls: &[Decl], own: Option<&Decl>) {
    if decls.is_empty() {
        return;
    }
    for &(at, what, form) in injections {
        let words: Vec<usize> = tokens
            .iter()
            .enumerate()
            .filter(|(_, t)| is_identifier(t))
            .map(|(i, _)| i)
            .collect();
        if words.is_empty() {
            return;
        }
        let target = words[pick(at, words.len())];
        let is_head = matches!(next_significant(tokens, target), Some("(" | ":"));
        let args: Vec<String> = words
            .iter()
            .filter(|&&i| !matches!(next_significant(tokens, i), Some("(" | ":")))
            .map(|&i| tokens[i].clone())
            .chain(["x".to_string()])
            .cycle()
            .skip(pick(what.rotate_left(5), words.len()))
            .take(3)
            .collect();
        // one time in four (inside a body) use a parameter of the own alias
        if let Some(own) = own
            && !own.params.is_empty()
            && !is_head
            && form & 0x30 == 0
        {
            tokens[target] = own.params[pick(what, own.params.len())].clone();
            continue;
        }
        let d = &decls[pick(what, decls.len())];
        tokens[target] = if is_head {
            d.name.clone()
        } else if form & 0xe0 == 0xe0 {
            render_ref(d, form, &args)
        } else if d.text.contains('(') {
            render_ref(d, 1, &args)
        } else if d.text.contains(':') {
            render_ref(d, 3, &args)
        } else {
            render_ref(d, 0, &args)
        };
    }
}

fn build_mutated(corpus: &Corpus, recipe: &MutateRecipe) -> Case {
    let (lang, seed_sel, seed, other_seed, ops, alias_recipes, main_inj, flags, nesting) = recipe;
    let lang = LANGS[usize::from(*lang) % 3];
    let mut tokens = tokenize(corpus.seed(lang, *seed_sel, *seed));
    let other = tokenize(corpus.seed(lang, 0xffff, *other_seed));
    for op in ops {
        apply_op(&mut tokens, *op, &other);
        tokens.truncate(600);
    }
    // Alias declarations: names come (three times out of four) from the text, and
    // from identifiers used in the same role (function name, pattern name, plain
    // symbol) when there are any, so that the aliases are referenced.
    let ids_with = |pred: &dyn Fn(Option<&str>) -> bool| -> Vec<String> {
        let mut ids: Vec<String> = (0..tokens.len())
            .filter(|&i| is_identifier(&tokens[i]) && pred(next_significant(&tokens, i)))
            .map(|i| tokens[i].clone())
            .collect();
        ids.sort();
        ids.dedup();
        ids
    };
    let fn_ids = ids_with(&|next| next == Some("("));
    let pattern_ids = ids_with(&|next| next == Some(":"));
    let symbol_ids = ids_with(&|next| !matches!(next, Some("(" | ":")));
    let all_ids = ids_with(&|_| true);
    let decls: Vec<Decl> = alias_recipes
        .iter()
        .map(|(kind, name_sel, nparams, params, ..)| {
            let same_role = match kind % 8 {
                0 | 1 => &symbol_ids,
                5 => &pattern_ids,
                _ => &fn_ids,
            };
            let text_ids = if same_role.is_empty() || name_sel & 12 == 0 { &all_ids } else { same_role };
            let name = if !text_ids.is_empty() && name_sel & 3 != 0 {
                text_ids[pick(*name_sel, text_ids.len())].clone()
            } else {
                FIXED_NAMES[pick(*name_sel, FIXED_NAMES.len())].to_string()
            };
            // distinct parameter names, except (rarely) a deliberate duplicate
            let first = pick(params[0], PARAM_NAMES.len());
            let mut params: Vec<String> = (0..usize::from(*nparams).min(3))
                .map(|i| PARAM_NAMES[(first + i) % PARAM_NAMES.len()].to_string())
                .collect();
            if params.len() >= 2 && alias_dup(kind) {
                params[1] = params[0].clone();
            }
            let text = match kind % 8 {
                0 | 1 => name.clone(),
                2..=4 => format!("{name}({})", params.join(", ")),
                5 => format!("{name}:{}", params.first().map_or("x", |p| p.as_str())),
                6 if params.is_empty() => format!("{name}( )"),
                6 => format!("{name}( {} ,)", params.join(" , ")),
                // broken declaration: exercises the declaration parsers' error path
                _ => token_char_insert(
                    &format!("{name}({})", params.join(",")),
                    name_sel.rotate_left(5),
                    DICT[pick(*name_sel ^ 0xa5a5, DICT.len())],
                ),
            };
            Decl { name, params, text }
        })
        .collect();
    let aliases: Vec<(String, String)> = alias_recipes
        .iter()
        .zip(&decls)
        .map(|((_, _, _, _, body_sel, body_seed, body_ops, injections), decl)| {
            let mut body = tokenize(corpus.seed(lang, *body_sel, *body_seed));
            for op in body_ops {
                apply_op(&mut body, *op, &tokens);
                body.truncate(150);
            }
            inject_refs(&mut body, injections, &decls, Some(decl));
            (decl.text.clone(), body.concat())
        })
        .collect();
    inject_refs(&mut tokens, main_inj, &decls, None);
    let case = Case {
        lang,
        text: tokens.concat(),
        aliases,
        flags: *flags,
        max_nesting: (*nesting).min(MAX_NESTING as u8),
        prepared: 0,
    };
    sanitized_case(case)
}

/// Stores the sanitised form in the case, so that samples and replay files show
/// exactly what was parsed (`check` sanitises again; it is idempotent).
fn sanitized_case(case: Case) -> Case {
    let raw = Input {
        text: case.text,
        aliases: case.aliases,
        flags: case.flags,
    };
    let (input, san) = expr_parse::sanitize(case.lang.into(), &raw, case.max_nesting as usize);
    Case {
        lang: case.lang,
        text: input.text,
        aliases: input.aliases,
        flags: input.flags,
        max_nesting: case.max_nesting,
        prepared: case.prepared | u8::from(san.nesting_capped) | u8::from(san.aliases_dropped) << 1,
    }
}

fn raw_op() -> impl Strategy<Value = RawOp> {
    (any::<u8>(), any::<u16>(), any::<u16>(), any::<u16>())
}

fn nesting_cap() -> impl Strategy<Value = u8> {
    prop_oneof![
        6 => 2u8..=4,
        3 => 5u8..=6,
        1 => 7u8..=8,
    ]
}

/// `alias_focus`: the text and the alias bodies are (almost always) left
/// unmutated and there are 2-4 aliases with references injected everywhere, so
/// that most cases expand aliases several levels deep.
fn mutate_strategy(corpus: Arc<Corpus>, alias_focus: bool) -> BoxedStrategy<Case> {
    let injections = |min: usize| prop::collection::vec((any::<u16>(), any::<u16>(), any::<u8>()), min..=3);
    let body_ops = if alias_focus {
        prop_oneof![
            9 => Just(vec![]),
            1 => prop::collection::vec(raw_op(), 1..=1),
        ]
        .boxed()
    } else {
        prop_oneof![
            3 => Just(vec![]),
            1 => prop::collection::vec(raw_op(), 1..=2),
        ]
        .boxed()
    };
    let alias = (
        any::<u8>(),
        any::<u16>(),
        0u8..=3,
        any::<[u16; 3]>(),
        any::<u16>(),
        any::<u16>(),
        body_ops,
        injections(usize::from(alias_focus)),
    );
    let aliases = if alias_focus {
        prop::collection::vec(alias, 2..=4).boxed()
    } else {
        prop_oneof![
            4 => Just(vec![]),
            6 => prop::collection::vec(alias, 1..=4),
        ]
        .boxed()
    };
    let ops = if alias_focus {
        prop_oneof![
            9 => Just(vec![]),
            1 => prop::collection::vec(raw_op(), 1..=1),
        ]
        .boxed()
    } else {
        prop_oneof![
            3 => Just(vec![]),
            4 => prop::collection::vec(raw_op(), 1..=1),
            2 => prop::collection::vec(raw_op(), 2..=2),
            2 => prop::collection::vec(raw_op(), 3..=5),
        ]
        .boxed()
    };
    (
        0u8..3,
        any::<u16>(),
        any::<u16>(),
        any::<u16>(),
        ops,
        aliases,
        injections(usize::from(alias_focus)),
        any::<u8>(),
        nesting_cap(),
    )
        .prop_map(move |recipe| build_mutated(&corpus, &recipe))
        .boxed()
}

/// Alphabet classes of the random-string generator.
const ALPHABETS: &[&str] = &[
    "()|&~:.@-+^,=\"'\\",
    "()|&~:.@-+^,=\"'\\!<>*/%[]{}?#$`;",
    "abcxyzfg_ADZ",
    "0123456789",
    " \t\n\r\x0c",
    "é日\u{301}😀\u{200b}ß\u{a0}\u{feff}\u{0}\u{7f}\u{1}",
];

fn random_string() -> impl Strategy<Value = String> {
    let ch = (0u8..12, any::<u16>()).prop_map(|(class, i)| {
        // classes 0..5 weighted: punctuation and letters dominate
        let alphabet = ALPHABETS[match class {
            0..=3 => 0,
            4 => 1,
            5..=7 => 2,
            8 => 3,
            9..=10 => 4,
            _ => 5,
        }];
        let chars: Vec<char> = alphabet.chars().collect();
        chars[pick(i, chars.len())]
    });
    prop_oneof![
        3 => prop::collection::vec(ch, 0..=60).prop_map(|v| v.into_iter().collect::<String>()),
        1 => prop::collection::vec(any::<u8>(), 0..=60)
            .prop_map(|b| String::from_utf8_lossy(&b).into_owned()),
        1 => prop::collection::vec(any::<char>(), 0..=30).prop_map(|v| v.into_iter().collect::<String>()),
    ]
}

fn random_strategy() -> impl Strategy<Value = Case> {
    let aliases = prop_oneof![
        3 => Just(vec![]),
        1 => prop::collection::vec((random_string(), random_string()), 1..=2),
        1 => prop::collection::vec(
            ((0usize..FIXED_NAMES.len()), 0u8..3, random_string()).prop_map(|(n, k, body)| {
                let name = FIXED_NAMES[n];
                let decl = match k {
                    0 => name.to_string(),
                    1 => format!("{name}(x)"),
                    _ => format!("{name}:x"),
                };
                (decl, body)
            }),
            1..=3
        ),
    ];
    (0u8..3, random_string(), aliases, any::<u8>(), nesting_cap()).prop_map(
        |(lang, text, aliases, flags, max_nesting)| {
            sanitized_case(Case {
                lang: LANGS[usize::from(lang)],
                text,
                aliases,
                flags,
                max_nesting,
                prepared: 0,
            })
        },
    )
}

// ---------------------------------------------------------------------------
// Fuzz corpus replay
// ---------------------------------------------------------------------------

#[derive(Debug, Clone, Serialize, Deserialize)]
pub struct FuzzCase {
    pub lang: Lang,
    pub file: String,
    pub bytes: crate::gens::content::Bytes,
}

fn check_fuzz_case(case: &FuzzCase) -> CheckResult {
    let input = expr_parse::decode(&mut expr_parse::SliceSrc(&case.bytes.0));
    check(&Case {
        lang: case.lang,
        text: input.text,
        aliases: input.aliases,
        flags: input.flags,
        max_nesting: MAX_NESTING as u8,
        prepared: 0,
    })
}

fn fuzz_corpus_cases() -> Vec<FuzzCase> {
    let mut cases = vec![];
    for (lang, target) in [
        (Lang::Revset, "revset_parse"),
        (Lang::Fileset, "fileset_parse"),
        (Lang::Template, "template_parse"),
    ] {
        let dir = verif_root().join("corpus").join(target);
        let Ok(entries) = std::fs::read_dir(&dir) else { continue };
        let mut files: Vec<_> = entries.filter_map(|e| e.ok()).map(|e| e.path()).collect();
        files.sort();
        for file in files {
            if let Ok(bytes) = std::fs::read(&file)
                && bytes.len() <= 16 << 10
            {
                cases.push(FuzzCase {
                    lang,
                    file: file.file_name().unwrap_or_default().to_string_lossy().into_owned(),
                    bytes: bytes.into(),
                });
            }
        }
    }
    cases
}

// ---------------------------------------------------------------------------
// Deep-chain battery
// ---------------------------------------------------------------------------

#[derive(Debug, Clone, Serialize, Deserialize)]
pub struct DeepCase {
    pub lang: Lang,
    pub shape: String,
    pub n: u32,
}

/// Shapes whose parse time is linear in `n` for the given language (nesting
/// shapes are absent for revsets: their parse time is exponential in the depth).
fn deep_shapes(lang: Lang) -> &'static [&'static str] {
    match lang {
        Lang::Revset => &[
            "prefix_negate",
            "postfix_parents",
            "postfix_children",
            "infix_union",
            "infix_intersection",
            "infix_difference",
            "infix_mixed_negated",
            "args",
            "pattern_chain",
            "long_string",
            "long_escapes",
            "long_identifier",
            "blanks",
            "alias_union",
            "alias_param_chain",
            "alias_rec_symbol",
            "alias_rec_mutual",
            "alias_rec_function",
        ],
        Lang::Fileset => &[
            "prefix_negate",
            "infix_union",
            "infix_intersection",
            "infix_difference",
            "infix_mixed_negated",
            "args",
            "pattern_chain",
            "nested_parens",
            "nested_calls",
            "long_string",
            "long_escapes",
            "long_identifier",
            "blanks",
            "alias_union",
            "alias_rec_symbol",
            "alias_rec_mutual",
            "alias_rec_function",
        ],
        Lang::Template => &[
            "prefix_not",
            "prefix_negate",
            "infix_concat",
            "infix_or",
            "infix_add",
            "infix_eq",
            "method_chain",
            "args",
            "pattern_chain",
            "nested_parens",
            "nested_calls",
            "nested_lambdas",
            "long_string",
            "long_escapes",
            "blanks",
            "alias_concat",
            "alias_rec_symbol",
            "alias_rec_mutual",
            "alias_rec_function",
        ],
    }
}

fn deep_input(case: &DeepCase) -> Option<Input> {
    let n = case.n as usize;
    let rep = |s: &str, k: usize| s.repeat(k);
    let mut aliases = vec![];
    let text = match case.shape.as_str() {
        "prefix_negate" => match case.lang {
            Lang::Template => format!("{}1", rep("-", n)),
            _ => format!("{}x", rep("~", n)),
        },
        "prefix_not" => format!("{}x", rep("!", n)),
        "postfix_parents" => format!("x{}", rep("-", n)),
        "postfix_children" => format!("x{}", rep("+", n)),
        "infix_union" => format!("x{}", rep("|x", n)),
        "infix_intersection" => format!("x{}", rep("&x", n)),
        "infix_difference" => format!("x{}", rep("~x", n)),
        "infix_mixed_negated" => format!("x{}", rep(" & ~x | ~~x ~ x", n / 4)),
        "infix_concat" => format!("x{}", rep(" ++ x", n)),
        "infix_or" => format!("x{}", rep(" || x", n)),
        "infix_add" => format!("1{}", rep(" + 1", n)),
        "infix_eq" => format!("x{}", rep(" == x", n)),
        "method_chain" => format!("x{}", rep(".f()", n)),
        "args" => format!("f({}x)", rep("x, ", n)),
        "pattern_chain" => format!("{}x", rep("a:", n)),
        "nested_parens" => format!("{}x{}", rep("(", n), rep(")", n)),
        "nested_calls" => format!("{}x{}", rep("f(", n), rep(")", n)),
        "nested_lambdas" => format!("{}x", rep("|x| ", n)),
        "long_string" => format!("\"{}\"", rep("a", n)),
        "long_escapes" => format!("\"{}\"", rep("\\n\\x41\\\\", n / 3)),
        "long_identifier" => match case.lang {
            Lang::Revset => format!("a{}", rep(".a-b+c", n / 3)),
            _ => format!("a{}", rep("/b.c", n / 2)),
        },
        "blanks" => format!("{}x{}", rep(" \t", n / 2), rep("\n ", n / 2)),
        "alias_union" => {
            aliases.push(("a".to_string(), "b|b".to_string()));
            aliases.push(("b".to_string(), "c(x)".to_string()));
            aliases.push(("c(p)".to_string(), "p".to_string()));
            format!("a{}", rep("|a", n / 4))
        }
        "alias_concat" => {
            aliases.push(("a".to_string(), "b ++ b".to_string()));
            aliases.push(("b".to_string(), "c(x)".to_string()));
            aliases.push(("c(p)".to_string(), "p".to_string()));
            format!("a{}", rep(" ++ a", n / 4))
        }
        "alias_rec_symbol" | "alias_rec_mutual" | "alias_rec_function" => {
            // direct, mutual (through an argument) and nested-call recursion: the
            // expander must report an error for each instead of recursing
            let op = if case.lang == Lang::Template { " ++ " } else { "|" };
            aliases.push(("a".to_string(), format!("x{op}a")));
            aliases.push(("b".to_string(), "c(b)".to_string()));
            aliases.push(("c(p)".to_string(), format!("p{op}b")));
            aliases.push(("f(p)".to_string(), "f(f(p))".to_string()));
            let reference = match case.shape.as_str() {
                "alias_rec_symbol" => "a",
                "alias_rec_mutual" => "c(x)",
                _ => "f(x)",
            };
            format!("x{}", rep(&format!("{op}{reference}"), (n / 100).max(1)))
        }
        "alias_param_chain" => {
            // the argument is a long postfix chain substituted through two aliases
            aliases.push(("f(p)".to_string(), "g(p)".to_string()));
            aliases.push(("g(q)".to_string(), "q".to_string()));
            format!("f(x{})", rep("-", n))
        }
        _ => return None,
    };
    Some(Input {
        text,
        aliases,
        flags: 0,
    })
}

/// Child-process side of the deep battery: never returns.
fn deep_child_main(spec: &str) -> ! {
    let Ok(case) = serde_json::from_str::<DeepCase>(spec) else {
        println!("C36-DEEP-BADSPEC");
        std::process::exit(4);
    };
    let Some(input) = deep_input(&case) else {
        println!("C36-DEEP-BADSPEC");
        std::process::exit(4);
    };
    let lang = case.lang;
    let handle = std::thread::Builder::new()
        .stack_size(PARSE_STACK)
        .spawn(move || catch(|| Ok(expr_parse::parse(lang.into(), &input))))
        .expect("spawn parse thread");
    match handle.join() {
        Ok(Ok(obs)) => {
            println!("C36-DEEP-OK parsed={} syntax_error={}", obs.ok, obs.syntax_error);
            std::process::exit(0);
        }
        Ok(Err(v)) => {
            println!("C36-DEEP-PANIC {}", v.msg);
            std::process::exit(3);
        }
        Err(_) => {
            println!("C36-DEEP-PANIC uncaught");
            std::process::exit(3);
        }
    }
}

fn check_deep(case: &DeepCase) -> CheckResult {
    if deep_input(case).is_none() {
        return Err(Violation::new(format!("unknown deep shape {:?}", case.shape)));
    }
    let exe = std::env::current_exe().map_err(|e| Violation::new(format!("current_exe: {e}")));
    let exe = match exe {
        Ok(exe) => exe,
        Err(_) => {
            println!("INCONCLUSIVE property=C36 cannot locate own executable");
            std::process::exit(2);
        }
    };
    let spec = serde_json::to_string(case).expect("serialisable");
    let mut child = match Command::new(exe)
        .args(["C36", "--tier", "quick"])
        .env(CHILD_ENV, &spec)
        .stdin(Stdio::null())
        .stdout(Stdio::piped())
        .stderr(Stdio::piped())
        .spawn()
    {
        Ok(child) => child,
        Err(err) => {
            println!("INCONCLUSIVE property=C36 cannot spawn deep-battery child: {err}");
            std::process::exit(2);
        }
    };
    let start = Instant::now();
    let status = loop {
        match child.try_wait() {
            Ok(Some(status)) => break status,
            Ok(None) if start.elapsed() > DEEP_WATCHDOG => {
                child.kill().ok();
                child.wait().ok();
                println!(
                    "INCONCLUSIVE property=C36 deep-battery child timed out after {}s: {spec}",
                    DEEP_WATCHDOG.as_secs()
                );
                std::process::exit(2);
            }
            Ok(None) => std::thread::sleep(Duration::from_millis(15)),
            Err(err) => {
                println!("INCONCLUSIVE property=C36 waiting for deep-battery child: {err}");
                std::process::exit(2);
            }
        }
    };
    let mut out = String::new();
    let mut err = String::new();
    if let Some(mut s) = child.stdout.take() {
        s.read_to_string(&mut out).ok();
    }
    if let Some(mut s) = child.stderr.take() {
        s.read_to_string(&mut err).ok();
    }
    let tail = |s: &str| -> String {
        let t: Vec<&str> = s.lines().rev().take(4).collect();
        t.into_iter().rev().collect::<Vec<_>>().join(" / ")
    };
    if let Some(signal) = status.signal() {
        let msg = format!(
            "parser crashed the process: signal {signal} ({}) on {} shape {} n={} [{}]",
            match signal {
                libc::SIGSEGV => "SIGSEGV",
                libc::SIGABRT => "SIGABRT, stack overflow handler",
                libc::SIGBUS => "SIGBUS",
                _ => "other",
            },
            expr_parse::Lang::from(case.lang).name(),
            case.shape,
            case.n,
            tail(&err)
        );
        if matches!(signal, libc::SIGSEGV | libc::SIGABRT | libc::SIGBUS) {
            for (lang, shape, min_n) in KNOWN_OVERFLOWS {
                if *lang == case.lang && *shape == case.shape && case.n >= *min_n {
                    return Err(Violation::known(SIG_DEEP_RECURSION, msg));
                }
            }
            return Err(Violation::new(msg));
        }
        // killed by something else (OOM killer, operator): not a verdict
        println!("INCONCLUSIVE property=C36 {msg}");
        std::process::exit(2);
    }
    match status.code() {
        Some(0) => {
            let parsed = out.contains("parsed=true");
            Ok(Outcome::new(true)
                .class_if(parsed, "deep_parsed")
                .class_if(!parsed, "deep_rejected")
                .class_if(case.n >= 10_000, "deep_n>=10^4")
                .class_if(case.n >= 100_000, "deep_n>=10^5"))
        }
        Some(3) => Err(classify_panic(Violation::new(format!(
            "deep input panicked: {} shape {} n={}: {}",
            expr_parse::Lang::from(case.lang).name(),
            case.shape,
            case.n,
            tail(&out)
        )))),
        code => {
            println!(
                "INCONCLUSIVE property=C36 deep-battery child exit {code:?}: {spec}: {} {}",
                tail(&out),
                tail(&err)
            );
            std::process::exit(2);
        }
    }
}

fn deep_cases(tier: Tier) -> Vec<DeepCase> {
    let sizes: &[u32] = match tier {
        Tier::Quick => &[1_000, 10_000],
        Tier::Thorough => &[100, 1_000, 10_000, 30_000, 100_000],
    };
    let mut cases = vec![];
    for &n in sizes {
        for lang in LANGS {
            for shape in deep_shapes(lang) {
                // quick tier: the small size only for the recursive shapes (1000
                // levels must fit in the stack); the non-recursive shapes are
                // covered by the large size
                let recursive = KNOWN_OVERFLOWS.iter().any(|(l, s, _)| *l == lang && s == shape);
                if tier == Tier::Quick && n < 10_000 && !recursive {
                    continue;
                }
                cases.push(DeepCase {
                    lang,
                    shape: shape.to_string(),
                    n,
                });
            }
        }
    }
    cases
}

// ---------------------------------------------------------------------------

pub fn run(report: &mut Report) {
    if let Ok(spec) = std::env::var(CHILD_ENV) {
        deep_child_main(&spec);
    }
    report.set_rule(
        "inputs: (corpus) every literal harvested from jj's tests, docs and built-in config through \
         all three parsers; (mutate) 0-5 token-level mutations (delete/duplicate/swap/splice/insert \
         operator, quote, escape, multi-byte character glued to token boundaries, wrap, truncate, \
         prefix/postfix/infix chains up to 40) of a harvested literal, plus 0-4 aliases (symbol, \
         function incl. overloads and trailing commas, pattern, broken declarations) named after \
         identifiers of the text, bodies = mutated literals with injected references to \
         parameters, other aliases and themselves; (random) strings over a grammar-weighted \
         alphabet, arbitrary chars and lossily decoded bytes; (fuzz_corpus) committed libFuzzer \
         corpora; (deep) chains of 10^2..10^5 tokens parsed in a child process on an 8 MiB stack. \
         Bracket nesting capped at <=8, alias maps dropped when the syntactic expansion bound \
         exceeds the budget. Non-trivial = the text passes the grammar (AST builder reached: parsed, \
         or builder/expansion/lowering error) or the syntax error is after >=10 tokens; classes \
         count alias expansion depth >=2 separately; distinct by full case",
    );
    report.assume(
        "the parsers are only reachable with valid UTF-8 (&str); byte strings are decoded lossily",
    );
    report.assume(
        "bracket nesting deeper than 8 is outside the searched domain for all three languages \
         (revset parse time is exponential in nesting depth: a hang, not a crash); stack depth \
         is exercised through the linear-time shapes of the deep battery instead",
    );
    report.assume(
        "revset lowering uses a fixed date context, the default extensions, an empty fileset alias \
         map and an Fs path converter rooted at /repo with cwd /repo/sub",
    );
    let tier = report.tier;
    let corpus = Arc::new(Corpus::load());

    // 1. harvested literals, unmodified, through all three parsers
    let mut corpus_cases = vec![];
    for lang in LANGS {
        for from in LANGS {
            for seed in corpus.of(from) {
                corpus_cases.push(sanitized_case(Case {
                    lang,
                    text: seed.clone(),
                    aliases: vec![],
                    flags: if lang == from { 7 } else { 1 },
                    max_nesting: MAX_NESTING as u8,
                    prepared: 0,
                }));
            }
        }
    }
    let mut walls = serde_json::Map::new();
    let mut timed = |name: &str, start: Instant| {
        walls.insert(name.to_string(), serde_json::json!(start.elapsed().as_secs_f64()));
    };
    let t = Instant::now();
    report.enumerate_par("corpus", true, corpus_cases, check);
    timed("corpus", t);

    // 2. libFuzzer corpora
    let t = Instant::now();
    report.enumerate_par("fuzz_corpus", true, fuzz_corpus_cases(), check_fuzz_case);
    timed("fuzz_corpus", t);

    // 3. deep-chain battery (before the in-process searches: a stack overflow
    //    there is reported by the parent instead of killing this process)
    let t = Instant::now();
    report.enumerate_par("deep", true, deep_cases(tier), check_deep);
    timed("deep", t);

    // 4. mutations
    let t = Instant::now();
    let c = corpus.clone();
    report.prop(
        "mutate",
        tier.pick(60_000, 3_000_000),
        move || mutate_strategy(c.clone(), false),
        check,
    );
    timed("mutate", t);

    // 4b. alias-focused variant of the same generator
    let t = Instant::now();
    let c = corpus.clone();
    report.prop(
        "alias",
        tier.pick(20_000, 1_000_000),
        move || mutate_strategy(c.clone(), true),
        check,
    );
    timed("alias", t);

    // 5. random strings
    let t = Instant::now();
    report.prop("random", tier.pick(20_000, 1_000_000), random_strategy, check);
    timed("random", t);
    report.set_extra("wall_s_by_subcheck", serde_json::Value::Object(walls));
}
