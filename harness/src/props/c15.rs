//! C15 A crash at any point leaves a loadable repo and loses no committed
//! operation.
//!
//! Engine `crash`: the real `jj` CLI (hooks on) as a subprocess; for a
//! generated (fixture, command) pair the command is first run with a counting
//! log (K durable-write points) and then, from a restored copy of the fixture,
//! once for EVERY N in 1..=K with `JJ_VERIF_CRASH_AT=N` (process aborts on the
//! spot at the N-th point).

use std::collections::BTreeMap;
use std::collections::BTreeSet;
use std::path::Path;
use std::path::PathBuf;

use jj_lib::object_id::ObjectId as _;
use jj_lib::repo::Repo as _;
use pollster::FutureExt as _;
use proptest::prelude::*;
use serde::Deserialize;
use serde::Serialize;

use crate::engine::cli::CliEnv;
use crate::engine::cli::DiskEntry;
use crate::engine::cli::DiskState;
use crate::engine::cli::read_disk;
use crate::engine::runner::CheckResult;
use crate::engine::runner::Outcome;
use crate::engine::runner::Report;
use crate::engine::runner::Violation;
use crate::engine::runner::pick;

static CRASH_RUNS: std::sync::atomic::AtomicU64 = std::sync::atomic::AtomicU64::new(0);

const PATHS: &[&str] = &["a", "b", "d/e", "d/f", "d/g/h", "c"];
const CONTENTS: &[&str] = &["", "x\n", "1\n2\n3\n", "1\nX\n3\n", "other\n", "1\n2\n3\n4\n"];

#[derive(Debug, Clone, Serialize, Deserialize)]
pub enum Edit {
    Write(u16, u16),
    Delete(u16),
    Chmod(u16),
    Symlink(u16),
}

#[derive(Debug, Clone, Serialize, Deserialize)]
pub enum FixStep {
    Edit(Edit),
    Commit,
    New,
    NewOnRoot,
    Describe,
    BookmarkCreate(u8),
    NewMerge,
}

#[derive(Debug, Clone, Copy, Serialize, Deserialize, PartialEq, Eq)]
pub enum Cmd {
    New,
    NewOnRoot,
    NewOnBookmark,
    Describe,
    Commit,
    Squash,
    RebaseOntoRoot,
    Abandon,
    BookmarkSet,
    EditParent,
    Restore,
    Undo,
    Status,
    WorkspaceAdd,
    SparseSet,
    OpRestore,
    /// `jj new bm0 bm1`: checks out a merge of two bookmarks (conflicted when they are
    /// siblings that changed the same file).
    NewMergeOfBookmarks,
}

const ALL_CMDS: &[Cmd] = &[
    Cmd::New,
    Cmd::NewOnRoot,
    Cmd::NewOnBookmark,
    Cmd::Describe,
    Cmd::Commit,
    Cmd::Squash,
    Cmd::RebaseOntoRoot,
    Cmd::Abandon,
    Cmd::BookmarkSet,
    Cmd::EditParent,
    Cmd::Restore,
    Cmd::Undo,
    Cmd::Status,
    Cmd::WorkspaceAdd,
    Cmd::SparseSet,
    Cmd::OpRestore,
    Cmd::NewMergeOfBookmarks,
];

#[derive(Debug, Clone, Serialize, Deserialize)]
pub struct Case {
    pub simple_backend: bool,
    pub fixture: Vec<FixStep>,
    pub pre_edits: Vec<Edit>,
    pub cmd: Cmd,
}

fn apply_edit(ws: &Path, edit: &Edit) {
    match edit {
        Edit::Write(p, c) => {
            let path = ws.join(PATHS[pick(*p, PATHS.len())]);
            if let Some(parent) = path.parent() {
                // a file may stand where we want a directory
                if parent.symlink_metadata().is_ok_and(|m| !m.is_dir()) {
                    std::fs::remove_file(parent).ok();
                }
                std::fs::create_dir_all(parent).ok();
            }
            if path.symlink_metadata().is_ok_and(|m| m.is_dir()) {
                std::fs::remove_dir_all(&path).ok();
            } else if path.symlink_metadata().is_ok() {
                std::fs::remove_file(&path).ok();
            }
            std::fs::write(&path, CONTENTS[pick(*c, CONTENTS.len())]).ok();
        }
        Edit::Delete(p) => {
            let path = ws.join(PATHS[pick(*p, PATHS.len())]);
            if path.symlink_metadata().is_ok_and(|m| m.is_dir()) {
                std::fs::remove_dir_all(&path).ok();
            } else {
                std::fs::remove_file(&path).ok();
            }
        }
        Edit::Chmod(p) => {
            use std::os::unix::fs::PermissionsExt as _;
            let path = ws.join(PATHS[pick(*p, PATHS.len())]);
            if let Ok(meta) = std::fs::symlink_metadata(&path)
                && meta.is_file()
            {
                let mode = meta.permissions().mode();
                std::fs::set_permissions(&path, std::fs::Permissions::from_mode(mode ^ 0o111)).ok();
            }
        }
        Edit::Symlink(p) => {
            let path = ws.join(PATHS[pick(*p, PATHS.len())]);
            if path.symlink_metadata().is_ok_and(|m| m.is_dir()) {
                return;
            }
            std::fs::remove_file(&path).ok();
            if let Some(parent) = path.parent()
                && parent.is_dir()
            {
                std::os::unix::fs::symlink("a", &path).ok();
            }
        }
    }
}

fn cmd_args(cmd: Cmd) -> Vec<&'static str> {
    match cmd {
        Cmd::New => vec!["new"],
        Cmd::NewOnRoot => vec!["new", "root()"],
        Cmd::NewOnBookmark => vec!["new", "bookmarks()"],
        Cmd::Describe => vec!["describe", "-m", "described"],
        Cmd::Commit => vec!["commit", "-m", "committed"],
        Cmd::Squash => vec!["squash"],
        Cmd::RebaseOntoRoot => vec!["rebase", "-r", "@", "-d", "root()"],
        Cmd::Abandon => vec!["abandon"],
        Cmd::BookmarkSet => vec!["bookmark", "set", "bm0", "-r", "@", "--allow-backwards"],
        Cmd::EditParent => vec!["edit", "@-"],
        Cmd::Restore => vec!["restore"],
        Cmd::Undo => vec!["undo"],
        Cmd::Status => vec!["status"],
        Cmd::WorkspaceAdd => vec!["workspace", "add", "../ws2"],
        Cmd::SparseSet => vec!["sparse", "set", "--clear", "--add", "d"],
        Cmd::OpRestore => vec!["op", "restore", "@--"],
        Cmd::NewMergeOfBookmarks => vec!["new", "bm0", "bm1"],
    }
}

fn copy_tree(from: &Path, to: &Path) -> Result<(), String> {
    let out = std::process::Command::new("cp")
        .arg("-a")
        .arg(from)
        .arg(to)
        .output()
        .map_err(|e| e.to_string())?;
    if out.status.success() {
        Ok(())
    } else {
        Err(format!("cp -a failed: {}", String::from_utf8_lossy(&out.stderr)))
    }
}

fn op_log_ids(env: &CliEnv, ws: &Path) -> Result<Vec<String>, String> {
    let out = env.jj(
        ws,
        &[
            "op",
            "log",
            "--ignore-working-copy",
            "--no-graph",
            "-T",
            "id ++ \"\\n\"",
        ],
    );
    if !out.success() {
        return Err(format!("`jj op log` failed: {}", out.brief()));
    }
    Ok(out.stdout.lines().map(|l| l.trim().to_string()).filter(|l| !l.is_empty()).collect())
}

fn is_hex(name: &str) -> bool {
    !name.is_empty() && name.chars().all(|c| c.is_ascii_hexdigit())
}

fn blake2_hex(data: &[u8]) -> String {
    use blake2::Digest as _;
    let mut h = blake2::Blake2b512::new();
    h.update(data);
    jj_lib::hex_util::encode_hex(&h.finalize())
}

/// Every stored object either parses (content-addressed names re-hash to
/// their content) or is a leftover temp file.
fn validate_stores(repo_dir: &Path, simple_backend: bool) -> Result<(), String> {
    let loader = crate::engine::cli::loader_for(repo_dir)?;
    let op_store = loader.op_store().clone();
    for (sub, is_op) in [("operations", true), ("views", false)] {
        let dir = repo_dir.join("op_store").join(sub);
        for entry in std::fs::read_dir(&dir).map_err(|e| format!("{dir:?}: {e}"))? {
            let name = entry.map_err(|e| e.to_string())?.file_name();
            let name = name.to_string_lossy().into_owned();
            if !is_hex(&name) {
                continue;
            }
            if is_op {
                let id = jj_lib::op_store::OperationId::try_from_hex(&name).unwrap();
                let op = op_store
                    .read_operation(&id)
                    .block_on()
                    .map_err(|e| format!("stored operation {name} does not parse: {e}"))?;
                let rehash = jj_lib::hex_util::encode_hex(&jj_lib::content_hash::blake2b_hash(&op));
                if rehash != name {
                    return Err(format!("stored operation {name} re-hashes to {rehash}"));
                }
            } else {
                let id = jj_lib::op_store::ViewId::try_from_hex(&name).unwrap();
                let view = op_store
                    .read_view(&id)
                    .block_on()
                    .map_err(|e| format!("stored view {name} does not parse: {e}"))?;
                let rehash = jj_lib::hex_util::encode_hex(&jj_lib::content_hash::blake2b_hash(&view));
                if rehash != name {
                    return Err(format!("stored view {name} re-hashes to {rehash}"));
                }
            }
        }
    }
    if simple_backend {
        let store = loader.store().clone();
        let store_dir = repo_dir.join("store");
        for (sub, kind) in [("files", 0), ("symlinks", 0), ("trees", 1), ("commits", 2)] {
            let dir = store_dir.join(sub);
            let Ok(rd) = std::fs::read_dir(&dir) else { continue };
            for entry in rd {
                let name = entry.map_err(|e| e.to_string())?.file_name();
                let name = name.to_string_lossy().into_owned();
                if !is_hex(&name) {
                    continue;
                }
                match kind {
                    0 => {
                        let data = std::fs::read(dir.join(&name)).map_err(|e| e.to_string())?;
                        let rehash = blake2_hex(&data);
                        if rehash != name {
                            return Err(format!(
                                "stored {sub} object {name} has content hashing to {rehash} (truncated or corrupt)"
                            ));
                        }
                    }
                    1 => {
                        let id = jj_lib::backend::TreeId::try_from_hex(&name).unwrap();
                        store
                            .get_tree(jj_lib::repo_path::RepoPathBuf::root(), &id)
                            .block_on()
                            .map_err(|e| format!("stored tree {name} does not parse: {e}"))?;
                    }
                    _ => {
                        let id = jj_lib::backend::CommitId::try_from_hex(&name).unwrap();
                        store
                            .get_commit(&id)
                            .map_err(|e| format!("stored commit {name} does not parse: {e}"))?;
                    }
                }
            }
        }
    }
    Ok(())
}

/// Is `entry` at `path` recorded in the working-copy commit of some operation?
fn recorded_in_some_op(
    repo_dir: &Path,
    wanted: &BTreeMap<String, DiskEntry>,
) -> Result<BTreeSet<String>, String> {
    let mut found = BTreeSet::new();
    if wanted.is_empty() {
        return Ok(found);
    }
    let loader = crate::engine::cli::loader_for(repo_dir)?;
    let store = loader.store().clone();
    let ops_dir = repo_dir.join("op_store").join("operations");
    let mut seen_commits = BTreeSet::new();
    for entry in std::fs::read_dir(&ops_dir).map_err(|e| e.to_string())? {
        let name = entry.map_err(|e| e.to_string())?.file_name();
        let name = name.to_string_lossy().into_owned();
        if !is_hex(&name) {
            continue;
        }
        let id = jj_lib::op_store::OperationId::try_from_hex(&name).unwrap();
        let Ok(op) = loader.op_store().read_operation(&id).block_on() else { continue };
        let Ok(view) = loader.op_store().read_view(&op.view_id).block_on() else { continue };
        for commit_id in view.wc_commit_ids.values() {
            if !seen_commits.insert(commit_id.clone()) {
                continue;
            }
            let Ok(commit) = store.get_commit(commit_id) else { continue };
            let tree = commit.tree();
            for (path, want) in wanted {
                if found.contains(path) {
                    continue;
                }
                let rp = crate::model::tree::repo_path(path);
                let Ok(value) = tree.path_value(&rp).block_on() else { continue };
                let Some(resolved) = value.as_resolved() else { continue };
                let Ok(Some(entry)) = crate::model::tree::read_value(&store, &rp, resolved) else {
                    continue;
                };
                let same = match (&entry, want) {
                    (
                        crate::model::tree::Entry::File { content, exec },
                        DiskEntry::File { content: c2, exec: e2 },
                    ) => &content.0 == c2 && exec == e2,
                    (crate::model::tree::Entry::Symlink(t), DiskEntry::Symlink(t2)) => t == t2,
                    _ => false,
                };
                if same {
                    found.insert(path.clone());
                }
            }
        }
    }
    Ok(found)
}

/// Tree ids (debug form, conflicts included) of the default workspace's working-copy commit at
/// the current head operation.
fn wc_tree_ids(repo_dir: &Path) -> Option<String> {
    let loader = crate::engine::cli::loader_for(repo_dir).ok()?;
    let heads = crate::engine::cli::op_head_ids(repo_dir);
    let [head] = heads.as_slice() else { return None };
    let repo = crate::engine::cli::load_at_op(&loader, head).ok()?;
    let id = repo.view().wc_commit_ids().values().next()?.clone();
    let commit = repo.store().get_commit(&id).ok()?;
    Some(format!("{:?}", commit.tree_ids()))
}

fn check(case: &Case) -> CheckResult {
    let env = CliEnv::new("c15-");
    let work = env.root.join("work");
    std::fs::create_dir(&work).unwrap();
    let ws = work.join("ws");
    let init = if case.simple_backend {
        env.jj(&work, &["debug", "init-simple", "ws"])
    } else {
        env.jj(&work, &["git", "init", "ws"])
    };
    if !init.success() {
        return Err(Violation::new(format!("init failed: {}", init.brief())));
    }
    // Fixture history. Commands may fail for legitimate reasons; a crash
    // (signal) of the un-instrumented run is not ours to judge here.
    for step in &case.fixture {
        let args: Vec<&str> = match step {
            FixStep::Edit(e) => {
                apply_edit(&ws, e);
                continue;
            }
            FixStep::Commit => vec!["commit", "-m", "fixture commit"],
            FixStep::New => vec!["new"],
            FixStep::NewOnRoot => vec!["new", "root()"],
            FixStep::Describe => vec!["describe", "-m", "fixture describe"],
            FixStep::BookmarkCreate(0) => vec!["bookmark", "set", "bm0", "-r", "@", "--allow-backwards"],
            FixStep::BookmarkCreate(_) => vec!["bookmark", "set", "bm1", "-r", "@-", "--allow-backwards"],
            FixStep::NewMerge => vec!["new", "@", "bookmarks()"],
        };
        env.jj(&ws, &args);
    }
    // Make sure the fixture state is snapshotted, then apply the unsnapshotted edits.
    env.jj(&ws, &["status"]);
    for e in &case.pre_edits {
        apply_edit(&ws, e);
    }
    let repo_dir = ws.join(".jj").join("repo");
    let ops_before = op_log_ids(&env, &ws).map_err(Violation::new)?;
    let head_before = ops_before.first().cloned().unwrap_or_default();
    let disk_before: DiskState = read_disk(&ws);
    let pristine = env.root.join("pristine");
    copy_tree(&work, &pristine).map_err(Violation::new)?;
    let n0 = env.command_number();
    let args = cmd_args(case.cmd);

    // Reference run with the counting log.
    let log_path = env.root.join("crash.log");
    let mut cmd = env.jj_cmd(&ws, &args);
    cmd.env("JJ_VERIF_CRASH_LOG", &log_path);
    let reference = CliEnv::run_cmd(cmd);
    if reference.signal.is_some() {
        return Err(Violation::new(format!(
            "un-crashed reference run of `jj {}` died: {}",
            args.join(" "),
            reference.brief()
        )));
    }
    let log = std::fs::read_to_string(&log_path).unwrap_or_default();
    let labels: Vec<String> = log
        .lines()
        .map(|l| l.split_once(' ').map(|(_, s)| s.to_string()).unwrap_or_default())
        .collect();
    let k = labels.len();
    let ops_after = op_log_ids(&env, &ws).map_err(Violation::new)?;
    let ref_final_op = ops_after.first().cloned().unwrap_or_default();
    let ref_disk_after: DiskState = read_disk(&ws);
    let ref_wc_tree = wc_tree_ids(&repo_dir);
    let mut acceptable_heads: BTreeSet<String> =
        ops_after.iter().filter(|id| !ops_before.contains(id)).cloned().collect();
    acceptable_heads.insert(head_before.clone());
    let first_durable = labels.iter().position(|l| !l.is_empty());
    let mut strictly_inside = 0usize;

    for n in 1..=k {
        // Restore the fixture.
        std::fs::remove_dir_all(&work).map_err(|e| Violation::new(format!("restore: {e}")))?;
        copy_tree(&pristine, &work).map_err(Violation::new)?;
        env.set_command_number(n0);
        let mut cmd = env.jj_cmd(&ws, &args);
        cmd.env("JJ_VERIF_CRASH_AT", n.to_string());
        let crashed = CliEnv::run_cmd(cmd);
        let at = format!("crash at point {n}/{k} ({}) of `jj {}`", labels[n - 1], args.join(" "));
        if crashed.signal.is_none() {
            // The run did not reach point n (should not happen: same env).
            continue;
        }
        CRASH_RUNS.fetch_add(1, std::sync::atomic::Ordering::Relaxed);
        if n > 1 && n < k && first_durable.is_some() {
            strictly_inside += 1;
        }
        // (a) the repo loads; no committed operation is lost; head is before or after.
        let ids = op_log_ids(&env, &ws).map_err(|e| Violation::new(format!("{at}: {e}")))?;
        for id in &ops_before {
            if !ids.contains(id) {
                return Err(Violation::new(format!(
                    "{at}: operation {} that was complete before the command is no longer in the op log",
                    &id[..12]
                )));
            }
        }
        let head = ids.first().cloned().unwrap_or_default();
        if !acceptable_heads.contains(&head) {
            return Err(Violation::new(format!(
                "{at}: head operation {} is neither the state before the command nor one of the \
                 operations the completed command produces ({:?})",
                &head[..12.min(head.len())],
                acceptable_heads.iter().map(|h| h[..12].to_string()).collect::<Vec<_>>()
            )));
        }
        // (b) stored objects parse / re-hash.
        validate_stores(&repo_dir, case.simple_backend)
            .map_err(|e| Violation::new(format!("{at}: {e}")))?;
        // (c) recovery.
        let mut status = env.jj(&ws, &["status"]);
        if !status.success() {
            let stale = status.stderr.contains("update-stale") || status.stderr.contains("stale");
            if !stale {
                return Err(Violation::new(format!("{at}: `jj status` fails: {}", status.brief())));
            }
            let upd = env.jj(&ws, &["workspace", "update-stale"]);
            if !upd.success() {
                return Err(Violation::new(format!(
                    "{at}: `jj workspace update-stale` fails: {}",
                    upd.brief()
                )));
            }
            status = env.jj(&ws, &["status"]);
            if !status.success() {
                return Err(Violation::new(format!(
                    "{at}: `jj status` still fails after update-stale: {}",
                    status.brief()
                )));
            }
        }
        // (d) no file lost.
        let disk_now = read_disk(&ws);
        // (e) when the crashed run had published the command's final operation and the disk is
        // exactly what the completed command leaves, recovery must end in the completed state:
        // the working-copy commit has the same tree (conflicts included) as after the un-crashed run.
        if reference.success() && head == ref_final_op && disk_now == ref_disk_after {
            let now_tree = wc_tree_ids(&repo_dir);
            if now_tree.is_some() && ref_wc_tree.is_some() && now_tree != ref_wc_tree {
                if case.cmd == Cmd::SparseSet {
                    // Known finding: `jj sparse set` publishes no operation, so a crash between
                    // removing the files and saving the new sparse patterns is not detected as a
                    // stale working copy; the next snapshot records the removed files as deleted.
                    return Err(Violation::known(
                        "C15-sparse-set-crash-records-deletions",
                        format!("{at}: after recovery the working-copy commit has tree {now_tree:?} instead of {ref_wc_tree:?}"),
                    ));
                }
                return Err(Violation::new(format!(
                    "{at}: the command's final operation was published and the files on disk are those of \
                     the completed command, but after recovery the working-copy commit has tree {} instead of \
                     {} (state is neither before nor after the command)",
                    now_tree.unwrap(),
                    ref_wc_tree.clone().unwrap()
                )));
            }
        }
        let missing: BTreeMap<String, DiskEntry> = disk_before
            .iter()
            .filter(|(p, e)| disk_now.get(*p) != Some(*e))
            .map(|(p, e)| (p.clone(), e.clone()))
            .collect();
        let found = recorded_in_some_op(&repo_dir, &missing)
            .map_err(|e| Violation::new(format!("{at}: {e}")))?;
        for path in missing.keys() {
            if !found.contains(path) {
                return Err(Violation::new(format!(
                    "{at}: file {path:?} that was on disk before the command is neither on disk \
                     unchanged nor recorded in any operation's working-copy commit after recovery"
                )));
            }
        }
    }
    let _ = PathBuf::new();
    Ok(Outcome::new(strictly_inside >= 1 && k >= 3)
        .class_if(case.simple_backend, "simple-backend")
        .class_if(!case.simple_backend, "git-backend")
        .class_if(k >= 30, "K>=30")
        .class_if(k == 0, "K=0")
        .class_if(!reference.success(), "command-fails")
        .class_if(labels.iter().any(|l| l.starts_with("wc.")), "touches-working-copy-files")
        .class_if(!case.pre_edits.is_empty(), "unsnapshotted-edits"))
}

fn edit() -> impl Strategy<Value = Edit> {
    prop_oneof![
        6 => (any::<u16>(), any::<u16>()).prop_map(|(p, c)| Edit::Write(p, c)),
        2 => any::<u16>().prop_map(Edit::Delete),
        1 => any::<u16>().prop_map(Edit::Chmod),
        1 => any::<u16>().prop_map(Edit::Symlink),
    ]
}

fn fix_step() -> impl Strategy<Value = FixStep> {
    prop_oneof![
        6 => edit().prop_map(FixStep::Edit),
        3 => Just(FixStep::Commit),
        2 => Just(FixStep::New),
        1 => Just(FixStep::NewOnRoot),
        1 => Just(FixStep::Describe),
        2 => (0u8..2).prop_map(FixStep::BookmarkCreate),
        1 => Just(FixStep::NewMerge),
    ]
}

fn case_strategy() -> impl Strategy<Value = Case> {
    (
        any::<bool>(),
        prop::collection::vec(fix_step(), 2..10),
        prop::collection::vec(edit(), 0..3),
        any::<u16>(),
    )
        .prop_map(|(simple_backend, fixture, pre_edits, c)| Case {
            simple_backend,
            fixture,
            pre_edits,
            cmd: ALL_CMDS[pick(c, ALL_CMDS.len())],
        })
}

/// A fixed battery so that every command class is exercised in every run.
fn battery() -> Vec<Case> {
    let w = |p: u16, c: u16| Edit::Write(p * 11000, c * 11000);
    let fixture = vec![
        FixStep::Edit(w(0, 1)),
        FixStep::Edit(w(2, 2)),
        FixStep::Commit,
        FixStep::BookmarkCreate(1),
        FixStep::Edit(w(0, 3)),
        FixStep::Edit(w(3, 2)),
        FixStep::Commit,
        FixStep::Edit(w(1, 4)),
    ];
    let mut out = vec![];
    for (i, cmd) in ALL_CMDS.iter().enumerate() {
        if *cmd == Cmd::NewMergeOfBookmarks {
            continue;
        }
        out.push(Case {
            simple_backend: i % 2 == 0,
            fixture: fixture.clone(),
            pre_edits: vec![w(5, 1), w(2, 5)],
            cmd: *cmd,
        });
    }
    // Two sibling commits that change the same file, then a checkout of their (conflicted) merge.
    for simple_backend in [true, false] {
        out.push(Case {
            simple_backend,
            fixture: vec![
                FixStep::Edit(w(0, 2)),
                FixStep::Edit(w(2, 1)),
                FixStep::Commit,
                FixStep::BookmarkCreate(1), // bm1 -> first commit
                FixStep::NewOnRoot,
                FixStep::Edit(w(0, 3)),
                FixStep::Commit,
                FixStep::BookmarkCreate(0), // bm0 -> empty child of the sibling commit
                FixStep::NewOnRoot,
            ],
            pre_edits: vec![],
            cmd: Cmd::NewMergeOfBookmarks,
        });
    }
    out
}

pub fn run(report: &mut Report) {
    report.set_level("fault_enumeration");
    report.set_rule(
        "(fixture history, command) pairs on simple- and git-backend repos driven through the real jj \
         CLI; for each pair EVERY durable-write point 1..K reached by the command (persist_* temp-file \
         sync/rename, stacked-table head add/remove, index op link, op-head add/remove, working-copy \
         file writes/removals, git object/ref writes) is crashed once (abort at the point) from a restored \
         copy. evaluations = pairs; non-trivial = pair with K>=3 and a crash strictly between first and \
         last write; crash runs are counted in `crash_runs`",
    );
    report.assume("abort() models a killed process (no page-cache loss); gix object writes are bracketed, not split");
    let tier = report.tier;
    let battery = battery();
    let quick_battery: Vec<Case> = match tier {
        crate::engine::runner::Tier::Quick => battery
            .into_iter()
            .filter(|c| {
                matches!(
                    c.cmd,
                    Cmd::Commit | Cmd::NewOnRoot | Cmd::Squash | Cmd::Undo | Cmd::NewMergeOfBookmarks
                )
            })
            .collect(),
        crate::engine::runner::Tier::Thorough => battery,
    };
    report.enumerate_par("battery", false, quick_battery, check);
    report.prop("generated", tier.pick(2, 150), case_strategy, check);
    report.set_extra(
        "crash_runs",
        serde_json::json!(CRASH_RUNS.load(std::sync::atomic::Ordering::Relaxed)),
    );
}
