//! C30 Matcher directory pruning is sound.
//!
//! Ground truth is `Matcher::matches`; `Matcher::visit` is checked against it at
//! every directory of every universe path, for random matcher expression trees
//! (and for every sub-expression of each tree).

use std::collections::BTreeMap;
use std::collections::BTreeSet;

use jj_lib::fileset::FilePattern;
use jj_lib::matchers::DifferenceMatcher;
use jj_lib::matchers::EverythingMatcher;
use jj_lib::matchers::FilesMatcher;
use jj_lib::matchers::GlobsMatcher;
use jj_lib::matchers::IntersectionMatcher;
use jj_lib::matchers::Matcher;
use jj_lib::matchers::NothingMatcher;
use jj_lib::matchers::PrefixMatcher;
use jj_lib::matchers::UnionMatcher;
use jj_lib::matchers::Visit;
use jj_lib::matchers::VisitDirs;
use jj_lib::matchers::VisitFiles;
use jj_lib::repo_path::RepoPath;
use jj_lib::repo_path::RepoPathBuf;
use proptest::prelude::*;
use serde::Deserialize;
use serde::Serialize;

use crate::engine::runner::CheckResult;
use crate::engine::runner::Outcome;
use crate::engine::runner::Report;
use crate::engine::runner::Violation;
use crate::engine::runner::pick;
use crate::ensure;

/// Signature of the one genuine defect class found by this check: a prefix-glob
/// whose pattern is an empty alternation (`{}`, `{,}`) compiles to the regex
/// `^$`, which matches the empty tail of its own directory, so `visit(dir)`
/// answers `AllRecursively` although nothing below `dir` matches.
pub const SIG_EMPTY_ALT: &str = "C30-prefix-glob-empty-alternation-visit-all";

const NAMES: [&str; 4] = ["a", "b", "ab", "a.rs"];

/// Glob components used by the generator (joined with `/`). All are valid for
/// globset; the last two are the degenerate empty alternations.
const GLOB_COMPS: [&str; 22] = [
    "*", "?", "a*", "*b", "*.rs", "a?", "?b", "[ab]", "[!a]", "[a-b]*", "{a,b}", "{a,ab}*", "*.*",
    "a", "b", "ab", "a.rs", "**", "**", "A*", "{}", "{,}",
];
const DEGENERATE_FROM: usize = 20;

#[derive(Debug, Clone, Serialize, Deserialize)]
pub struct GlobLeaf {
    /// Directory the pattern is anchored at (internal string, "" = root).
    pub dir: String,
    pub pattern: String,
    pub icase: bool,
}

#[derive(Debug, Clone, Serialize, Deserialize)]
pub enum Expr {
    Everything,
    Nothing,
    Files(Vec<String>),
    Prefix(Vec<String>),
    Globs { prefix: bool, pats: Vec<GlobLeaf> },
    Union(Box<Expr>, Box<Expr>),
    Inter(Box<Expr>, Box<Expr>),
    Diff(Box<Expr>, Box<Expr>),
}

#[derive(Debug, Clone, Serialize, Deserialize)]
pub struct Case {
    pub expr: Expr,
    /// Extra universe paths (internal strings).
    pub extra: Vec<String>,
}

fn arb_path(min: usize, max: usize) -> impl Strategy<Value = String> {
    prop::collection::vec(any::<u16>(), min..=max).prop_map(|v| {
        v.into_iter()
            .map(|r| NAMES[pick(r, NAMES.len())])
            .collect::<Vec<_>>()
            .join("/")
    })
}

fn arb_glob_leaf() -> impl Strategy<Value = GlobLeaf> {
    (
        arb_path(0, 2),
        prop::collection::vec(any::<u16>(), 1..=3),
        any::<u16>(),
        prop::bool::weighted(0.2),
    )
        .prop_map(|(dir, comps, degenerate, icase)| {
            let n = comps.len();
            let mut parts: Vec<&str> = comps
                .into_iter()
                .map(|r| GLOB_COMPS[pick(r, DEGENERATE_FROM)])
                .collect();
            // ~3% of the leaves end in a degenerate empty alternation
            if degenerate < 2000 {
                parts[n - 1] = GLOB_COMPS[DEGENERATE_FROM + (degenerate as usize & 1)];
            }
            GlobLeaf {
                dir,
                pattern: parts.join("/"),
                icase,
            }
        })
}

fn arb_leaf() -> impl Strategy<Value = Expr> {
    prop_oneof![
        1 => Just(Expr::Everything),
        1 => Just(Expr::Nothing),
        5 => prop::collection::vec(arb_path(0, 3), 0..=4).prop_map(Expr::Files),
        5 => prop::collection::vec(arb_path(0, 3), 0..=3).prop_map(Expr::Prefix),
        7 => (any::<bool>(), prop::collection::vec(arb_glob_leaf(), 1..=3))
            .prop_map(|(prefix, pats)| Expr::Globs { prefix, pats }),
    ]
}

fn arb_expr() -> impl Strategy<Value = Expr> {
    arb_leaf().prop_recursive(4, 24, 2, |inner| {
        prop_oneof![
            (inner.clone(), inner.clone()).prop_map(|(a, b)| Expr::Union(Box::new(a), Box::new(b))),
            (inner.clone(), inner.clone()).prop_map(|(a, b)| Expr::Inter(Box::new(a), Box::new(b))),
            (inner.clone(), inner).prop_map(|(a, b)| Expr::Diff(Box::new(a), Box::new(b))),
        ]
    })
}

fn arb_case() -> impl Strategy<Value = Case> {
    (arb_expr(), prop::collection::vec(arb_path(1, 4), 0..=8))
        .prop_map(|(expr, extra)| Case { expr, extra })
}

fn rp(s: &str) -> Result<RepoPathBuf, Violation> {
    RepoPathBuf::from_internal_string(s).map_err(|e| Violation::new(format!("harness: bad repo path {s:?}: {e}")))
}

fn join(dir: &str, rest: &str) -> String {
    match (dir.is_empty(), rest.is_empty()) {
        (true, _) => rest.to_string(),
        (_, true) => dir.to_string(),
        _ => format!("{dir}/{rest}"),
    }
}

/// Compiled glob leaf: the directory (leaf dir + literal head of the pattern)
/// and the `FilePattern::FileGlob` that owns the `globset::Glob`.
fn compile_glob(leaf: &GlobLeaf) -> Result<Option<(RepoPathBuf, FilePattern)>, Violation> {
    let parsed = if leaf.icase {
        FilePattern::root_file_glob_i(&leaf.pattern)
    } else {
        FilePattern::root_file_glob(&leaf.pattern)
    };
    match parsed {
        Ok(FilePattern::FileGlob { dir, pattern }) => {
            let full = rp(&join(&leaf.dir, dir.as_internal_file_string()))?;
            Ok(Some((full, FilePattern::FileGlob { dir, pattern })))
        }
        // no glob character at all: not a glob leaf
        Ok(_) => Ok(None),
        Err(err) => Err(Violation::new(format!(
            "harness: generated glob {:?} rejected: {err}",
            leaf.pattern
        ))),
    }
}

fn build(expr: &Expr) -> Result<Box<dyn Matcher>, Violation> {
    Ok(match expr {
        Expr::Everything => Box::new(EverythingMatcher),
        Expr::Nothing => Box::new(NothingMatcher),
        Expr::Files(paths) => {
            let paths: Vec<RepoPathBuf> = paths.iter().map(|p| rp(p)).collect::<Result<_, _>>()?;
            Box::new(FilesMatcher::new(paths))
        }
        Expr::Prefix(paths) => {
            let paths: Vec<RepoPathBuf> = paths.iter().map(|p| rp(p)).collect::<Result<_, _>>()?;
            Box::new(PrefixMatcher::new(paths))
        }
        Expr::Globs { prefix, pats } => {
            let mut compiled = vec![];
            for leaf in pats {
                if let Some(c) = compile_glob(leaf)? {
                    compiled.push(c);
                }
            }
            let mut builder = GlobsMatcher::builder().prefix_paths(*prefix);
            for (dir, fp) in &compiled {
                if let FilePattern::FileGlob { pattern, .. } = fp {
                    builder.add(dir, pattern);
                }
            }
            Box::new(builder.build())
        }
        Expr::Union(a, b) => Box::new(UnionMatcher::new(build(a)?, build(b)?)),
        Expr::Inter(a, b) => Box::new(IntersectionMatcher::new(build(a)?, build(b)?)),
        Expr::Diff(a, b) => Box::new(DifferenceMatcher::new(build(a)?, build(b)?)),
    })
}

fn nodes<'a>(expr: &'a Expr, out: &mut Vec<&'a Expr>) {
    out.push(expr);
    if let Expr::Union(a, b) | Expr::Inter(a, b) | Expr::Diff(a, b) = expr {
        nodes(a, out);
        nodes(b, out);
    }
}

fn mentioned(expr: &Expr, out: &mut BTreeSet<String>) {
    match expr {
        Expr::Everything | Expr::Nothing => {}
        Expr::Files(ps) | Expr::Prefix(ps) => out.extend(ps.iter().cloned()),
        Expr::Globs { pats, .. } => {
            for leaf in pats {
                out.insert(leaf.dir.clone());
                // literal head of the pattern, if any
                let head: Vec<&str> = leaf
                    .pattern
                    .split('/')
                    .take_while(|c| NAMES.contains(c))
                    .collect();
                out.insert(join(&leaf.dir, &head.join("/")));
            }
        }
        Expr::Union(a, b) | Expr::Inter(a, b) | Expr::Diff(a, b) => {
            mentioned(a, out);
            mentioned(b, out);
        }
    }
}

fn has_degenerate_prefix_glob(expr: &Expr) -> bool {
    match expr {
        Expr::Globs { prefix: true, pats } => pats.iter().any(|l| {
            l.pattern
                .split('/')
                .any(|c| GLOB_COMPS[DEGENERATE_FROM..].contains(&c))
        }),
        Expr::Union(a, b) | Expr::Inter(a, b) | Expr::Diff(a, b) => {
            has_degenerate_prefix_glob(a) || has_degenerate_prefix_glob(b)
        }
        _ => false,
    }
}

/// All universe paths (non-root), as internal strings.
fn universe(case: &Case) -> BTreeSet<String> {
    let mut u = BTreeSet::new();
    // exhaustive to depth 3 over the 4-name alphabet (84 paths)
    for a in NAMES {
        u.insert(a.to_string());
        for b in NAMES {
            u.insert(format!("{a}/{b}"));
            for c in NAMES {
                u.insert(format!("{a}/{b}/{c}"));
            }
        }
    }
    let mut m = BTreeSet::new();
    mentioned(&case.expr, &mut m);
    for p in m {
        for n in NAMES {
            let child = join(&p, n);
            for n2 in NAMES {
                u.insert(join(&child, n2));
            }
            u.insert(child);
        }
        if !p.is_empty() {
            u.insert(p);
        }
    }
    u.extend(case.extra.iter().filter(|p| !p.is_empty()).cloned());
    u
}

#[derive(Default)]
struct Seen {
    finite_set: bool,
    all_recursively: bool,
    nothing: bool,
    some: bool,
}

fn check_node(
    what: &str,
    m: &dyn Matcher,
    paths: &[(String, RepoPathBuf)],
    dirs: &BTreeMap<String, RepoPathBuf>,
    seen: &mut Seen,
) -> Result<(), Violation> {
    let visits: BTreeMap<&str, Visit> = dirs
        .iter()
        .map(|(s, d)| (s.as_str(), m.visit(d)))
        .collect();
    let matched: Vec<bool> = paths.iter().map(|(_, p)| m.matches(p)).collect();
    for ((s, _), &is_match) in paths.iter().zip(&matched) {
        if !is_match {
            continue;
        }
        // every proper ancestor directory of s, root included
        let comps: Vec<&str> = s.split('/').collect();
        for k in 0..comps.len() {
            let d = comps[..k].join("/");
            let next = comps[k];
            let direct = k + 1 == comps.len();
            match &visits[d.as_str()] {
                Visit::AllRecursively => {}
                Visit::Nothing => {
                    return Err(Violation::new(format!(
                        "{what}: visit({d:?}) = Nothing but {s:?} matches"
                    )));
                }
                Visit::Specific { dirs, files } => {
                    if direct {
                        match files {
                            VisitFiles::All => {}
                            VisitFiles::Set(set) => {
                                seen.finite_set = true;
                                ensure!(
                                    set.iter().any(|c| c.as_internal_str() == next),
                                    "{what}: visit({d:?}).files = {set:?} omits matching file {s:?}"
                                );
                            }
                        }
                    } else {
                        match dirs {
                            VisitDirs::All => {}
                            VisitDirs::Set(set) => {
                                seen.finite_set = true;
                                ensure!(
                                    set.iter().any(|c| c.as_internal_str() == next),
                                    "{what}: visit({d:?}).dirs = {set:?} omits {next:?} on the way to matching {s:?}"
                                );
                            }
                        }
                    }
                }
            }
        }
    }
    for (d, v) in &visits {
        match v {
            Visit::AllRecursively => {
                let mut below = 0;
                for ((s, _), &is_match) in paths.iter().zip(&matched) {
                    let under = d.is_empty()
                        || (s.len() > d.len() && s.starts_with(d) && s.as_bytes()[d.len()] == b'/');
                    if under {
                        below += 1;
                        ensure!(
                            is_match,
                            "{what}: visit({d:?}) = AllRecursively but {s:?} does not match"
                        );
                    }
                }
                if below > 0 {
                    seen.all_recursively = true;
                }
            }
            Visit::Nothing => seen.nothing = true,
            Visit::Specific {
                dirs: VisitDirs::All,
                files: VisitFiles::All,
            } => seen.some = true,
            Visit::Specific { .. } => {}
        }
    }
    Ok(())
}

fn shape(expr: &Expr, kinds: &mut [u32; 3], depth: usize, max_depth: &mut usize) {
    *max_depth = (*max_depth).max(depth);
    match expr {
        Expr::Union(a, b) => {
            kinds[0] += 1;
            shape(a, kinds, depth + 1, max_depth);
            shape(b, kinds, depth + 1, max_depth);
        }
        Expr::Inter(a, b) => {
            kinds[1] += 1;
            shape(a, kinds, depth + 1, max_depth);
            shape(b, kinds, depth + 1, max_depth);
        }
        Expr::Diff(a, b) => {
            kinds[2] += 1;
            shape(a, kinds, depth + 1, max_depth);
            shape(b, kinds, depth + 1, max_depth);
        }
        _ => {}
    }
}

fn check(case: &Case) -> CheckResult {
    let uni = universe(case);
    let paths: Vec<(String, RepoPathBuf)> = uni
        .iter()
        .map(|s| Ok((s.clone(), rp(s)?)))
        .collect::<Result<_, Violation>>()?;
    // every directory on the way to a universe path, plus the paths themselves
    let mut dirs: BTreeMap<String, RepoPathBuf> = BTreeMap::new();
    dirs.insert(String::new(), RepoPathBuf::root());
    for (s, p) in &paths {
        let comps: Vec<&str> = s.split('/').collect();
        for k in 1..comps.len() {
            let d = comps[..k].join("/");
            if !dirs.contains_key(&d) {
                let dp = rp(&d)?;
                dirs.insert(d, dp);
            }
        }
        dirs.insert(s.clone(), p.clone());
    }

    let mut all_nodes = vec![];
    nodes(&case.expr, &mut all_nodes);
    let mut seen_root = Seen::default();
    let mut known: Option<Violation> = None;
    for (i, node) in all_nodes.iter().enumerate() {
        let m = build(node)?;
        let mut seen = Seen::default();
        let what = if i == 0 { "root".to_string() } else { format!("sub-expression #{i} {node:?}") };
        if let Err(v) = check_node(&what, m.as_ref(), &paths, &dirs, &mut seen) {
            if has_degenerate_prefix_glob(node) {
                // genuine, reported: search continues behind it
                known.get_or_insert(Violation::known(SIG_EMPTY_ALT, v.msg));
                continue;
            }
            return Err(v);
        }
        if i == 0 {
            seen_root = seen;
        }
        // combinators: matches == boolean combination of the children's matches
        if let Expr::Union(a, b) | Expr::Inter(a, b) | Expr::Diff(a, b) = node {
            let (ma, mb) = (build(a)?, build(b)?);
            let root = RepoPath::root();
            for p in paths.iter().map(|(_, p)| p.as_ref()).chain([root]) {
                let (x, y) = (ma.matches(p), mb.matches(p));
                let want = match node {
                    Expr::Union(..) => x || y,
                    Expr::Inter(..) => x && y,
                    _ => x && !y,
                };
                ensure!(
                    m.matches(p) == want,
                    "{what}: matches({p:?}) = {} but children give {x}, {y}",
                    m.matches(p)
                );
            }
        }
    }
    if let Some(v) = known {
        return Err(v);
    }

    let mut kinds = [0u32; 3];
    let mut max_depth = 0;
    shape(&case.expr, &mut kinds, 0, &mut max_depth);
    let distinct_kinds = kinds.iter().filter(|&&k| k > 0).count();
    let combinators: u32 = kinds.iter().sum();
    let nontrivial = combinators >= 2 && distinct_kinds >= 2 && seen_root.finite_set;
    let mut leaves = [false; 4];
    for n in &all_nodes {
        match n {
            Expr::Files(_) => leaves[0] = true,
            Expr::Prefix(_) => leaves[1] = true,
            Expr::Globs { prefix: false, .. } => leaves[2] = true,
            Expr::Globs { prefix: true, .. } => leaves[3] = true,
            _ => {}
        }
    }
    Ok(Outcome::new(nontrivial)
        .class_if(seen_root.finite_set, "root:finite-set-checked")
        .class_if(seen_root.all_recursively, "root:all-recursively-with-paths-below")
        .class_if(seen_root.nothing, "root:nothing-somewhere")
        .class_if(seen_root.some, "root:visit-some")
        .class_if(kinds[2] > 0, "has-difference")
        .class_if(kinds[1] > 0, "has-intersection")
        .class_if(kinds[0] > 0, "has-union")
        .class_if(distinct_kinds == 3, "all-three-combinators")
        .class_if(max_depth >= 3, "depth>=3")
        .class_if(leaves[0], "leaf:files")
        .class_if(leaves[1], "leaf:prefix")
        .class_if(leaves[2], "leaf:file-globs")
        .class_if(leaves[3], "leaf:prefix-globs")
        .class_if(uni.len() > 120, "universe>120"))
}

pub fn run(report: &mut Report) {
    report.set_rule(
        "random matcher expression trees of depth <= 4 over Files/Prefix/Globs(prefix_paths \
         false|true)/Everything/Nothing leaves and Union/Intersection/Difference nodes; universe = \
         all paths of depth <= 3 over {a,b,ab,a.rs} plus every path mentioned by a leaf, its \
         children and grandchildren, plus up to 8 random paths of depth <= 4; visit() of the tree \
         and of every sub-expression is checked against matches() at every directory of every \
         universe path; non-trivial = >= 2 combinators of >= 2 different kinds and a finite \
         VisitDirs/VisitFiles set was checked for a matching path at the root expression",
    );
    report.assume("Matcher::matches is the ground truth; only paths of the finite universe are probed");
    report.assume("globs are compiled through FilePattern::root_file_glob[_i] (globset, literal_separator)");
    let cases = report.tier.pick(12_000, 600_000);
    report.prop("random", cases, arb_case, check);
}
