//! C07 Tree merges are the path-wise merge of their inputs.
//!
//! Differential of `MergedTree::merge` against a small recursive reference
//! merger over model trees (DESIGN §5 C07). The reference works on
//! `BTreeMap<path, Entry>` values only; from jj it borrows `Merge::flatten` /
//! `Merge::simplify` (term order, covered by C01) and `files::try_merge`
//! (content merge of one file, covered by C04) and nothing from
//! `tree_merge.rs` / `merged_tree.rs`.

use std::collections::BTreeMap;
use std::collections::BTreeSet;
use std::sync::Arc;

use jj_lib::config::ConfigLayer;
use jj_lib::config::ConfigSource;
use jj_lib::files;
use jj_lib::merge::Merge;
use jj_lib::merge::SameChange;
use jj_lib::merged_tree::MergedTree;
use jj_lib::repo::Repo as _;
use jj_lib::settings::UserSettings;
use jj_lib::store::Store;
use jj_lib::tree_merge::MergeOptions;
use pollster::FutureExt as _;
use proptest::prelude::*;
use serde::Deserialize;
use serde::Serialize;
use testutils::TestRepo;

use crate::engine::runner::CheckResult;
use crate::engine::runner::Outcome;
use crate::engine::runner::Report;
use crate::engine::runner::Violation;
use crate::engine::runner::pick;
use crate::ensure;
use crate::ensure_eq;
use crate::gens::content::Bytes;
use crate::model::tree::Entry;
use crate::model::tree::ModelTree;
use crate::model::tree::repo_path;
use crate::model::tree::write_tree;
use crate::model::tree_ops::Edit;
use crate::model::tree_ops::Term;
use crate::model::tree_ops::ancestors;
use crate::model::tree_ops::apply_all;
use crate::model::tree_ops::brief_terms;
use crate::model::tree_ops::edit;
use crate::model::tree_ops::model_lookup;
use crate::model::tree_ops::read_sides;
use crate::model::tree_ops::rich_tree;
use crate::model::tree_ops::terms_of_merge;
use crate::model::tree_ops::universe;
use crate::props::c01::denote;
use crate::props::c02::oracle;

// ---------------------------------------------------------------------------
// Reference merger over the model
// ---------------------------------------------------------------------------

#[derive(Default, Debug, Clone)]
pub struct RefStats {
    /// Names left conflicted whose terms mix a directory with a non-directory.
    pub clash: u32,
    /// Names left conflicted for another reason (absent side, symlink, exec).
    pub other_conflict: u32,
    /// Files resolved by `files::try_merge`.
    pub content_merged: u32,
    /// Files whose content merge failed.
    pub content_conflict: u32,
    /// File merges whose executable bits were not all equal.
    pub exec_merged: u32,
    /// Names resolved by counting where a directory term took part and the
    /// terms were not all equal (whole subtrees cancelled / were picked).
    pub subtree_pick: u32,
    pub recursed: u32,
}

pub struct RefOpts<'a> {
    pub accept: bool,
    pub options: &'a MergeOptions,
}

/// Children of one directory: first path component -> term.
fn children(dir: &ModelTree) -> BTreeMap<String, Term> {
    let mut out: BTreeMap<String, Term> = BTreeMap::new();
    for (path, entry) in dir {
        match path.split_once('/') {
            None => {
                out.insert(path.clone(), Term::Leaf(entry.clone()));
            }
            Some((name, rest)) => {
                let slot = out
                    .entry(name.to_string())
                    .or_insert_with(|| Term::Dir(ModelTree::new()));
                if let Term::Dir(sub) = slot {
                    sub.insert(rest.to_string(), entry.clone());
                } else {
                    panic!("model tree has a file and a directory at {name}");
                }
            }
        }
    }
    out
}

/// Merge of regular files: value-level simplification (jj's term order), the
/// executable bit by counting (Accept), the content by counting and then by
/// `files::try_merge` on the content-simplified terms.
fn ref_merge_files(terms: &[Term], opts: &RefOpts<'_>, stats: &mut RefStats) -> Option<Entry> {
    let simplified = Merge::from_vec(terms.to_vec()).simplify();
    let mut execs = vec![];
    let mut contents: Vec<Bytes> = vec![];
    for t in simplified.iter() {
        match t {
            Term::Leaf(Entry::File { content, exec }) => {
                execs.push(*exec);
                contents.push(content.clone());
            }
            _ => return None,
        }
    }
    if execs.iter().any(|e| *e != execs[0]) {
        stats.exec_merged += 1;
    }
    let exec = oracle(&execs, true)?;
    if let Some(content) = oracle(&contents, opts.accept) {
        return Some(Entry::File { content, exec });
    }
    let contents = Merge::from_vec(contents).simplify();
    match files::try_merge(&contents, opts.options) {
        Some(merged) => {
            stats.content_merged += 1;
            Some(Entry::File {
                content: Bytes(merged.into()),
                exec,
            })
        }
        None => {
            stats.content_conflict += 1;
            None
        }
    }
}

fn insert_term(side: &mut ModelTree, name: &str, term: &Term) {
    match term {
        Term::Absent => {}
        Term::Leaf(e) => {
            side.insert(name.to_string(), e.clone());
        }
        Term::Dir(sub) => {
            for (p, e) in sub {
                side.insert(format!("{name}/{p}"), e.clone());
            }
        }
    }
}

/// Merges directories given as model trees (odd count, adds at even
/// positions). Returns one tree if everything resolved, else one tree per
/// input term: every resolved name in all of them, every conflicted name's
/// i-th term in the i-th.
pub fn ref_merge_dir(dirs: &[ModelTree], opts: &RefOpts<'_>, stats: &mut RefStats) -> Vec<ModelTree> {
    assert!(dirs.len() % 2 == 1);
    if dirs.len() == 1 {
        return vec![dirs[0].clone()];
    }
    let n = dirs.len();
    let kids: Vec<BTreeMap<String, Term>> = dirs.iter().map(children).collect();
    let names: BTreeSet<&String> = kids.iter().flat_map(|k| k.keys()).collect();
    let mut values: Vec<(&String, Vec<Term>)> = vec![];
    for name in names {
        let terms: Vec<Term> = kids
            .iter()
            .map(|k| k.get(name).cloned().unwrap_or(Term::Absent))
            .collect();
        let value = if let Some(t) = oracle(&terms, opts.accept) {
            if terms.iter().any(Term::is_dir) && terms.iter().any(|x| *x != terms[0]) {
                stats.subtree_pick += 1;
            }
            vec![t]
        } else if terms.iter().all(|t| matches!(t, Term::Dir(_) | Term::Absent)) {
            let subs: Vec<ModelTree> = terms
                .iter()
                .map(|t| match t {
                    Term::Dir(s) => s.clone(),
                    _ => ModelTree::new(),
                })
                .collect();
            stats.recursed += 1;
            ref_merge_dir(&subs, opts, stats)
                .into_iter()
                .map(|s| if s.is_empty() { Term::Absent } else { Term::Dir(s) })
                .collect()
        } else {
            // Terms that cancel (e.g. absent/absent or dir/dir pairs) are dropped
            // before asking whether this is a merge of regular files.
            match ref_merge_files(&terms, opts, stats) {
                Some(entry) => vec![Term::Leaf(entry)],
                None => {
                    if terms.iter().any(Term::is_dir) {
                        stats.clash += 1;
                    } else if !terms.iter().all(Term::is_file) {
                        stats.other_conflict += 1;
                    }
                    terms
                }
            }
        };
        assert!(value.len() == 1 || value.len() == n);
        values.push((name, value));
    }
    let num_sides = if values.iter().all(|(_, v)| v.len() == 1) { 1 } else { n };
    (0..num_sides)
        .map(|i| {
            let mut side = ModelTree::new();
            for (name, value) in &values {
                let term = if value.len() == 1 { &value[0] } else { &value[i] };
                insert_term(&mut side, name, term);
            }
            side
        })
        .collect()
}

/// What the reference says about one path of the merged tree.
#[derive(Debug, Clone, PartialEq, Eq)]
pub enum RefValue {
    Resolved(Term),
    Conflict(Vec<Term>),
}

/// Value of `path` in the reference result (given as sides), after trivial
/// resolution by counting.
pub fn ref_value(sides: &[ModelTree], path: &str, accept: bool) -> RefValue {
    let terms: Vec<Term> = sides.iter().map(|s| model_lookup(s, path)).collect();
    if terms.len() == 1 {
        return RefValue::Resolved(terms.into_iter().next().unwrap());
    }
    match oracle(&terms, accept) {
        Some(t) => RefValue::Resolved(t),
        None => RefValue::Conflict(terms),
    }
}

/// How `path` stands in the reference result with respect to its ancestors.
enum Shadow {
    /// Every ancestor is a directory (resolved, or conflicted among directories).
    Visible,
    /// Some ancestor resolved to a file/symlink/nothing: the path cannot exist.
    BelowLeaf,
    /// Some ancestor is a conflict that involves a non-directory.
    BelowClash,
}

fn shadow(sides: &[ModelTree], path: &str, accept: bool) -> Shadow {
    for a in ancestors(path) {
        match ref_value(sides, a, accept) {
            RefValue::Resolved(Term::Dir(_)) => {}
            RefValue::Resolved(_) => return Shadow::BelowLeaf,
            RefValue::Conflict(terms) => {
                if !terms.iter().all(|t| matches!(t, Term::Dir(_) | Term::Absent)) {
                    return Shadow::BelowClash;
                }
            }
        }
    }
    Shadow::Visible
}

#[derive(Default)]
struct CompareStats {
    below_clash: u32,
    conflicted_paths: u32,
}

/// Compares jj's merged tree with the reference result at every path of the
/// universe.
fn compare(
    what: &str,
    merged: &MergedTree,
    sides: &[ModelTree],
    input_sides: usize,
    accept: bool,
    cstats: &mut CompareStats,
) -> Result<(), Violation> {
    let store = merged.store();
    ensure_eq!(
        merged.has_conflict(),
        sides.len() > 1,
        "{what}: has_conflict() vs reference has a conflicted path"
    );
    ensure!(
        merged.tree_ids().num_sides() <= input_sides,
        "{what}: result has {} sides, input had {input_sides}",
        merged.tree_ids().num_sides()
    );
    for path in universe() {
        let rp = repo_path(&path);
        let jv = merged
            .path_value(&rp)
            .block_on()
            .map_err(|e| Violation::new(format!("{what}: path_value({path}): {e}")))?;
        match shadow(sides, &path, accept) {
            Shadow::BelowClash => {
                cstats.below_clash += 1;
                continue;
            }
            Shadow::BelowLeaf => {
                ensure!(
                    jv.is_absent(),
                    "{what}: {path} lies below a non-directory of the result but has value {jv:?}"
                );
                continue;
            }
            Shadow::Visible => {}
        }
        let jterms = terms_of_merge(store, &rp, &jv)
            .map_err(|e| Violation::new(format!("{what}: reading value at {path}: {e}")))?;
        match ref_value(sides, &path, accept) {
            RefValue::Resolved(t) => {
                ensure!(
                    jv.is_resolved(),
                    "{what}: {path} is conflicted {} but the path-wise merge resolves to {}",
                    brief_terms(&jterms),
                    t.brief()
                );
                ensure!(
                    jterms[0] == t,
                    "{what}: {path} = {} but the path-wise merge gives {}",
                    jterms[0].brief(),
                    t.brief()
                );
            }
            RefValue::Conflict(terms) => {
                cstats.conflicted_paths += 1;
                ensure!(
                    !jv.is_resolved(),
                    "{what}: {path} resolved to {} but the path-wise merge is the conflict {}",
                    jterms[0].brief(),
                    brief_terms(&terms)
                );
                ensure!(
                    jv.num_sides() <= input_sides,
                    "{what}: {path} has {} sides, input had {input_sides}",
                    jv.num_sides()
                );
                let all_dirs = terms.iter().all(|t| matches!(t, Term::Dir(_) | Term::Absent));
                if !all_dirs {
                    ensure!(
                        denote(&jterms) == denote(&terms),
                        "{what}: conflict at {path} is {} but the path-wise merge is {}",
                        brief_terms(&jterms),
                        brief_terms(&terms)
                    );
                }
            }
        }
    }
    Ok(())
}

// ---------------------------------------------------------------------------
// Cases
// ---------------------------------------------------------------------------

#[derive(Debug, Clone, Serialize, Deserialize)]
pub struct TreeSpec {
    /// `None`: edits of the base tree; `Some(r)`: edits of an earlier tree.
    pub from: Option<u16>,
    pub edits: Vec<Edit>,
}

#[derive(Debug, Clone, Serialize, Deserialize)]
pub enum Inner {
    Leaf(u16),
    Merge { terms: Vec<u16>, resolve: bool },
}

#[derive(Debug, Clone, Serialize, Deserialize)]
pub enum Shape {
    /// Merge all trees of the pool, in order.
    Flat,
    /// Merge of (possibly conflicted) trees built from the pool.
    Nested(Vec<Inner>),
}

#[derive(Debug, Clone, Serialize, Deserialize)]
pub struct Case {
    /// `merge.same-change = "keep"` instead of the default "accept".
    pub keep: bool,
    pub base: ModelTree,
    pub trees: Vec<TreeSpec>,
    pub shape: Shape,
    /// Path selector of the restriction relation (flat 3-way cases).
    pub focus: u16,
}

pub fn tree_spec() -> impl Strategy<Value = TreeSpec> {
    (
        prop_oneof![3 => Just(None), 2 => any::<u16>().prop_map(Some)],
        prop_oneof![
            2 => Just(vec![]),
            5 => prop::collection::vec(edit(), 1..=2),
            1 => prop::collection::vec(edit(), 3..=4),
        ],
    )
        .prop_map(|(from, edits)| TreeSpec { from, edits })
}

pub fn build_models(base: &ModelTree, specs: &[TreeSpec]) -> Vec<ModelTree> {
    let mut out: Vec<ModelTree> = vec![];
    for spec in specs {
        let from = match spec.from {
            Some(r) if !out.is_empty() => out[pick(r, out.len())].clone(),
            _ => base.clone(),
        };
        out.push(apply_all(&from, &spec.edits));
    }
    out
}

fn case_strategy() -> impl Strategy<Value = Case> {
    let flat = prop_oneof![5 => Just(3usize), 3 => Just(5usize), 2 => Just(7usize)]
        .prop_flat_map(|n| prop::collection::vec(tree_spec(), n))
        .prop_map(|trees| (trees, Shape::Flat));
    let inner = prop_oneof![
        2 => any::<u16>().prop_map(Inner::Leaf),
        3 => (prop::collection::vec(any::<u16>(), 3), prop::bool::weighted(0.7))
            .prop_map(|(terms, resolve)| Inner::Merge { terms, resolve }),
        1 => (prop::collection::vec(any::<u16>(), 5), prop::bool::weighted(0.7))
            .prop_map(|(terms, resolve)| Inner::Merge { terms, resolve }),
    ];
    let nested = (
        prop::collection::vec(tree_spec(), 3..=7),
        prop_oneof![4 => Just(3usize), 1 => Just(5usize)]
            .prop_flat_map(move |n| prop::collection::vec(inner.clone(), n)),
    )
        .prop_map(|(trees, inners)| (trees, Shape::Nested(inners)));
    (
        prop::bool::weighted(0.2),
        rich_tree(7),
        prop_oneof![3 => flat.boxed(), 2 => nested.boxed()],
        any::<u16>(),
    )
        .prop_map(|(keep, base, (trees, shape), focus)| Case {
            keep,
            base,
            trees,
            shape,
            focus,
        })
}

pub fn settings(keep: bool) -> UserSettings {
    let mut config = testutils::base_user_config();
    if keep {
        let mut layer = ConfigLayer::empty(ConfigSource::User);
        layer.set_value("merge.same-change", "keep").unwrap();
        config.add_layer(layer);
    }
    UserSettings::from_config(config).unwrap()
}

fn labelled(trees: Vec<MergedTree>) -> Merge<(MergedTree, String)> {
    Merge::from_vec(
        trees
            .into_iter()
            .enumerate()
            .map(|(i, t)| (t, format!("t{i}")))
            .collect::<Vec<_>>(),
    )
}

/// Signature of the known finding: the re-merge idempotency `debug_assert_eq!`
/// in `MergedTree::resolve` fires because the final tree-level simplification of
/// the merge result enables further automatic resolution.
pub const SIG_NOT_IDEMPOTENT: &str = "C07-resolve-not-idempotent-after-simplify";

/// Outcome of one `MergedTree::merge`: the tree, or the message of jj's
/// re-merge idempotency debug assertion.
pub type MergeAttempt = Result<MergedTree, String>;

pub fn jj_merge_attempt(
    what: &str,
    merge: Merge<(MergedTree, String)>,
) -> Result<MergeAttempt, Violation> {
    match crate::engine::runner::catch(|| {
        MergedTree::merge(merge)
            .block_on()
            .map_err(|e| Violation::new(format!("{what}: MergedTree::merge failed: {e}")))
    }) {
        Ok(t) => Ok(Ok(t)),
        Err(v) if is_idempotency_panic(&v.msg) => Ok(Err(v.msg)),
        Err(v) => Err(Violation::new(format!("{what}: {}", v.msg))),
    }
}

/// Does the reference predict that the merge of `flat` is not a fixpoint once
/// its result is simplified at tree level (cancelling sides dropped)?
pub fn ref_predicts_unstable(flat: &[ModelTree], opts: &RefOpts<'_>) -> bool {
    let mut st = RefStats::default();
    let sides = ref_merge_dir(flat, opts, &mut st);
    if sides.len() == 1 {
        return false;
    }
    let simplified = Merge::from_vec(sides.clone()).simplify();
    if simplified.as_slice().len() == sides.len() {
        return false;
    }
    let again = ref_merge_dir(simplified.as_slice(), opts, &mut st);
    again.as_slice() != simplified.as_slice()
}

/// Is this panic message the re-merge idempotency assertion of
/// `MergedTree::resolve`?
pub fn is_idempotency_panic(msg: &str) -> bool {
    msg.starts_with("panic: assertion `left == right` failed") && msg.contains("merged_tree.rs")
}

/// For an *unresolved* merged tree (output of `merge_no_resolve`): does the
/// reference predict that resolving it is not a fixpoint after the final
/// tree-level simplification? Used to recognise the known finding when the
/// merge happens inside other jj code (rebase, merge of parent trees).
pub fn unstable_by_reference(unresolved: &MergedTree) -> Result<bool, String> {
    let store = unresolved.store();
    let options = store.merge_options().clone();
    let opts = RefOpts {
        accept: matches!(options.same_change, SameChange::Accept),
        options: &options,
    };
    let sides = read_sides(unresolved)?;
    let flat = Merge::from_vec(sides).simplify();
    Ok(ref_predicts_unstable(flat.as_slice(), &opts))
}

/// Merges with jj. If jj's idempotency debug assertion fires and the reference
/// predicts exactly that for these flat terms, the failure is the known finding;
/// any other panic or error is a violation.
fn jj_merge(
    what: &str,
    trees: Vec<MergedTree>,
    flat: Option<&[ModelTree]>,
    opts: &RefOpts<'_>,
) -> Result<MergedTree, Violation> {
    match jj_merge_attempt(what, labelled(trees))? {
        Ok(t) => Ok(t),
        Err(msg) => {
            if flat.is_some_and(|flat| ref_predicts_unstable(flat, opts)) {
                Err(Violation::known(
                    SIG_NOT_IDEMPOTENT,
                    format!("{what}: {msg}"),
                ))
            } else {
                Err(Violation::new(format!("{what}: {msg}")))
            }
        }
    }
}

fn restrict(tree: &ModelTree, path: &str) -> ModelTree {
    tree.iter()
        .filter(|(p, _)| crate::model::tree_ops::paths_related(path, p) && p.len() >= path.len())
        .map(|(p, e)| (p.clone(), e.clone()))
        .collect()
}

/// `a ≃ b` at every path: equal values where both are resolved, equal
/// denotation where both are conflicted, never one of each.
fn equivalent_everywhere(
    what: &str,
    store: &Arc<Store>,
    a: &MergedTree,
    b: &MergedTree,
) -> Result<(), Violation> {
    for path in universe() {
        let rp = repo_path(&path);
        let va = a.path_value(&rp).block_on().map_err(|e| Violation::new(e.to_string()))?;
        let vb = b.path_value(&rp).block_on().map_err(|e| Violation::new(e.to_string()))?;
        ensure_eq!(va.is_resolved(), vb.is_resolved(), "{what}: resolved-ness at {path}");
        if va.is_resolved() {
            ensure_eq!(va, vb, "{what}: value at {path}");
        } else if !va.is_tree() || !vb.is_tree() {
            let ta = terms_of_merge(store, &rp, &va).map_err(Violation::new)?;
            let tb = terms_of_merge(store, &rp, &vb).map_err(Violation::new)?;
            ensure!(
                denote(&ta) == denote(&tb),
                "{what}: conflict at {path}: {} vs {}",
                brief_terms(&ta),
                brief_terms(&tb)
            );
        }
    }
    Ok(())
}

thread_local! {
    /// One repo per worker thread and same-change setting. Tree merges depend
    /// only on the (content-addressed, in-memory) store contents, so reusing the
    /// store across cases does not make a case's outcome depend on earlier cases.
    static REPOS: std::cell::RefCell<[Option<TestRepo>; 2]> = const { std::cell::RefCell::new([None, None]) };
}

fn with_store<T>(keep: bool, f: impl FnOnce(&Arc<Store>) -> T) -> T {
    let store = REPOS.with(|r| {
        let mut r = r.borrow_mut();
        let slot = &mut r[usize::from(keep)];
        if slot.is_none() {
            *slot = Some(TestRepo::init_with_settings(&settings(keep)));
        }
        slot.as_ref().unwrap().repo.store().clone()
    });
    f(&store)
}

fn check(case: &Case) -> CheckResult {
    with_store(case.keep, |store| check_in(case, store.clone()))
}

fn check_in(case: &Case, store: Arc<Store>) -> CheckResult {
    let options = store.merge_options().clone();
    let accept = matches!(options.same_change, SameChange::Accept);
    ensure_eq!(accept, !case.keep, "store merge options follow the settings");
    let opts = RefOpts {
        accept,
        options: &options,
    };
    let models = build_models(&case.base, &case.trees);
    let written: Vec<MergedTree> = models.iter().map(|m| write_tree(&store, m)).collect();
    let mut stats = RefStats::default();
    let mut cstats = CompareStats::default();
    let mut conflicted_input = false;
    let mut nested = false;

    // Build jj's merge and the nested model term list.
    let (merged, nested_terms): (MergedTree, Merge<Merge<ModelTree>>) = match &case.shape {
        Shape::Flat => {
            let flat = Merge::from_vec(models.clone()).simplify();
            (
                jj_merge("flat", written.clone(), Some(flat.as_slice()), &opts)?,
                Merge::from_vec(models.iter().cloned().map(Merge::resolved).collect::<Vec<_>>()),
            )
        }
        Shape::Nested(inners) => {
            nested = true;
            let mut outer_trees = vec![];
            let mut outer_models = vec![];
            for (k, inner) in inners.iter().enumerate() {
                match inner {
                    Inner::Leaf(r) => {
                        let i = pick(*r, models.len());
                        outer_trees.push(written[i].clone());
                        outer_models.push(Merge::resolved(models[i].clone()));
                    }
                    Inner::Merge { terms, resolve } => {
                        let idx: Vec<usize> =
                            terms.iter().map(|r| pick(*r, models.len())).collect();
                        let in_trees: Vec<MergedTree> =
                            idx.iter().map(|i| written[*i].clone()).collect();
                        let what = format!("inner#{k}");
                        let tree = if *resolve {
                            // The inner merge is itself a flat merge: check it.
                            let flat = Merge::from_vec(
                                idx.iter().map(|i| models[*i].clone()).collect::<Vec<_>>(),
                            )
                            .simplify();
                            let t = jj_merge(&what, in_trees, Some(flat.as_slice()), &opts)?;
                            let mut inner_stats = RefStats::default();
                            let sides = ref_merge_dir(flat.as_slice(), &opts, &mut inner_stats);
                            compare(&what, &t, &sides, flat.as_slice().len(), accept, &mut cstats)?;
                            t
                        } else {
                            MergedTree::merge_no_resolve(labelled(in_trees))
                        };
                        conflicted_input |= tree.has_conflict();
                        let sides = read_sides(&tree)
                            .map_err(|e| Violation::new(format!("{what}: reading sides: {e}")))?;
                        outer_trees.push(tree);
                        outer_models.push(Merge::from_vec(sides));
                    }
                }
            }
            let outer = Merge::from_vec(outer_models);
            let flat = outer.clone().flatten().simplify();
            (
                jj_merge("nested", outer_trees, Some(flat.as_slice()), &opts)?,
                outer,
            )
        }
    };
    // Term order of the reference = jj's own flatten + simplify (on model trees,
    // which are equal exactly when their tree ids are).
    let input_sides = nested_terms.iter().map(|m| m.as_slice().len()).sum::<usize>();
    let flat_terms = nested_terms.flatten().simplify();
    let sides = ref_merge_dir(flat_terms.as_slice(), &opts, &mut stats);
    compare("merge", &merged, &sides, input_sides, accept, &mut cstats)?;
    if sides.len() == 1 {
        // A conflict-free result must be exactly the reference tree.
        let expect = write_tree(&store, &sides[0]);
        ensure_eq!(
            merged.tree_ids(),
            expect.tree_ids(),
            "conflict-free merge result differs from the reference tree"
        );
    }

    // Laws: merge([A,B,B]) = A and merge([B,B,A]) = A by tree id.
    let (a, b) = (&written[0], &written[1 % written.len()]);
    for (what, terms) in [
        ("merge([A,B,B])", vec![a.clone(), b.clone(), b.clone()]),
        ("merge([B,B,A])", vec![b.clone(), b.clone(), a.clone()]),
        ("merge([A,A,A])", vec![a.clone(), a.clone(), a.clone()]),
    ] {
        let r = jj_merge(what, terms, None, &opts)?;
        ensure_eq!(r.tree_ids(), a.tree_ids(), "{what} != A");
    }
    // Same law with a conflicted A (3 terms: the content merge is symmetric).
    if merged.has_conflict() && merged.tree_ids().num_sides() == 2 {
        for (what, terms) in [
            ("merge([M,B,B])", vec![merged.clone(), b.clone(), b.clone()]),
            ("merge([B,B,M])", vec![b.clone(), b.clone(), merged.clone()]),
        ] {
            let r = jj_merge(what, terms, None, &opts)?;
            equivalent_everywhere(what, &store, &r, &merged)?;
        }
    }

    // Restriction (flat 3-way only): merging the inputs restricted to one path
    // gives the same value at that path.
    let mut restricted = false;
    if matches!(case.shape, Shape::Flat) && models.len() == 3 {
        let candidates: Vec<String> = universe()
            .into_iter()
            .filter(|p| models.iter().any(|m| model_lookup(m, p) != Term::Absent))
            .collect();
        if !candidates.is_empty() {
            let p = &candidates[pick(case.focus, candidates.len())];
            if matches!(shadow(&sides, p, accept), Shadow::Visible | Shadow::BelowLeaf) {
                restricted = true;
                let small: Vec<MergedTree> = models
                    .iter()
                    .map(|m| write_tree(&store, &restrict(m, p)))
                    .collect();
                let r = jj_merge("restricted", small, None, &opts)?;
                let rp = repo_path(p);
                let full = merged.path_value(&rp).block_on().map_err(|e| Violation::new(e.to_string()))?;
                let part = r.path_value(&rp).block_on().map_err(|e| Violation::new(e.to_string()))?;
                ensure_eq!(
                    full.is_resolved(),
                    part.is_resolved(),
                    "restriction to {p}: resolved-ness of full {full:?} vs restricted {part:?}"
                );
                if full.is_resolved() {
                    ensure_eq!(full, part, "restriction to {p}: value");
                } else if !full.is_tree() {
                    let tf = terms_of_merge(&store, &rp, &full).map_err(Violation::new)?;
                    let tp = terms_of_merge(&store, &rp, &part).map_err(Violation::new)?;
                    ensure!(
                        denote(&tf) == denote(&tp),
                        "restriction to {p}: conflict {} vs {}",
                        brief_terms(&tf),
                        brief_terms(&tp)
                    );
                }
            }
        }
    }

    let arity = flat_terms.as_slice().len();
    let nontrivial = stats.clash > 0
        || stats.content_merged > 0
        || input_sides >= 5;
    Ok(Outcome::new(nontrivial)
        .class_if(stats.clash > 0, "file-dir-clash")
        .class_if(stats.content_merged > 0, "content-merged")
        .class_if(stats.content_conflict > 0, "content-conflict")
        .class_if(stats.exec_merged > 0, "exec-bits-differ")
        .class_if(stats.subtree_pick > 0, "subtree-cancelled-or-picked")
        .class_if(stats.other_conflict > 0, "other-conflict")
        .class_if(stats.recursed > 0, "recursed-into-dir")
        .class_if(sides.len() > 1, "result-conflicted")
        .class_if(cstats.below_clash > 0, "paths-below-clash-skipped")
        .class_if(nested, "nested")
        .class_if(conflicted_input, "conflicted-input")
        .class_if(arity < input_sides, "tree-level-simplified")
        .class_if(input_sides >= 5, "inputs>=5")
        .class_if(input_sides >= 7, "inputs>=7")
        .class_if(arity >= 5 && stats.content_merged + stats.content_conflict > 0, "content-merge-arity>=5")
        .class_if(case.keep, "same-change=keep")
        .class_if(restricted, "restriction-checked"))
}

pub fn run(report: &mut Report) {
    report.set_rule(
        "pool of 3..7 model trees (random tree/line edits of a base or of an earlier tree over a \
         14-path alphabet: modify, chmod, symlink, delete, file<->dir replacement) merged flat \
         (3/5/7-way) or nested (3/5 outer terms, each a tree or a 3/5-way inner merge, resolved or \
         not), same-change accept (80%) or keep; compared at every path of the alphabet with a \
         recursive reference merger over the model; non-trivial = the reference met a file<->dir \
         clash, or resolved a path by content merge, or there are >=5 input terms; distinct by case",
    );
    report.assume(
        "Merge::flatten/simplify give the term order (C01), files::try_merge merges one file's \
         contents (C04), TestBackend is content addressed (equal trees <=> equal tree ids)",
    );
    report.assume(
        "paths below a conflict that involves a non-directory are not compared (path_value \
         reports them absent; the statement does not define them); conflicts among directories \
         are compared through the paths below them",
    );
    let tier = report.tier;
    report.prop("merge", tier.pick(4_000, 150_000), case_strategy, check);
}
