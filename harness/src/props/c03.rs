//! C03 Content diffs partition their inputs deterministically.
//!
//! The oracle is the plain function [`check_diff`] (inputs, tokenizer mode,
//! comparator) so that a fuzz target can reuse it unchanged.

use std::ops::Range;

use jj_lib::diff::CompareBytes;
use jj_lib::diff::CompareBytesExactly;
use jj_lib::diff::CompareBytesIgnoreAllWhitespace;
use jj_lib::diff::CompareBytesIgnoreWhitespaceAmount;
use jj_lib::diff::ContentDiff;
use jj_lib::diff::DiffHunkKind;
use jj_lib::diff::find_line_ranges;
use jj_lib::diff::find_nonword_ranges;
use jj_lib::diff::find_word_ranges;
use proptest::prelude::*;
use serde::Deserialize;
use serde::Serialize;

use crate::engine::runner::CheckResult;
use crate::engine::runner::Outcome;
use crate::engine::runner::Report;
use crate::engine::runner::Violation;
use crate::gens::content::Bytes;
use crate::gens::content::diff_inputs;
use crate::gens::content::related_texts;
use crate::gens::content_ws::related_code_texts;
use crate::gens::content_ws::related_word_texts;
use crate::gens::content_ws::ws_perturbed;

pub const NUM_MODES: u8 = 5;
pub const NUM_CMPS: u8 = 3;

pub const MODE_NAMES: [&str; NUM_MODES as usize] = [
    "unrefined",
    "by_line",
    "by_word(+nonword)",
    "line>word>nonword",
    "line>word",
];
pub const CMP_NAMES: [&str; NUM_CMPS as usize] = ["exact", "ignore-all-ws", "ignore-ws-amount"];

/// The five ASCII whitespace bytes the comparators are documented to ignore.
fn is_ws(b: u8) -> bool {
    matches!(b, b' ' | b'\t' | b'\n' | b'\r' | 0x0c)
}

/// Re-implemented comparators: canonical form of a byte string under
/// comparator `cmp`; two strings are equal under the comparator iff their
/// canonical forms are byte-equal.
pub fn canonical(text: &[u8], cmp: u8) -> Vec<u8> {
    match cmp {
        0 => text.to_vec(),
        1 => {
            let mut out = Vec::with_capacity(text.len());
            for &b in text {
                if !is_ws(b) {
                    out.push(b);
                }
            }
            out
        }
        _ => {
            // every maximal run of whitespace becomes one ' '
            let mut out = Vec::with_capacity(text.len());
            let mut i = 0;
            while i < text.len() {
                if is_ws(text[i]) {
                    while i < text.len() && is_ws(text[i]) {
                        i += 1;
                    }
                    out.push(b' ');
                } else {
                    out.push(text[i]);
                    i += 1;
                }
            }
            out
        }
    }
}

/// One hunk as observed through `hunk_ranges()`.
#[derive(Clone, Debug, PartialEq, Eq)]
pub struct ObservedHunk {
    pub matching: bool,
    pub ranges: Vec<Range<usize>>,
}

/// What `check_diff` reports about a diff that satisfied the oracle.
#[derive(Clone, Debug, Default)]
pub struct DiffStats {
    pub hunks: usize,
    pub matching: usize,
    pub different: usize,
    /// Matching hunks whose sides are *not* byte-equal (equal only under the
    /// whitespace-insensitive comparator).
    pub ws_only_matching: usize,
}

fn build_with<'a, C: CompareBytes + Clone>(inputs: &'a [Vec<u8>], mode: u8, c: C) -> ContentDiff<'a> {
    match mode {
        0 => ContentDiff::for_tokenizer(inputs.iter(), |_| vec![], c),
        1 => ContentDiff::for_tokenizer(inputs.iter(), find_line_ranges, c),
        2 => {
            let mut d = ContentDiff::for_tokenizer(inputs.iter(), find_word_ranges, c.clone());
            d.refine_changed_regions(find_nonword_ranges, c);
            d
        }
        3 => {
            let mut d = ContentDiff::for_tokenizer(inputs.iter(), find_line_ranges, c.clone());
            d.refine_changed_regions(find_word_ranges, c.clone());
            d.refine_changed_regions(find_nonword_ranges, c);
            d
        }
        _ => {
            let mut d = ContentDiff::for_tokenizer(inputs.iter(), find_line_ranges, c.clone());
            d.refine_changed_regions(find_word_ranges, c);
            d
        }
    }
}

fn build(inputs: &[Vec<u8>], mode: u8, cmp: u8) -> ContentDiff<'_> {
    match cmp {
        0 => build_with(inputs, mode, CompareBytesExactly),
        1 => build_with(inputs, mode, CompareBytesIgnoreAllWhitespace),
        _ => build_with(inputs, mode, CompareBytesIgnoreWhitespaceAmount),
    }
}

/// The convenience constructors jj itself uses (exact comparison only).
fn build_convenience(inputs: &[Vec<u8>], mode: u8) -> Option<ContentDiff<'_>> {
    match mode {
        0 => Some(ContentDiff::unrefined(inputs.iter())),
        1 => Some(ContentDiff::by_line(inputs.iter())),
        2 => Some(ContentDiff::by_word(inputs.iter())),
        _ => None,
    }
}

fn bytes(b: &bstr::BStr) -> &[u8] {
    b
}

fn show(b: &[u8]) -> String {
    format!("{:?}", bstr::BStr::new(b))
}

/// Checks one `ContentDiff` against the oracle and returns its observed hunks.
fn check_one(
    inputs: &[Vec<u8>],
    diff: &ContentDiff<'_>,
    cmp: u8,
    what: &str,
) -> Result<(Vec<ObservedHunk>, DiffStats), String> {
    let n = inputs.len();
    let hunks: Vec<_> = diff.hunks().collect();
    let ranges: Vec<_> = diff.hunk_ranges().collect();
    // (5) hunks() and hunk_ranges() agree
    if hunks.len() != ranges.len() {
        return Err(format!(
            "{what}: hunks() yields {} hunks but hunk_ranges() yields {}",
            hunks.len(),
            ranges.len()
        ));
    }
    let mut cursor = vec![0usize; n];
    let mut rebuilt: Vec<Vec<u8>> = vec![vec![]; n];
    let mut observed = Vec::with_capacity(hunks.len());
    let mut stats = DiffStats::default();
    let mut prev_kind: Option<DiffHunkKind> = None;
    for (k, (h, r)) in hunks.iter().zip(&ranges).enumerate() {
        if h.kind != r.kind {
            return Err(format!("{what}: hunk {k}: kind differs between hunks() and hunk_ranges()"));
        }
        if h.contents.len() != n || r.ranges.len() != n {
            return Err(format!(
                "{what}: hunk {k} has {} contents / {} ranges for {n} inputs",
                h.contents.len(),
                r.ranges.len()
            ));
        }
        // (4) kinds strictly alternate
        if prev_kind == Some(h.kind) {
            return Err(format!("{what}: hunks {} and {k} are both {:?}", k - 1, h.kind));
        }
        prev_kind = Some(h.kind);
        let mut all_empty = true;
        for i in 0..n {
            let range = r.ranges[i].clone();
            // (1) ranges tile 0..len(i) contiguously
            if range.start != cursor[i] || range.end < range.start || range.end > inputs[i].len() {
                return Err(format!(
                    "{what}: hunk {k} input {i}: range {range:?} does not continue at {} (len {})",
                    cursor[i],
                    inputs[i].len()
                ));
            }
            cursor[i] = range.end;
            let content: &[u8] = bytes(h.contents[i]);
            if content != &inputs[i][range.clone()] {
                return Err(format!(
                    "{what}: hunk {k} input {i}: content {} is not the input at {range:?}",
                    show(content)
                ));
            }
            rebuilt[i].extend_from_slice(content);
            all_empty &= content.is_empty();
        }
        // (3) no hunk empty on every side
        if all_empty {
            return Err(format!("{what}: hunk {k} ({:?}) is empty on every side", h.kind));
        }
        match h.kind {
            DiffHunkKind::Matching => {
                stats.matching += 1;
                // (2) all sides equal under the re-implemented comparator
                let first = canonical(bytes(h.contents[0]), cmp);
                for i in 1..n {
                    if canonical(bytes(h.contents[i]), cmp) != first {
                        return Err(format!(
                            "{what}: matching hunk {k}: side {i} {} != side 0 {} under {}",
                            show(bytes(h.contents[i])),
                            show(bytes(h.contents[0])),
                            CMP_NAMES[cmp as usize]
                        ));
                    }
                }
                if h.contents.iter().any(|c| *c != h.contents[0]) {
                    stats.ws_only_matching += 1;
                }
            }
            DiffHunkKind::Different => stats.different += 1,
        }
        observed.push(ObservedHunk {
            matching: h.kind == DiffHunkKind::Matching,
            ranges: r.ranges.iter().cloned().collect(),
        });
    }
    // (1) concatenation reproduces every input byte for byte
    for i in 0..n {
        if cursor[i] != inputs[i].len() || rebuilt[i] != inputs[i] {
            return Err(format!(
                "{what}: input {i} not reproduced: hunks give {} (covering ..{}), input is {}",
                show(&rebuilt[i]),
                cursor[i],
                show(&inputs[i])
            ));
        }
    }
    // (7) a single input is one matching hunk (or nothing if empty)
    if n == 1 {
        let ok = if inputs[0].is_empty() {
            observed.is_empty()
        } else {
            observed.len() == 1 && observed[0].matching
        };
        if !ok {
            return Err(format!("{what}: single input gives hunks {observed:?}"));
        }
    }
    stats.hunks = observed.len();
    Ok((observed, stats))
}

/// The C03 oracle for one (inputs, tokenizer mode, comparator) combination.
///
/// `mode` in `0..NUM_MODES`, `cmp` in `0..NUM_CMPS` (larger values are clamped
/// so that a fuzz target can pass raw bytes). `inputs` must not be empty.
pub fn check_diff(inputs: &[Vec<u8>], mode: u8, cmp: u8) -> Result<DiffStats, String> {
    assert!(!inputs.is_empty());
    let mode = mode.min(NUM_MODES - 1);
    let cmp = cmp.min(NUM_CMPS - 1);
    let what = format!("{}/{}", MODE_NAMES[mode as usize], CMP_NAMES[cmp as usize]);
    // (6) every build draws a fresh RandomState; hunks must not depend on it.
    let first = build(inputs, mode, cmp);
    let (observed, stats) = check_one(inputs, &first, cmp, &what)?;
    for run in 1..3 {
        let again = build(inputs, mode, cmp);
        let (observed_again, _) = check_one(inputs, &again, cmp, &what)?;
        if observed_again != observed {
            return Err(format!(
                "{what}: run {run} gives different hunks: {observed_again:?} vs first run {observed:?}"
            ));
        }
    }
    if cmp == 0 {
        // jj's own convenience entry points are the same diffs.
        if let Some(conv) = build_convenience(inputs, mode) {
            let (observed_conv, _) = check_one(inputs, &conv, cmp, &format!("{what}(convenience)"))?;
            if observed_conv != observed {
                return Err(format!(
                    "{what}: convenience constructor gives {observed_conv:?}, for_tokenizer gives {observed:?}"
                ));
            }
        }
        if mode == 3 {
            let free: Vec<_> = jj_lib::diff::diff(inputs.iter());
            let from_struct: Vec<_> = first.hunks().collect();
            if free != from_struct {
                return Err(format!("{what}: diff() gives {free:?}, ContentDiff gives {from_struct:?}"));
            }
        }
    }
    Ok(stats)
}

#[derive(Debug, Clone, Serialize, Deserialize)]
pub struct Case {
    pub inputs: Vec<Bytes>,
}

fn check(case: &Case) -> CheckResult {
    let inputs: Vec<Vec<u8>> = case.inputs.iter().map(|b| b.0.clone()).collect();
    let mut nontrivial = false;
    let mut ws_only = false;
    let mut refined_more = false;
    let mut by_line_hunks = 0;
    for mode in 0..NUM_MODES {
        for cmp in 0..NUM_CMPS {
            let stats = check_diff(&inputs, mode, cmp).map_err(Violation::new)?;
            if inputs.len() >= 2 && stats.hunks >= 3 && stats.matching >= 1 && stats.different >= 1 {
                nontrivial = true;
            }
            ws_only |= stats.ws_only_matching > 0;
            if mode == 1 && cmp == 0 {
                by_line_hunks = stats.hunks;
            }
            if mode == 3 && cmp == 0 && stats.hunks > by_line_hunks {
                refined_more = true;
            }
        }
    }
    Ok(Outcome::new(nontrivial)
        .class_if(inputs.len() == 1, "inputs=1")
        .class_if(inputs.len() == 2, "inputs=2")
        .class_if(inputs.len() >= 3, "inputs>=3")
        .class_if(ws_only, "matching-only-under-ws-comparator")
        .class_if(refined_more, "word-refinement-splits-line-hunks")
        .class_if(by_line_hunks >= 5, "by_line>=5-hunks")
        .class_if(inputs.iter().any(|i| i.is_empty()), "has-empty-input")
        .class_if(inputs.iter().any(|i| i.contains(&b'\r')), "has-CR")
        .class_if(
            inputs.iter().any(|i| std::str::from_utf8(i).is_err() || i.contains(&0)),
            "has-binary",
        ))
}

fn strategy() -> impl Strategy<Value = Case> {
    prop_oneof![
        // shared generator: related line-structured texts, odd contents, raw bytes
        4 => diff_inputs(5),
        // the same with whitespace-only differences between versions
        3 => ws_perturbed(related_texts(1..=5usize, 10, true), 5, 5),
        // code-like lines (punctuation, indentation variants, moved lines)
        2 => ws_perturbed(related_code_texts(1..=5usize, 10), 5, 2),
        // word-level edits inside lines
        2 => ws_perturbed(related_word_texts(1..=5usize, 6, 4, false), 5, 2),
    ]
    .prop_map(|inputs| Case { inputs })
}

pub fn run(report: &mut Report) {
    report.set_rule(
        "1..=5 inputs (related line texts incl. CRLF/markers/odd/binary contents; whitespace-only \
         perturbed versions; code-like lines; word-level edits); every case is diffed under all 5 \
         tokenizer modes x 3 comparators, each built 3 times (+ jj's convenience constructors for \
         exact); non-trivial = >=2 inputs and some mode/comparator gives >=3 hunks with at least \
         one Matching and one Different; distinct by input list",
    );
    report.assume(
        "whitespace for the ignore-whitespace comparators is the ASCII set {SP,TAB,LF,FF,CR}; \
         only the tokenizers jj ships (line, word, non-word byte) are in the domain",
    );
    let cases = report.tier.pick(12_000, 300_000);
    report.prop("partition", cases, strategy, check);
}
