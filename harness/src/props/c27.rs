//! C27 Sparse patterns change the disk, never the commit.
//!
//! Stateful model-based check on a `TestWorkspace`: a model tree is checked out, then a
//! random sequence of `set_sparse_patterns` (random prefix sets: root, empty, nested,
//! overlapping), in-pattern edits, writes of foreign files outside the patterns,
//! snapshots and check-outs of other trees while sparse.
//!
//! Oracles
//!  * pattern change P -> P': the directory afterwards is exactly the directory before
//!    minus {p in tree : p in P, not in P'} plus {p in tree : p in P', not in P} (checked with
//!    the shared disk model, so nothing else may appear, vanish or change); the
//!    working-copy tree ids are unchanged; the stored pattern list is P'; `CheckoutStats`
//!    counts exactly the symmetric difference.
//!  * clean workspace: afterwards the in-pattern part of the directory equals the
//!    in-pattern part of the tree.
//!  * snapshot: new tree = old tree with its in-pattern part replaced by the in-pattern
//!    part of the directory; nothing outside the patterns is added, changed or recorded as
//!    deleted; the directory is untouched.
//!  * check-out while sparse: the tree becomes the new tree, the in-pattern part of the
//!    directory becomes its in-pattern part, everything outside is untouched.

use std::collections::BTreeSet;

use jj_lib::repo::Repo as _;
use jj_lib::repo_path::RepoPathBuf;
use jj_lib::working_copy::CheckoutStats;
use pollster::FutureExt as _;
use proptest::prelude::*;
use serde::Deserialize;
use serde::Serialize;
use testutils::TestWorkspace;

use crate::engine::runner::CheckResult;
use crate::engine::runner::Outcome;
use crate::engine::runner::Report;
use crate::engine::runner::Violation;
use crate::engine::runner::pick;
use crate::gens::content::Bytes;
use crate::model::disk::DiskEntry;
use crate::model::disk::DiskModel;
use crate::model::disk::ancestors;
use crate::model::disk::is_below;
use crate::model::disk::to_disk_entry;
use crate::model::disk::to_tree_entry;
use crate::model::tree::Entry;
use crate::model::tree::ModelTree;
use crate::model::tree::delete as tree_delete;
use crate::model::tree::put as tree_put;
use crate::model::tree::read_resolved_tree;
use crate::model::tree::repo_path;
use crate::model::tree::small_content;
use crate::model::tree::write_tree;

/// Tree positions: the tree model's alphabet plus a subtree (`e/..`) whose directories
/// are never leaves, so that foreign files can live next to tree files without ever
/// standing in the way of one.
pub const LEAVES: &[&str] = &[
    "a", "b", "c", "d", "a/b", "a/c", "a/b/c", "a/b/d", "d/e", "d/e/f", "b/x", "ü", "a/ü",
    "c/y z", "e/f", "e/g/h", "e/g/i",
];

/// Positions of foreign ("stray") files written by the user, typically outside the
/// patterns. Their names are disjoint from tree names and their directories are never
/// tree leaves.
pub const STRAYS: &[&str] = &["s0", "e/s1", "e/g/s2", "zz/s3", "zz/y/s4"];

/// Sparse pattern prefixes ("" = root).
pub const PREFIXES: &[&str] = &["", "a", "a/b", "b", "c", "d", "d/e", "e", "e/g", "zz"];

const LINK_TARGETS: &[&str] = &["nowhere", "../outside", "x", "ü"];

#[derive(Debug, Clone, Serialize, Deserialize)]
pub enum Leaf {
    File { content: Bytes, exec: bool },
    Symlink(u16),
}

impl Leaf {
    fn to_entry(&self) -> Entry {
        match self {
            Self::File { content, exec } => Entry::File {
                content: content.clone(),
                exec: *exec,
            },
            Self::Symlink(t) => {
                Entry::Symlink(LINK_TARGETS[pick(*t, LINK_TARGETS.len())].to_string())
            }
        }
    }
}

#[derive(Debug, Clone, Serialize, Deserialize)]
pub enum TreeChange {
    Put(u16, Leaf),
    Delete(u16),
}

#[derive(Debug, Clone, Serialize, Deserialize)]
pub enum Op {
    SetSparse(Vec<u16>),
    /// Create or replace an in-pattern leaf (file<->dir swaps included).
    Write { path: u16, leaf: Leaf },
    /// Flip one byte of an in-pattern regular file.
    SameSize { file: u16, at: u16 },
    Chmod { file: u16 },
    /// Delete an in-pattern file or directory.
    Delete { target: u16 },
    /// Write a foreign file (anywhere; interesting when outside the patterns).
    Stray { path: u16, content: Bytes },
    Snapshot,
    /// Check out the current tree with changes applied anywhere (inside and outside the
    /// patterns), or a fresh tree.
    CheckOut { fresh: bool, changes: Vec<TreeChange> },
}

#[derive(Debug, Clone, Serialize, Deserialize)]
pub struct Case {
    pub initial: Vec<(u16, Leaf)>,
    pub ops: Vec<Op>,
}

fn leaf() -> impl Strategy<Value = Leaf> {
    prop_oneof![
        8 => (small_content(), prop::bool::weighted(0.2))
            .prop_map(|(content, exec)| Leaf::File { content, exec }),
        1 => any::<u16>().prop_map(Leaf::Symlink),
    ]
}

fn tree_change() -> impl Strategy<Value = TreeChange> {
    prop_oneof![
        3 => (any::<u16>(), leaf()).prop_map(|(p, l)| TreeChange::Put(p, l)),
        1 => any::<u16>().prop_map(TreeChange::Delete),
    ]
}

fn op() -> impl Strategy<Value = Op> {
    prop_oneof![
        8 => prop_oneof![
            1 => Just(vec![]),
            9 => prop::collection::vec(any::<u16>(), 1..=3),
        ].prop_map(Op::SetSparse),
        5 => (any::<u16>(), leaf()).prop_map(|(path, leaf)| Op::Write { path, leaf }),
        2 => (any::<u16>(), any::<u16>()).prop_map(|(file, at)| Op::SameSize { file, at }),
        1 => any::<u16>().prop_map(|file| Op::Chmod { file }),
        3 => any::<u16>().prop_map(|target| Op::Delete { target }),
        2 => (any::<u16>(), small_content()).prop_map(|(path, content)| Op::Stray { path, content }),
        3 => Just(Op::Snapshot),
        2 => (prop::bool::weighted(0.25), prop::collection::vec(tree_change(), 1..5))
            .prop_map(|(fresh, changes)| Op::CheckOut { fresh, changes }),
    ]
}

pub fn case(max_ops: usize) -> impl Strategy<Value = Case> {
    (
        prop::collection::vec((any::<u16>(), leaf()), 4..14),
        prop::collection::vec(op(), 3..=max_ops),
    )
        .prop_map(|(initial, ops)| Case { initial, ops })
}

fn in_patterns(patterns: &[String], path: &str) -> bool {
    patterns
        .iter()
        .any(|q| q.is_empty() || q == path || is_below(q, path))
}

#[derive(Default)]
struct Flags {
    pattern_changes: u32,
    both_ways_changes: u32,
    /// A snapshot (with pending edits) happened since the last both-ways change.
    snapshot_since_both_ways: bool,
    edited_snapshot_since_both_ways: bool,
    both_ways_with_snapshot_between: bool,
    both_ways_with_edited_snapshot_between: bool,
    empty_patterns: bool,
    root_patterns: bool,
    overlapping: bool,
    checkout_while_sparse: bool,
    checkout_changes_outside: bool,
    stray_outside_at_snapshot: bool,
    stray_recorded_later: bool,
    in_pattern_deletion_recorded: bool,
    in_pattern_edit_recorded: bool,
    tree_outside_at_snapshot: bool,
    swap_in_pattern: bool,
    noop_change: bool,
}

struct State {
    ws: TestWorkspace,
    disk: DiskModel,
    tree: ModelTree,
    patterns: Vec<String>,
    flags: Flags,
}

fn harness<T>(r: Result<T, String>) -> Result<T, Violation> {
    r.map_err(Violation::new)
}

impl State {
    fn inp(&self, path: &str) -> bool {
        in_patterns(&self.patterns, path)
    }

    fn wc_tree_ids(&self) -> Result<String, Violation> {
        let tree = self
            .ws
            .workspace
            .working_copy()
            .tree()
            .map_err(|e| Violation::new(format!("cannot read working-copy tree: {e:?}")))?;
        Ok(format!("{:?}", tree.tree_ids_and_labels()))
    }

    /// In-pattern leaves where a user edit keeps the tree representable: no ancestor of
    /// the position is a tree leaf outside the patterns (a tree cannot hold both `a` and
    /// `a/b`, so recording `a/b` would necessarily drop the out-of-pattern `a`; that
    /// corner is outside the statement).
    fn writable(&self, path: &str) -> bool {
        self.inp(path)
            && !ancestors(path)
                .iter()
                .any(|a| self.tree.contains_key(*a) && !self.inp(a))
    }

    /// The in-pattern part of the directory differs from the in-pattern part of the tree
    /// (user edits, or foreign files that a pattern change brought inside).
    fn dirty(&self) -> bool {
        self.tree
            .iter()
            .any(|(p, e)| self.inp(p) && self.disk.get(p) != Some(&to_disk_entry(e)))
            || self
                .disk
                .entries
                .keys()
                .any(|p| self.inp(p) && !self.tree.contains_key(p))
    }

    fn snapshot(&mut self) -> Result<(), Violation> {
        let had_edits = self.dirty();
        let tree = self
            .ws
            .snapshot()
            .map_err(|e| Violation::new(format!("snapshot failed: {e:?}")))?;
        let mut expected = ModelTree::new();
        for (p, e) in &self.tree {
            if !self.inp(p) {
                self.flags.tree_outside_at_snapshot = true;
                expected.insert(p.clone(), e.clone());
            } else if !self.disk.is_leaf(p) {
                self.flags.in_pattern_deletion_recorded = true;
            }
        }
        for (p, e) in &self.disk.entries {
            if self.inp(p) {
                let entry = to_tree_entry(e);
                if self.tree.get(p) != Some(&entry) {
                    self.flags.in_pattern_edit_recorded = true;
                    if STRAYS.contains(&p.as_str()) {
                        self.flags.stray_recorded_later = true;
                    }
                }
                expected.insert(p.clone(), entry);
            } else {
                self.flags.stray_outside_at_snapshot = true;
            }
        }
        let actual = read_resolved_tree(&tree)
            .map_err(|e| Violation::new(format!("snapshot tree unreadable: {e}")))?;
        let paths: BTreeSet<&String> = expected.keys().chain(actual.keys()).collect();
        for path in paths {
            let (want, got) = (expected.get(path), actual.get(path));
            if want != got {
                return Err(Violation::new(format!(
                    "snapshot with patterns {:?} at {path:?} (in patterns: {}): expected {want:?}, \
                     snapshot tree has {got:?}; tree before: {:?}; on disk: {:?}",
                    self.patterns,
                    self.inp(path),
                    self.tree.get(path),
                    self.disk.get(path),
                )));
            }
        }
        if let Err(d) = self.disk.compare() {
            return Err(Violation::new(format!("snapshot changed the working directory: {d}")));
        }
        self.tree = expected;
        self.flags.snapshot_since_both_ways = true;
        if had_edits {
            self.flags.edited_snapshot_since_both_ways = true;
        }
        Ok(())
    }

    /// jj's commands snapshot before they touch the working copy; so does the model
    /// (otherwise un-snapshotted edits would legitimately be overwritten).
    fn settle(&mut self) -> Result<(), Violation> {
        if self.dirty() {
            self.snapshot()?;
        }
        // Clean workspace: in-pattern directory == in-pattern tree.
        for (p, e) in &self.tree {
            if self.inp(p) {
                assert_eq!(self.disk.get(p), Some(&to_disk_entry(e)), "model: dirty at {p:?}");
            }
        }
        for p in self.disk.entries.keys() {
            if self.inp(p) {
                assert!(self.tree.contains_key(p), "model: untracked in-pattern {p:?}");
            }
        }
        Ok(())
    }

    fn set_sparse(&mut self, raw: &[u16]) -> Result<(), Violation> {
        self.settle()?;
        // Prefix candidates: the root, every directory and leaf of the current tree (so that
        // a pattern usually covers something) and a few fixed positions.
        let mut candidates: BTreeSet<String> =
            PREFIXES.iter().map(|q| q.to_string()).collect();
        for p in self.tree.keys() {
            candidates.insert(p.clone());
            for a in ancestors(p) {
                candidates.insert(a.to_string());
            }
        }
        let candidates: Vec<String> = candidates.into_iter().collect();
        let new: Vec<String> = raw
            .iter()
            .map(|i| candidates[pick(*i, candidates.len())].clone())
            .collect();
        let ids_before = self.wc_tree_ids()?;
        let leaving: Vec<String> = self
            .tree
            .keys()
            .filter(|p| self.inp(p) && !in_patterns(&new, p))
            .cloned()
            .collect();
        let entering: Vec<String> = self
            .tree
            .keys()
            .filter(|p| !self.inp(p) && in_patterns(&new, p))
            .cloned()
            .collect();
        // By construction nothing on disk stands where an entering file goes.
        for p in &entering {
            assert!(
                !self.disk.is_leaf(p)
                    && !self.disk.is_dir(p)
                    && !ancestors(p).iter().any(|a| self.disk.is_leaf(a)),
                "model: entering path {p:?} is obstructed"
            );
        }
        let new_paths: Vec<RepoPathBuf> = new
            .iter()
            .map(|q| {
                if q.is_empty() {
                    RepoPathBuf::root()
                } else {
                    repo_path(q)
                }
            })
            .collect();
        let op_id = self.ws.repo.op_id().clone();
        let mut locked_ws = self
            .ws
            .workspace
            .start_working_copy_mutation()
            .block_on()
            .map_err(|e| Violation::new(format!("cannot lock working copy: {e:?}")))?;
        let stats = locked_ws
            .locked_wc()
            .set_sparse_patterns(new_paths.clone())
            .block_on()
            .map_err(|e| Violation::new(format!("set_sparse_patterns({new:?}) failed: {e:?}")))?;
        locked_ws
            .finish(op_id)
            .block_on()
            .map_err(|e| Violation::new(format!("finish failed: {e:?}")))?;

        for p in &leaving {
            self.disk.model_remove(p);
        }
        for p in &entering {
            self.disk.model_set(p, to_disk_entry(&self.tree[p]));
        }
        if let Err(d) = self.disk.compare() {
            return Err(Violation::new(format!(
                "pattern change {:?} -> {new:?} (tree paths leaving: {leaving:?}, entering: \
                 {entering:?}): {d}",
                self.patterns
            )));
        }
        let want_stats = CheckoutStats {
            updated_files: 0,
            added_files: entering.len() as u32,
            removed_files: leaving.len() as u32,
            skipped_files: 0,
        };
        if stats != want_stats {
            return Err(Violation::new(format!(
                "pattern change {:?} -> {new:?}: stats {stats:?}, expected {want_stats:?}",
                self.patterns
            )));
        }
        let ids_after = self.wc_tree_ids()?;
        if ids_before != ids_after {
            return Err(Violation::new(format!(
                "pattern change {:?} -> {new:?} changed the working-copy tree: {ids_before} -> {ids_after}",
                self.patterns
            )));
        }
        let stored = self
            .ws
            .workspace
            .working_copy()
            .sparse_patterns()
            .map_err(|e| Violation::new(format!("cannot read sparse patterns: {e:?}")))?
            .to_vec();
        if stored != new_paths {
            return Err(Violation::new(format!(
                "stored sparse patterns {stored:?} differ from the requested {new_paths:?}"
            )));
        }

        let f = &mut self.flags;
        f.pattern_changes += 1;
        if !leaving.is_empty() && !entering.is_empty() {
            if f.both_ways_changes >= 1 && f.snapshot_since_both_ways {
                f.both_ways_with_snapshot_between = true;
            }
            if f.both_ways_changes >= 1 && f.edited_snapshot_since_both_ways {
                f.both_ways_with_edited_snapshot_between = true;
            }
            f.both_ways_changes += 1;
            f.snapshot_since_both_ways = false;
            f.edited_snapshot_since_both_ways = false;
        }
        f.noop_change |= leaving.is_empty() && entering.is_empty();
        f.empty_patterns |= new.is_empty();
        f.root_patterns |= new.iter().any(|q| q.is_empty());
        f.overlapping |= new
            .iter()
            .any(|q| new.iter().any(|r| r != q && (r.is_empty() || is_below(r, q))));
        self.patterns = new;
        // Clean workspace: disk within patterns == tree within patterns.
        for (p, e) in &self.tree {
            let want = self.inp(p).then(|| to_disk_entry(e));
            let have = self.disk.get(p).cloned();
            if self.inp(p) || !STRAYS.contains(&p.as_str()) {
                assert_eq!(have, want, "model: after pattern change at {p:?}");
            }
        }
        Ok(())
    }

    fn check_out(&mut self, fresh: bool, changes: &[TreeChange]) -> Result<(), Violation> {
        self.settle()?;
        let mut new_tree = if fresh {
            ModelTree::new()
        } else {
            self.tree.clone()
        };
        for c in changes {
            match c {
                TreeChange::Put(p, l) => {
                    tree_put(&mut new_tree, LEAVES[pick(*p, LEAVES.len())], l.to_entry());
                }
                TreeChange::Delete(p) => {
                    let keys: Vec<String> = new_tree.keys().cloned().collect();
                    if !keys.is_empty() {
                        tree_delete(&mut new_tree, &keys[pick(*p, keys.len())]);
                    }
                }
            }
        }
        // A tracked stray position must stay a plain tree path without tree entries in
        // its way; the alphabets guarantee it.
        let store = self.ws.repo.store().clone();
        let tree = write_tree(&store, &new_tree);
        let commit = testutils::commit_with_tree(&store, tree.clone());
        let op_id = self.ws.repo.op_id().clone();
        self.ws
            .workspace
            .check_out(op_id, None, &commit)
            .block_on()
            .map_err(|e| Violation::new(format!("check_out failed: {e:?}")))?;
        let old_in: Vec<String> = self.tree.keys().filter(|p| self.inp(p)).cloned().collect();
        for p in old_in {
            self.disk.model_remove(&p);
        }
        for (p, e) in &new_tree {
            if self.inp(p) {
                self.disk.model_set(p, to_disk_entry(e));
            } else if self.tree.get(p) != Some(e) {
                self.flags.checkout_changes_outside = true;
            }
        }
        if self.tree.keys().any(|p| !self.inp(p) && !new_tree.contains_key(p)) {
            self.flags.checkout_changes_outside = true;
        }
        if let Err(d) = self.disk.compare() {
            return Err(Violation::new(format!(
                "check-out with patterns {:?}: {d}",
                self.patterns
            )));
        }
        let persisted = self
            .ws
            .workspace
            .working_copy()
            .tree()
            .map_err(|e| Violation::new(format!("cannot read working-copy tree: {e:?}")))?
            .tree_ids_and_labels();
        if persisted != tree.tree_ids_and_labels() {
            return Err(Violation::new("working-copy tree after check-out is not the checked-out tree"));
        }
        self.tree = new_tree;
        if !self.patterns.iter().any(|q| q.is_empty()) {
            self.flags.checkout_while_sparse = true;
        }
        Ok(())
    }

    fn apply(&mut self, op: &Op) -> Result<(), Violation> {
        match op {
            Op::SetSparse(raw) => self.set_sparse(raw)?,
            Op::Write { path, leaf } => {
                let candidates: Vec<&str> =
                    LEAVES.iter().copied().filter(|p| self.writable(p)).collect();
                if candidates.is_empty() {
                    return Ok(());
                }
                let path = candidates[pick(*path, candidates.len())];
                if self.disk.is_dir(path) || ancestors(path).iter().any(|a| self.disk.is_leaf(a)) {
                    self.flags.swap_in_pattern = true;
                }
                harness(self.disk.put(path, &to_disk_entry(&leaf.to_entry())))?;
            }
            Op::SameSize { file, at } => {
                let candidates: Vec<(String, Vec<u8>, bool)> = self
                    .disk
                    .entries
                    .iter()
                    .filter_map(|(p, e)| match e {
                        DiskEntry::File { content, exec } if !content.is_empty() && self.inp(p) => {
                            Some((p.clone(), content.clone(), *exec))
                        }
                        _ => None,
                    })
                    .collect();
                if candidates.is_empty() {
                    return Ok(());
                }
                let (path, mut content, exec) = candidates[pick(*file, candidates.len())].clone();
                let i = pick(*at, content.len());
                content[i] ^= 0x01;
                harness(self.disk.put_file(&path, &content, exec))?;
            }
            Op::Chmod { file } => {
                let candidates: Vec<(String, bool)> = self
                    .disk
                    .entries
                    .iter()
                    .filter_map(|(p, e)| match e {
                        DiskEntry::File { exec, .. } if self.inp(p) => Some((p.clone(), *exec)),
                        _ => None,
                    })
                    .collect();
                if candidates.is_empty() {
                    return Ok(());
                }
                let (path, exec) = &candidates[pick(*file, candidates.len())];
                harness(self.disk.chmod(path, !exec))?;
            }
            Op::Delete { target } => {
                // In-pattern leaves and directories that lie entirely inside the patterns.
                let mut targets: Vec<String> = self
                    .disk
                    .entries
                    .keys()
                    .filter(|p| self.inp(p))
                    .cloned()
                    .collect();
                for d in self.disk.dirs() {
                    if self.inp(&d) {
                        targets.push(d);
                    }
                }
                if targets.is_empty() {
                    return Ok(());
                }
                let t = targets[pick(*target, targets.len())].clone();
                // Empty directories are pruned (an empty untracked directory would stand in
                // the way of a later check-out; that is C25's subject, not this one's).
                harness(self.disk.remove(&t, true))?;
            }
            Op::Stray { path, content } => {
                let path = STRAYS[pick(*path, STRAYS.len())];
                // A foreign file is never written where the tree has an out-of-pattern entry
                // (it would obstruct a later pattern change: C25's subject).
                if self.tree.contains_key(path) && !self.inp(path) {
                    return Ok(());
                }
                harness(self.disk.put_file(path, &content.0, false))?;
                if self.inp(path) {
                    }
            }
            Op::Snapshot => self.snapshot()?,
            Op::CheckOut { fresh, changes } => self.check_out(*fresh, changes)?,
        }
        Ok(())
    }
}

pub fn check(case: &Case) -> CheckResult {
    let ws = TestWorkspace::init();
    let root = ws.workspace.workspace_root().to_owned();
    let mut st = State {
        disk: DiskModel::new(&root),
        ws,
        tree: ModelTree::new(),
        patterns: vec![String::new()],
        flags: Flags::default(),
    };
    let initial: Vec<TreeChange> = case
        .initial
        .iter()
        .map(|(p, l)| TreeChange::Put(*p, l.clone()))
        .collect();
    st.check_out(true, &initial)?;
    for op in &case.ops {
        st.apply(op)?;
    }
    // Close the sequence: pending edits are snapshotted, then everything comes back.
    st.snapshot()?;
    st.set_sparse(&[0])?;
    st.snapshot()?;

    let f = &st.flags;
    Ok(Outcome::new(f.both_ways_with_snapshot_between)
        .class_if(f.both_ways_changes >= 1, "change adds and removes")
        .class_if(f.both_ways_changes >= 2, "two changes add and remove")
        .class_if(
            f.both_ways_with_edited_snapshot_between,
            "two such changes with an edit-recording snapshot between",
        )
        .class_if(f.empty_patterns, "empty pattern set")
        .class_if(f.root_patterns && f.pattern_changes >= 2, "back to root")
        .class_if(f.overlapping, "overlapping patterns")
        .class_if(f.noop_change, "change moves no file")
        .class_if(f.checkout_while_sparse, "check-out while sparse")
        .class_if(f.checkout_changes_outside, "check-out changes out-of-pattern paths")
        .class_if(f.tree_outside_at_snapshot, "snapshot with tree paths outside patterns")
        .class_if(f.stray_outside_at_snapshot, "snapshot with foreign file outside patterns")
        .class_if(f.stray_recorded_later, "foreign file recorded once inside patterns")
        .class_if(f.in_pattern_deletion_recorded, "in-pattern deletion recorded")
        .class_if(f.in_pattern_edit_recorded, "in-pattern edit recorded")
        .class_if(f.swap_in_pattern, "in-pattern file<->dir swap"))
}

/// Reserved positions that no check-out may ever materialise (they make `update` fail).
pub const RESERVED: &[&str] = &["r/.git", "r/.jj", "r/.git/pwned", "r/.jj/pwned", "r/sub/.git"];

/// A pattern change that fails half-way (the tree holds a reserved path that only the new
/// patterns cover) must leave the pattern list alone: a snapshot taken afterwards through
/// the same locked working copy still treats everything outside the *old* patterns as
/// out of scope (nothing there is recorded as deleted).
#[derive(Debug, Clone, Serialize, Deserialize)]
pub struct FailCase {
    pub tree: Vec<(u16, Leaf)>,
    pub old: Vec<u16>,
    pub reserved: u16,
    pub new_root: bool,
    pub edit: Option<(u16, Leaf)>,
}

pub fn fail_case() -> impl Strategy<Value = FailCase> {
    (
        prop::collection::vec((any::<u16>(), leaf()), 2..10),
        prop::collection::vec(any::<u16>(), 0..=2),
        any::<u16>(),
        any::<bool>(),
        prop::option::of((any::<u16>(), leaf())),
    )
        .prop_map(|(tree, old, reserved, new_root, edit)| FailCase {
            tree,
            old,
            reserved,
            new_root,
            edit,
        })
}

pub fn check_failed_change(case: &FailCase) -> CheckResult {
    let mut ws = TestWorkspace::init();
    let root = ws.workspace.workspace_root().to_owned();
    let op_id = ws.repo.op_id().clone();
    let store = ws.repo.store().clone();
    let old: Vec<String> = case
        .old
        .iter()
        .map(|i| PREFIXES[pick(*i, PREFIXES.len())])
        .map(|q| if q.is_empty() { "a" } else { q })
        .map(str::to_string)
        .collect();
    let old_paths: Vec<RepoPathBuf> = old.iter().map(|q| repo_path(q)).collect();
    let reserved = RESERVED[pick(case.reserved, RESERVED.len())];
    let mut tree = ModelTree::new();
    for (p, l) in &case.tree {
        tree_put(&mut tree, LEAVES[pick(*p, LEAVES.len())], l.to_entry());
    }
    tree.insert(
        reserved.to_string(),
        Entry::File {
            content: Bytes(b"reserved\n".to_vec()),
            exec: false,
        },
    );
    let verr = |what: &str, e: String| Violation::new(format!("{what}: {e}"));

    // Narrow the patterns on the empty tree, then check the tree out.
    {
        let mut locked_ws = ws
            .workspace
            .start_working_copy_mutation()
            .block_on()
            .map_err(|e| verr("lock", format!("{e:?}")))?;
        locked_ws
            .locked_wc()
            .set_sparse_patterns(old_paths.clone())
            .block_on()
            .map_err(|e| verr("initial set_sparse_patterns", format!("{e:?}")))?;
        locked_ws
            .finish(op_id.clone())
            .block_on()
            .map_err(|e| verr("finish", format!("{e:?}")))?;
    }
    let merged = write_tree(&store, &tree);
    let commit = testutils::commit_with_tree(&store, merged);
    ws.workspace
        .check_out(op_id.clone(), None, &commit)
        .block_on()
        .map_err(|e| verr("check_out with the reserved path outside the patterns", format!("{e:?}")))?;
    let mut disk = DiskModel::new(&root);
    for (p, e) in &tree {
        if in_patterns(&old, p) {
            disk.model_set(p, to_disk_entry(e));
        }
    }
    if let Err(d) = disk.compare() {
        return Err(Violation::new(format!("sparse check-out with patterns {old:?}: {d}")));
    }

    // The failing change.
    let new_paths = if case.new_root {
        vec![RepoPathBuf::root()]
    } else {
        vec![repo_path("r")]
    };
    let mut locked_ws = ws
        .workspace
        .start_working_copy_mutation()
        .block_on()
        .map_err(|e| verr("lock", format!("{e:?}")))?;
    let result = locked_ws
        .locked_wc()
        .set_sparse_patterns(new_paths.clone())
        .block_on();
    if let Ok(stats) = &result {
        return Err(Violation::new(format!(
            "pattern change covering the reserved path {reserved:?} succeeded: {stats:?}"
        )));
    }
    let after_failure = locked_ws
        .locked_wc()
        .sparse_patterns()
        .map_err(|e| verr("sparse_patterns", format!("{e:?}")))?
        .to_vec();
    if after_failure != old_paths {
        return Err(Violation::new(format!(
            "failed pattern change left the pattern list at {after_failure:?}, expected the old \
             {old_paths:?}"
        )));
    }
    // An in-pattern edit, then a snapshot through the same locked working copy.
    let mut edited = false;
    if let Some((p, l)) = &case.edit {
        let candidates: Vec<&str> = LEAVES
            .iter()
            .copied()
            .filter(|p| {
                in_patterns(&old, p)
                    && !ancestors(p)
                        .iter()
                        .any(|a| tree.contains_key(*a) && !in_patterns(&old, a))
            })
            .collect();
        if !candidates.is_empty() {
            let path = candidates[pick(*p, candidates.len())];
            harness(disk.put(path, &to_disk_entry(&l.to_entry())))?;
            edited = true;
        }
    }
    let (snap, _stats) = locked_ws
        .locked_wc()
        .snapshot(&testutils::empty_snapshot_options())
        .block_on()
        .map_err(|e| verr("snapshot after failed pattern change", format!("{e:?}")))?;
    locked_ws
        .finish(op_id.clone())
        .block_on()
        .map_err(|e| verr("finish", format!("{e:?}")))?;
    let mut expected = ModelTree::new();
    for (p, e) in &tree {
        if !in_patterns(&old, p) {
            expected.insert(p.clone(), e.clone());
        }
    }
    for (p, e) in &disk.entries {
        expected.insert(p.clone(), to_tree_entry(e));
    }
    let actual = read_resolved_tree(&snap).map_err(|e| verr("snapshot tree unreadable", e))?;
    let paths: BTreeSet<&String> = expected.keys().chain(actual.keys()).collect();
    for path in paths {
        let (want, got) = (expected.get(path), actual.get(path));
        if want != got {
            return Err(Violation::new(format!(
                "snapshot after a failed pattern change ({old:?} -> {new_paths:?}) at {path:?} (in old \
                 patterns: {}): expected {want:?}, got {got:?}",
                in_patterns(&old, path)
            )));
        }
    }
    let stored = ws
        .workspace
        .working_copy()
        .sparse_patterns()
        .map_err(|e| verr("sparse_patterns", format!("{e:?}")))?
        .to_vec();
    if stored != old_paths {
        return Err(Violation::new(format!(
            "stored patterns after a failed change: {stored:?}, expected {old_paths:?}"
        )));
    }
    let outside = tree.keys().filter(|p| !in_patterns(&old, p)).count();
    Ok(Outcome::new(outside >= 2 && edited)
        .class_if(case.new_root, "failed change to root")
        .class_if(!case.new_root, "failed change to the reserved directory")
        .class_if(old.is_empty(), "failed change from empty patterns"))
}

pub fn run(report: &mut Report) {
    report.set_rule(
        "random model tree (2..9 puts over a 17-path alphabet with nested dirs) checked out on a \
         fresh TestWorkspace, then 3..=24 ops: set_sparse_patterns with 0..3 prefixes out of 15 \
         (root, empty, nested, overlapping), in-pattern write/same-size/chmod/delete, foreign files \
         at 5 positions (usually outside the patterns), snapshots, check-outs of edited or fresh \
         trees while sparse; every sequence ends with snapshot, patterns back to root, snapshot. \
         non-trivial = >=2 pattern changes that each add and remove tree files, with a snapshot \
         between them (sub-check failed-change: a pattern change that fails on a reserved path, \
         then an in-pattern edit and a snapshot through the same locked working copy; \
         non-trivial = >=2 tree paths outside the old patterns and an edit)",
    );
    report.assume(
        "as jj's commands do, the model snapshots before every pattern change and check-out \
         (un-snapshotted edits may legitimately be overwritten otherwise)",
    );
    report.assume(
        "excluded corners: an in-pattern edit below a tree *file* that is outside the patterns (a \
         tree cannot hold both), and foreign files or empty directories standing where a tree file \
         has to be written (C25's subject)",
    );
    let tier = report.tier;
    report.prop("sequences", tier.pick(500, 30_000), || case(24), check);
    report.prop("failed-change", tier.pick(150, 6_000), fail_case, check_failed_change);
}
